"""AST normalisation for the C18 translator (extractors/tolist.py).  Not an extractor itself (underscore prefix).

The translator reads a function in three steps:  (1) `Exec` runs the statement list SYMBOLICALLY (locals, `self.<attr>` and
`<name>[<index>]` cells are substituted by the expressions assigned to them, conditionals become decision trees / conditional
expressions), (2) the result is brought to a normal form, (3) `match` compares it with a pattern written in Python syntax
whose metavariables bind the literals the Lean table is made of.  Anything outside the fragment below raises ExtractError
(fail closed): nothing is ever skipped.

Normalisations (each preserves Python semantics for every input on which no sub-expression raises; for raising see the end)

  N1  locals: a local assigned a PURE expression is replaced by that expression where it is read (renamed locals, hoisted
      temporaries and named constants, result variable vs early return, `x = a if c else b` vs `if c: x = a / else: x = b`);
      chained assignment `a = b = v` = `a = v; b = v` and tuple assignment `a, b = v, w` (right-hand sides are evaluated first,
      they are pure); `a, b = f()` = `t = f(); a = t[0]; b = t[1]` only for the calls listed in UNPACK (known to return a
      tuple of exactly that length: sympy's `as_two_terms`, ESR's `string_to_node`, `check_tree`).
  N2  `self.<attr>` assigned earlier in the same function and read later is the assigned expression (`self.degree` for
      `len(fun.args)`), as long as nothing in between can write it (only the whitelisted pure calls occur).
  N3  `if c: A else: B` with arms that only assign becomes conditional expressions per cell; arms that return give a decision
      tree; an `if` whose body always returns followed by more statements = the same `if` with those statements as `else`
      (else after return dropped / added); falling off the end = `return None` = `pass` branch.
  N4  a conditional expression in a position that is CERTAINLY evaluated is lifted to the decision tree
      (`return [a if c else b] + x`  =  `if c: return [a] + x / else: return [b] + x`); not lifted from the right of and/or, a
      conditional arm or a comprehension body.
  N5  boolean contexts (`if`, conditional-expression tests, comprehension conditions, operands of not/and/or inside them):
      negation normal form — double negation, De Morgan, `not a == b` = `a != b`, `not a is b` = `a is not b`,
      `not a in b` = `a not in b` (and back); nested and/or of the same operator flattened; `x == 'a' or x == 'b'` =
      `x in ['a', 'b']` (one pure x, str / int literals).  A decision node whose test
      is a negation / `!=` / `is not` / `not in` is stored with the positive test and swapped arms (guard inversion).
      Ordering comparisons are never flipped (NaN).
  N6  `str(<int literal>)` = the string literal; a tuple display as right operand of `in` = the list display.
  N7  loops: `for i, v in enumerate(L)` = `for i in range(len(L))` with `v` = the value `L[i]` had when the iteration
      started (the body may assign `L[i]`, nothing else of `L`); `X = []` + `for v in IT: X.append(E)` (or `X += [E]`,
      `X = X + [E]`) = `X = [E for v in IT]`; `R = <fresh list>` + `for v in IT: R = R + F(v)` (or `R += F(v)`,
      `R.extend(F(v))`) = `R = <fresh list> + [l for v in IT for l in F(v)]`  (E, F pure, IT not written in the body).
  N8  one level of helper inlining: `self._name(args)`, a module-level `_name(args)` or a nested `def`, whose body is
      straight-line code with conditionals and returns (this same fragment) and that calls no further helper; arguments
      are substituted for parameters.
  N10 a loop over a LITERAL tuple / list of constants (or of tuples of constants), directly, through `enumerate`, or through a
      local bound once to such a literal, is unrolled: the loop variables are replaced by the constants, comparisons between
      constants and and/or/not of constants are folded in tests, `if <test>: continue` + rest = `if not <test>: rest`
      (no `break`, no `else`, the body does not re-bind the loop variables or mention the literal's name).
  N9  comprehension variables are renamed apart before anything is substituted (no capture); keyword arguments are compared
      by name, not by position.

PURE expressions: names, constants, attribute reads, subscripts, comparisons, not/and/or, conditional expressions, list and
tuple displays, `+` / `*` of pure operands, comprehensions of pure parts, and calls of the functions / methods in
PURE_CALLS (`len`, `str`, `type`, `any`, `all`, `range`, `enumerate`, `.to_list`, `.is_unity`, `.lower`, `.startswith`,
`.isdigit`, `.as_two_terms`, `is_float`, `check_operators`, `DecoratedNode` (constructs a fresh node and writes nothing
else), …): deterministic, no write to anything the function can read.  Any other call, statement or target is an ExtractError.

Raising: substitution may change WHICH sub-expression raises first, never WHETHER one does, because no evaluation is dropped
or added on any path — `Exec` records every right-hand side and every merged test; `check_kept` demands that each is
either TOTAL (names, constants, the attributes `__init__` always sets — passed in by the caller —, `basis_functions[0..2]`,
displays / is / == / in / not / and / or of total operands) or certainly evaluated again (same expression, same path
condition) in the result.  Lifting (N4) only moves a test to an earlier point of a path on which it is evaluated anyway.
ESR catches `Exception` around each parse variant and the model has one `none` for "raises", so the identity of the
exception is not observable.
"""
import ast, copy
from extract import ExtractError


# ----------------------------------------------------------------------------------------------------------------
# keys, copies, small predicates
# ----------------------------------------------------------------------------------------------------------------

def key(n):
    """structural identity of an AST (positions and load/store context ignored; keyword arguments by name)"""
    if isinstance(n, ast.AST):
        if isinstance(n, ast.Call):
            kws = sorted(((k.arg or "**"), key(k.value)) for k in n.keywords)
            return "Call(%s;%s;%s)" % (key(n.func), ",".join(key(a) for a in n.args), ",".join("%s=%s" % kv for kv in kws))
        parts = []
        for f in n._fields:
            if f in ("ctx", "type_comment", "kind"):
                continue
            parts.append(key(getattr(n, f, None)))
        return "%s(%s)" % (n.__class__.__name__, ";".join(parts))
    if isinstance(n, list):
        return "[" + ",".join(key(x) for x in n) + "]"
    return "%s:%r" % (type(n).__name__, n)


def cp(n):
    return copy.deepcopy(n)


def E(src):
    """expression AST of a source text"""
    return ast.parse(src, mode="eval").body


def S(src):
    """statement list of a source text"""
    return ast.parse(src).body


def src(n):
    if isinstance(n, list):
        return " | ".join(src(x) for x in n)
    try:
        return ast.unparse(n).replace("\n", " ")
    except Exception:
        return repr(n)


def strip_doc(body):
    body = list(body)
    if body and isinstance(body[0], ast.Expr) and isinstance(body[0].value, ast.Constant) and isinstance(body[0].value.value, str):
        body = body[1:]
    return body


NEG_CMP = {ast.Eq: ast.NotEq, ast.NotEq: ast.Eq, ast.Is: ast.IsNot, ast.IsNot: ast.Is, ast.In: ast.NotIn, ast.NotIn: ast.In}
NEGATIVE_OPS = (ast.NotEq, ast.IsNot, ast.NotIn)


# ----------------------------------------------------------------------------------------------------------------
# expression normal form (N5, N6)
# ----------------------------------------------------------------------------------------------------------------

def _flatten(op, values):
    out = []
    for v in values:
        if isinstance(v, ast.BoolOp) and isinstance(v.op, type(op)):
            out.extend(v.values)
        else:
            out.append(v)
    return out


def _membership(e):
    """`x == a or x == b` = `x in [a, b]`, `x != a and x != b` = `x not in [a, b]` for one pure `x` and str / int literals
    (truth value only: `in` compares with `==` after an identity test, which agrees with `==` for these literals)"""
    want = ast.Eq if isinstance(e.op, ast.Or) else ast.NotEq
    if len(e.values) < 2:
        return e
    left = None
    consts = []
    for v in e.values:
        if not (isinstance(v, ast.Compare) and len(v.ops) == 1 and isinstance(v.ops[0], want) and isinstance(v.comparators[0], ast.Constant)
                and type(v.comparators[0].value) in (str, int) and is_pure(v.left)):
            return e
        if left is None:
            left = v.left
        elif key(left) != key(v.left):
            return e
        consts.append(v.comparators[0])
    return ast.Compare(left=left, ops=[ast.In() if want is ast.Eq else ast.NotIn()], comparators=[ast.List(elts=consts, ctx=ast.Load())])


def nnf(e, neg=False):
    """negation normal form of an expression used for its truth value"""
    if isinstance(e, ast.UnaryOp) and isinstance(e.op, ast.Not):
        return nnf(e.operand, not neg)
    if isinstance(e, ast.BoolOp):
        op = e.op
        if neg:
            op = ast.Or() if isinstance(op, ast.And) else ast.And()
        vals = _flatten(op, [nnf(v, neg) for v in e.values])
        return _membership(ast.BoolOp(op=op, values=vals))
    if isinstance(e, ast.Compare) and len(e.ops) == 1 and neg and type(e.ops[0]) in NEG_CMP:
        return ast.Compare(left=e.left, ops=[NEG_CMP[type(e.ops[0])]()], comparators=e.comparators)
    if isinstance(e, ast.IfExp):
        # truth value of a conditional expression: the test is itself a truth value
        e = ast.IfExp(test=nnf(e.test), body=e.body, orelse=e.orelse)
    return ast.UnaryOp(op=ast.Not(), operand=e) if neg else e


class _Norm(ast.NodeTransformer):
    """N6 everywhere, N5 in the boolean positions"""

    def visit_Call(self, n):
        self.generic_visit(n)
        if (isinstance(n.func, ast.Name) and n.func.id == "str" and len(n.args) == 1 and not n.keywords
                and isinstance(n.args[0], ast.Constant) and type(n.args[0].value) is int):
            return ast.Constant(value=str(n.args[0].value))
        return n

    def visit_Compare(self, n):
        self.generic_visit(n)
        if len(n.ops) == 1 and isinstance(n.ops[0], (ast.In, ast.NotIn)) and isinstance(n.comparators[0], ast.Tuple):
            n.comparators = [ast.List(elts=n.comparators[0].elts, ctx=ast.Load())]
        return n

    def visit_BoolOp(self, n):
        self.generic_visit(n)
        n.values = _flatten(n.op, n.values)
        return n

    def visit_IfExp(self, n):
        self.generic_visit(n)
        n.test = nnf(n.test)
        return n

    def visit_comprehension(self, n):
        self.generic_visit(n)
        n.ifs = [nnf(t) for t in n.ifs]
        return n

    def visit_If(self, n):
        self.generic_visit(n)
        n.test = nnf(n.test)
        return n

    def visit_Assert(self, n):
        self.generic_visit(n)
        n.test = nnf(n.test)
        return n


def norm(e, boolean=False):
    e = _Norm().visit(cp(e))
    return nnf(e) if boolean else e


def norm_stmts(stmts):
    """N5/N6 on every expression of a statement list (tests of if / assert / conditional expressions / comprehensions)"""
    return [_Norm().visit(cp(s)) for s in stmts]


# ----------------------------------------------------------------------------------------------------------------
# pattern matching
# ----------------------------------------------------------------------------------------------------------------

class Bind(dict):
    pass


def _mv(name):
    for p in ("V_", "S_", "I_", "B_", "C_", "E_", "LS_", "T_"):
        if name.startswith(p):
            return p
    return None


def _is_numconst(n):
    """a literal number, or a quotient / negation of literal numbers (`1/2`, `-1`)"""
    if isinstance(n, ast.Constant):
        return type(n.value) in (int, float)
    if isinstance(n, ast.UnaryOp) and isinstance(n.op, (ast.USub, ast.UAdd)):
        return _is_numconst(n.operand)
    if isinstance(n, ast.BinOp) and isinstance(n.op, ast.Div):
        return _is_numconst(n.left) and _is_numconst(n.right)
    return False


def match(pat, node, b=None):
    """-> Bind or None.  Metavariables of the pattern (identifiers):  V_x a local name (distinct metavariables bind distinct
    names, none of them a name the pattern mentions literally);  S_x a string literal;  I_x an int literal;  B_x True/False;
    C_x a numeric constant expression;  E_x any expression;  LS_x a list display of string literals;  attribute T_x: any
    attribute name.  A metavariable that occurs twice must bind the same thing."""
    b = Bind() if b is None else b
    concrete = set()
    for p in (pat if isinstance(pat, list) else [pat]):
        for n in ast.walk(p):
            if isinstance(n, ast.Name) and _mv(n.id) is None:
                concrete.add(n.id)
    ok = _match(pat, node, b)
    if not ok:
        return None
    vs = [v for k, v in b.items() if k.startswith("V_")]
    if len(set(vs)) != len(vs) or any(v in concrete for v in vs):
        return None
    return b


def _bind(b, name, value, k):
    if name in b:
        return b["#" + name] == k
    b[name] = value
    b["#" + name] = k
    return True


def _match(p, n, b):
    if isinstance(p, list):
        if not isinstance(n, list) or len(p) != len(n):
            return False
        return all(_match(x, y, b) for x, y in zip(p, n))
    if not isinstance(p, ast.AST):
        return type(p) is type(n) and p == n
    if isinstance(p, ast.Name):
        kind = _mv(p.id)
        if kind == "V_":
            return isinstance(n, ast.Name) and _bind(b, p.id, n.id, n.id)
        if kind == "S_":
            return isinstance(n, ast.Constant) and type(n.value) is str and _bind(b, p.id, n.value, repr(n.value))
        if kind == "I_":
            return isinstance(n, ast.Constant) and type(n.value) is int and _bind(b, p.id, n.value, repr(n.value))
        if kind == "B_":
            return isinstance(n, ast.Constant) and type(n.value) is bool and _bind(b, p.id, n.value, repr(n.value))
        if kind == "C_":
            return isinstance(n, ast.AST) and _is_numconst(n) and _bind(b, p.id, n, key(n))
        if kind == "E_":
            return isinstance(n, ast.expr) and _bind(b, p.id, n, key(n))
        if kind == "LS_":
            if isinstance(n, (ast.List, ast.Tuple)) and all(isinstance(e, ast.Constant) and type(e.value) is str for e in n.elts):
                return _bind(b, p.id, [e.value for e in n.elts], key(n))
            return False
    if isinstance(p, ast.arg) and _mv(p.arg) == "V_":
        return isinstance(n, ast.arg) and _bind(b, p.arg, n.arg, n.arg)
    if type(p) is not type(n):
        return False
    if isinstance(p, ast.Attribute) and _mv(p.attr) == "T_":
        return _bind(b, p.attr, n.attr, n.attr) and _match(p.value, n.value, b)
    if isinstance(p, ast.Call):
        if not (_match(p.func, n.func, b) and _match(p.args, n.args, b)) or len(p.keywords) != len(n.keywords):
            return False
        pk = sorted(p.keywords, key=lambda k: k.arg or "")
        nk = sorted(n.keywords, key=lambda k: k.arg or "")
        return all(x.arg == y.arg and _match(x.value, y.value, b) for x, y in zip(pk, nk))
    if isinstance(p, ast.Constant):
        return type(p.value) is type(n.value) and p.value == n.value
    for f in p._fields:
        if f in ("ctx", "type_comment", "kind"):
            continue
        if not _match(getattr(p, f, None), getattr(n, f, None), b):
            return False
    return True


def match_any(pats, node, b=None):
    """first pattern of the list that matches (each tried on a copy of the bindings)"""
    for p in pats:
        bb = Bind(b) if b is not None else None
        r = match(p, node, bb)
        if r is not None:
            return r
    return None


# ----------------------------------------------------------------------------------------------------------------
# purity / totality / certain evaluation
# ----------------------------------------------------------------------------------------------------------------

PURE_FUNCS = {"len", "str", "type", "any", "all", "range", "enumerate", "int", "float", "is_float", "generator.is_float",
              "check_operators", "DecoratedNode", "np.full", "zip", "sorted", "list", "tuple"}
PURE_METHODS = {"to_list", "is_unity", "lower", "startswith", "isdigit", "as_two_terms", "count_nodes", "get_lineage", "upper", "strip"}
# calls known to return a tuple of exactly this many items (tuple unpacking = indexing)
UNPACK = {"as_two_terms": 2, "string_to_node": 3, "check_tree": 3}


def _call_name(n):
    f = n.func
    if isinstance(f, ast.Name):
        return f.id
    if isinstance(f, ast.Attribute):
        try:
            return ast.unparse(f)
        except Exception:
            return None
    return None


def is_pure(e, helpers=()):
    for n in ast.walk(e):
        if isinstance(n, ast.Call):
            nm = _call_name(n)
            if nm in PURE_FUNCS or nm in helpers:
                continue
            if isinstance(n.func, ast.Attribute) and (n.func.attr in PURE_METHODS or ("self." + n.func.attr) in helpers):
                continue
            return False
        if isinstance(n, (ast.Lambda, ast.Await, ast.Yield, ast.YieldFrom, ast.NamedExpr, ast.Starred)):
            return False
    return True


_FLAT_BASIS = E("[V_b for V_c in basis_functions for V_b in V_c]")


def is_total(e, total_attrs=()):
    """cannot raise, whatever the state (see the module docstring)"""
    if isinstance(e, (ast.Constant, ast.Name)):
        return True
    if _is_numconst(e):
        try:                              # `1/2`, `-1`: arithmetic on literals (no division by zero)
            eval(compile(ast.fix_missing_locations(ast.Expression(body=cp(e))), "<const>", "eval"), {"__builtins__": {}})
            return True
        except Exception:
            return False
    if isinstance(e, ast.Attribute):
        return isinstance(e.value, ast.Name) and e.value.id == "self" and e.attr in total_attrs
    if isinstance(e, ast.Subscript):
        return (isinstance(e.value, ast.Name) and e.value.id == "basis_functions" and isinstance(e.slice, ast.Constant)
                and e.slice.value in (0, 1, 2))
    if isinstance(e, (ast.List, ast.Tuple)):
        return all(is_total(x, total_attrs) for x in e.elts)
    if isinstance(e, ast.ListComp) and match(_FLAT_BASIS, e) is not None:
        return True                       # a basis is a list of three lists (precondition of every function read here)
    if isinstance(e, ast.BinOp) and isinstance(e.op, ast.Add):
        return all(isinstance(x, (ast.Subscript, ast.BinOp)) and is_total(x, total_attrs) for x in (e.left, e.right))
    if isinstance(e, ast.UnaryOp) and isinstance(e.op, ast.Not):
        return is_total(e.operand, total_attrs)
    if isinstance(e, ast.BoolOp):
        return all(is_total(x, total_attrs) for x in e.values)
    if isinstance(e, ast.IfExp):
        return all(is_total(x, total_attrs) for x in (e.test, e.body, e.orelse))
    if isinstance(e, ast.Compare):
        return (all(isinstance(o, (ast.Is, ast.IsNot, ast.Eq, ast.NotEq, ast.In, ast.NotIn)) for o in e.ops)
                and all(is_total(x, total_attrs) for x in [e.left] + e.comparators)
                and all(not isinstance(o, (ast.In, ast.NotIn)) or isinstance(c, (ast.List, ast.Tuple)) or is_total(c, total_attrs)
                        for o, c in zip(e.ops, e.comparators)))
    return False


def certain(e, guard=(), out=None):
    """keys of the sub-expressions evaluated whenever `e` is evaluated to completion, given the truth of the tests in
    `guard` ((key, bool) pairs)"""
    out = set() if out is None else out
    g = dict(guard)
    out.add(key(e))
    if isinstance(e, ast.BoolOp):
        certain(e.values[0], guard, out)
        return out
    if isinstance(e, ast.IfExp):
        certain(e.test, guard, out)
        k = key(e.test)
        if k in g:
            certain(e.body if g[k] else e.orelse, guard, out)
        return out
    if isinstance(e, (ast.ListComp, ast.SetComp, ast.GeneratorExp, ast.DictComp)):
        certain(e.generators[0].iter, guard, out)
        return out
    if isinstance(e, ast.Lambda):
        return out
    for c in ast.iter_child_nodes(e):
        if isinstance(c, ast.expr):
            certain(c, guard, out)
        elif isinstance(c, ast.keyword):
            certain(c.value, guard, out)
    return out


def certain_truth(t, val, guard=(), out=None):
    """… when the test `t` was evaluated and came out `val`"""
    out = set() if out is None else out
    if isinstance(t, ast.UnaryOp) and isinstance(t.op, ast.Not):
        out.add(key(t))
        return certain_truth(t.operand, not val, guard, out)
    if isinstance(t, ast.BoolOp) and ((isinstance(t.op, ast.And) and val) or (isinstance(t.op, ast.Or) and not val)):
        out.add(key(t))
        for v in t.values:
            certain_truth(v, val, guard, out)
        return out
    return certain(t, guard, out)


# ----------------------------------------------------------------------------------------------------------------
# symbolic execution (N1-N4, N7, N8)
# ----------------------------------------------------------------------------------------------------------------

class Ret(object):
    def __init__(self, value, ev):
        self.value, self.ev = value, ev


class Fall(object):
    def __init__(self, env, ev):
        self.env, self.ev = env, ev


class Br(object):
    def __init__(self, test, a, b):
        self.test, self.a, self.b = test, a, b


UNDEF = ast.Name(id="__undefined__", ctx=ast.Load())


def cell_key(t):
    """key of an assignable cell: local name, self.<attr>, <name>[<name or constant>]"""
    if isinstance(t, ast.Name):
        return t.id
    if isinstance(t, ast.Attribute) and isinstance(t.value, ast.Name) and t.value.id == "self":
        return "self." + t.attr
    if isinstance(t, ast.Subscript) and isinstance(t.value, ast.Name) and isinstance(t.slice, (ast.Name, ast.Constant)):
        return "%s[%s]" % (t.value.id, t.slice.id if isinstance(t.slice, ast.Name) else repr(t.slice.value))
    return None


class _Rename(ast.NodeTransformer):
    def __init__(self, m):
        self.m = m

    def visit_Name(self, n):
        if n.id in self.m:
            return ast.Name(id=self.m[n.id], ctx=n.ctx)
        return n


def rename_comprehension_vars(node, counter=None):
    """N9: every comprehension gets fresh variable names `_cv<k>` (in place on a copy)"""
    node = cp(node)
    counter = counter if counter is not None else [0]

    def go(n):
        for c in ast.iter_child_nodes(n):
            go(c)
        if isinstance(n, (ast.ListComp, ast.SetComp, ast.GeneratorExp, ast.DictComp)):
            m = {}
            for g in n.generators:
                for t in ast.walk(g.target):
                    if isinstance(t, ast.Name) and t.id not in m:
                        m[t.id] = "_cv%d" % counter[0]
                        counter[0] += 1
            r = _Rename(m)
            # the first iterable is evaluated in the enclosing scope
            first = n.generators[0].iter
            for f in n._fields:
                v = getattr(n, f)
                if isinstance(v, list):
                    setattr(n, f, [r.visit(x) for x in v])
                elif isinstance(v, ast.AST):
                    setattr(n, f, r.visit(v))
            n.generators[0].iter = first
    go(node)
    return node


class Exec(object):
    """symbolic execution of a statement list in the fragment described in the module docstring"""

    def __init__(self, helpers=None, where="?"):
        self.helpers = helpers or {}        # call name ('self._x' / '_x') -> FunctionDef
        self.where = where
        self.depth = 0

    # -- substitution ----------------------------------------------------------------------------------------
    def subst(self, e, env):
        ex = self

        class Sub(ast.NodeTransformer):
            def visit(self, n):
                if isinstance(n, ast.expr) and not getattr(n, "_old", False):
                    k = cell_key(n)
                    if k is not None and k in env:
                        v = env[k]
                        if v is UNDEF:
                            raise ExtractError("%s: `%s` may be unassigned where it is read" % (ex.where, k))
                        return cp(v)
                    if isinstance(n, ast.Name) and isinstance(n.ctx, ast.Load):
                        # reading a whole list some of whose cells are symbolic is not in the fragment
                        if any(kk.startswith(n.id + "[") for kk in env):
                            raise ExtractError("%s: `%s` is read as a whole after one of its items was assigned" % (ex.where, n.id))
                return super().visit(n)

            def visit_Subscript(self, n):
                # <name>[<other index>] of a list with symbolic cells: only the same cell may be read back
                if isinstance(n.value, ast.Name) and any(kk.startswith(n.value.id + "[") for kk in env) and cell_key(n) not in env:
                    if not getattr(n, "_old", False):
                        raise ExtractError("%s: `%s` is read after another item of the list was assigned" % (ex.where, src(n)))
                    return n
                return self.generic_visit(n)

            def visit_Call(self, n):
                n = self.generic_visit(n)
                return ex.inline(n, env)
        return Sub().visit(cp(e))

    # -- N8 --------------------------------------------------------------------------------------------------
    def inline(self, call, env):
        nm = _call_name(call)
        if nm not in self.helpers:
            return call
        if self.depth >= 1:
            raise ExtractError("%s: helper `%s` calls a further helper (only one level is inlined)" % (self.where, nm))
        fn = self.helpers[nm]
        a = fn.args
        params = [x.arg for x in a.args]
        if nm.startswith("self."):
            params = params[1:]
        if (a.vararg or a.kwarg or a.kwonlyargs or a.posonlyargs or a.defaults or call.keywords or len(call.args) != len(params)
                or fn.decorator_list):
            raise ExtractError("%s: helper `%s` cannot be inlined (signature / call shape)" % (self.where, nm))
        sub = Exec(self.helpers, self.where + " helper " + nm)
        sub.depth = self.depth + 1
        env2 = {k: v for k, v in env.items() if k.startswith("self.")} if nm.startswith("self.") else {}
        env2.update({p: arg for p, arg in zip(params, call.args)})
        self._helper_calls = getattr(self, "_helper_calls", 0) + 1
        body = strip_doc(rename_comprehension_vars(ast.Module(body=fn.body, type_ignores=[]), [100000 * self._helper_calls]).body)
        out = sub.block(body, env2, [("arg", x, ()) for x in call.args])
        out = finish(out)
        return tree_to_ifexp(out, self.where + " helper " + nm, self._evs)

    # -- statements ------------------------------------------------------------------------------------------
    def block(self, stmts, env, ev=None):
        env = dict(env)
        ev = list(ev or [])
        self._evs = ev
        for k, st in enumerate(stmts):
            if isinstance(st, ast.Pass) or (isinstance(st, ast.Expr) and isinstance(st.value, ast.Constant)):
                continue
            if isinstance(st, ast.Assign):
                self._evs = ev
                self.assign(st.targets, st.value, env, ev)
                continue
            if isinstance(st, ast.AugAssign):
                self._evs = ev
                self.augassign(st, env, ev)
                continue
            if isinstance(st, ast.Expr) and isinstance(st.value, ast.Call):
                self._evs = ev
                self.method_stmt(st.value, env, ev)
                continue
            if isinstance(st, ast.Return):
                self._evs = ev
                v = ast.Constant(value=None) if st.value is None else self.value(st.value, env)
                return Ret(v, ev)
            if isinstance(st, ast.If):
                self._evs = ev
                t = norm(self.subst(st.test, env), boolean=True)
                self.need_pure(t)
                a = self.block(st.body, env, [])
                b = self.block(st.orelse, env, [])
                rest = stmts[k + 1:]
                if isinstance(a, Fall) and isinstance(b, Fall):
                    env, ev2 = phi(t, a, b, self.where)
                    ev = ev + [("test", t, ())] + ev2
                    continue
                tk = key(t)
                a = self.then(a, rest, [(tk, True)])
                b = self.then(b, rest, [(tk, False)])
                return prefix_ev(Br(t, a, b), ev)
            if isinstance(st, ast.For):
                self._evs = ev
                self.loop(st, env, ev)
                continue
            raise ExtractError("%s: statement `%s` is outside the fragment the translator reads" % (self.where, src(st)[:120]))
        return Fall(env, ev)

    def then(self, out, rest, g):
        """continue every fall-through leaf of `out` with the statements `rest`"""
        if isinstance(out, Ret):
            return out
        if isinstance(out, Fall):
            return self.block(rest, out.env, out.ev)
        return Br(out.test, self.then(out.a, rest, g), self.then(out.b, rest, g))

    def need_pure(self, e):
        if not is_pure(e, self.helpers):
            raise ExtractError("%s: `%s` calls something the translator does not know to be pure" % (self.where, src(e)[:120]))

    def value(self, e, env):
        v = norm(self.subst(e, env))
        self.need_pure(v)
        return v

    def assign(self, targets, value, env, ev):
        # tuple target
        if len(targets) == 1 and isinstance(targets[0], (ast.Tuple, ast.List)):
            names = targets[0].elts
            if isinstance(value, (ast.Tuple, ast.List)) and len(value.elts) == len(names):
                vals = [self.value(x, env) for x in value.elts]
            else:
                v = self.value(value, env)
                nm = v.func.attr if isinstance(v, ast.Call) and isinstance(v.func, ast.Attribute) else (_call_name(v) if isinstance(v, ast.Call) else None)
                if nm is not None and "." in nm:
                    nm = nm.split(".")[-1]
                if UNPACK.get(nm) != len(names):
                    raise ExtractError("%s: tuple unpacking of `%s` (not known to return exactly %d items)" % (self.where, src(v)[:80], len(names)))
                vals = [ast.Subscript(value=cp(v), slice=ast.Constant(value=i), ctx=ast.Load()) for i in range(len(names))]
                ev.append(("rhs", v, ()))
            for t, v in zip(names, vals):
                self.store(t, v, env, ev)
            return
        v = self.value(value, env)
        if len(targets) > 1 and not shares_safely(v):
            raise ExtractError("%s: chained assignment of `%s` (the targets would share one new object)" % (self.where, src(v)[:80]))
        for t in targets:
            self.store(t, cp(v), env, ev)

    def store(self, t, v, env, ev):
        k = cell_key(t)
        if k is None:
            raise ExtractError("%s: assignment target `%s` is outside the fragment" % (self.where, src(t)))
        if isinstance(t, ast.Subscript) and isinstance(t.slice, ast.Name) and t.slice.id in env:
            raise ExtractError("%s: index of `%s` is itself a substituted local" % (self.where, src(t)))
        if isinstance(t, ast.Subscript) and t.value.id in env:
            raise ExtractError("%s: item assignment `%s` to a local that stands for an expression" % (self.where, src(t)))
        if isinstance(t, ast.Name):
            # a local that is re-bound invalidates cells indexed by it
            for kk in list(env):
                if kk.endswith("[%s]" % t.id):
                    raise ExtractError("%s: `%s` re-bound while `%s` is symbolic" % (self.where, t.id, kk))
        ev.append(("rhs", v, ()))
        env[k] = v

    def augassign(self, st, env, ev):
        k = cell_key(st.target)
        if not (isinstance(st.op, ast.Add) and k in env and is_fresh_list(env[k])):
            raise ExtractError("%s: `%s` (augmented assignment other than `+=` on a freshly built local list)" % (self.where, src(st)))
        v = self.value(st.value, env)
        env[k] = ast.BinOp(left=env[k], op=ast.Add(), right=v)
        ev.append(("rhs", v, ()))

    def method_stmt(self, call, env, ev):
        f = call.func
        if isinstance(f, ast.Attribute) and f.attr in ("append", "extend") and len(call.args) == 1 and not call.keywords:
            k = cell_key(f.value)
            if k in env and is_fresh_list(env[k]):
                v = self.value(call.args[0], env)
                add = ast.List(elts=[v], ctx=ast.Load()) if f.attr == "append" else v
                if isinstance(env[k], ast.List) and f.attr == "append":
                    env[k] = ast.List(elts=list(env[k].elts) + [v], ctx=ast.Load())
                else:
                    env[k] = ast.BinOp(left=env[k], op=ast.Add(), right=add)
                ev.append(("rhs", v, ()))
                return
        raise ExtractError("%s: call statement `%s` is outside the fragment" % (self.where, src(call)[:120]))

    # -- N7 --------------------------------------------------------------------------------------------------
    def loop(self, st, env, ev):
        """`X = []; for v in IT: X.append(E)` and `R = <fresh>; for v in IT: R = R + F(v)`"""
        if st.orelse or not isinstance(st.target, ast.Name) or len(st.body) != 1:
            raise ExtractError("%s: loop `%s` is outside the fragment" % (self.where, src(st)[:120]))
        it = self.value(st.iter, env)
        v = st.target.id
        fresh = "_cv_loop%d" % id(st)
        b = st.body[0]
        inner = {kk: vv for kk, vv in env.items()}
        inner[v] = ast.Name(id=fresh, ctx=ast.Load())
        acc = None
        item = None          # appended element
        part = None          # concatenated list
        if isinstance(b, ast.Expr) and isinstance(b.value, ast.Call) and isinstance(b.value.func, ast.Attribute) \
                and b.value.func.attr in ("append", "extend") and len(b.value.args) == 1 and not b.value.keywords:
            acc = cell_key(b.value.func.value)
            if b.value.func.attr == "append":
                item = b.value.args[0]
            else:
                part = b.value.args[0]
        elif isinstance(b, ast.AugAssign) and isinstance(b.op, ast.Add):
            acc = cell_key(b.target)
            part = b.value
        elif isinstance(b, ast.Assign) and len(b.targets) == 1 and isinstance(b.value, ast.BinOp) and isinstance(b.value.op, ast.Add) \
                and cell_key(b.targets[0]) is not None and key(b.value.left) == key(b.targets[0]):
            acc = cell_key(b.targets[0])
            part = b.value.right
        if acc is None or acc not in env or not is_fresh_list(env[acc]) or acc == v:
            raise ExtractError("%s: loop `%s` is not an accumulation into a freshly built list" % (self.where, src(st)[:120]))
        if part is not None and isinstance(part, ast.List) and len(part.elts) == 1:
            item, part = part.elts[0], None
        body_env = {kk: vv for kk, vv in inner.items() if kk != acc}
        body_env[acc] = UNDEF                                        # the element may not read the accumulator
        if item is not None:
            e1 = self.value(item, body_env)
            comp = ast.ListComp(elt=e1, generators=[ast.comprehension(target=ast.Name(id=fresh, ctx=ast.Store()), iter=it, ifs=[], is_async=0)])
        else:
            e1 = self.value(part, body_env)
            f2 = fresh + "b"
            comp = ast.ListComp(elt=ast.Name(id=f2, ctx=ast.Load()),
                                generators=[ast.comprehension(target=ast.Name(id=fresh, ctx=ast.Store()), iter=it, ifs=[], is_async=0),
                                            ast.comprehension(target=ast.Name(id=f2, ctx=ast.Store()), iter=e1, ifs=[], is_async=0)])
        if any(isinstance(n, ast.Name) and n.id == acc for n in ast.walk(it)):
            raise ExtractError("%s: loop `%s` iterates over its own accumulator" % (self.where, src(st)[:120]))
        cur = env[acc]
        if isinstance(cur, ast.List) and not cur.elts:
            env[acc] = comp
        else:
            env[acc] = ast.BinOp(left=cur, op=ast.Add(), right=comp)
        ev.append(("rhs", it, ()))
        env.pop(v, None)
        env[v] = UNDEF                                               # the loop variable after the loop is not in the fragment


def shares_safely(e):
    """`a = b = e` may be read as `a = e; b = e`: e is pure and does not build a new mutable object"""
    for n in ast.walk(e):
        if isinstance(n, (ast.List, ast.Dict, ast.Set, ast.ListComp, ast.DictComp, ast.SetComp, ast.GeneratorExp)):
            return False
        if isinstance(n, ast.Call):
            if not (isinstance(n.func, ast.Attribute) and n.func.attr in ("lower", "upper", "strip", "startswith", "isdigit")) \
                    and not (isinstance(n.func, ast.Name) and n.func.id in ("str", "len", "int", "float")):
                return False
        if isinstance(n, ast.BinOp) and not isinstance(n.op, (ast.Add, ast.Mod)):
            return False
    return True


def is_fresh_list(e):
    """an expression that builds a new list nobody else holds"""
    if isinstance(e, (ast.List, ast.ListComp)):
        return True
    if isinstance(e, ast.BinOp) and isinstance(e.op, ast.Add):
        return is_fresh_list(e.left) or is_fresh_list(e.right)
    if isinstance(e, ast.BinOp) and isinstance(e.op, ast.Mult):
        return isinstance(e.left, ast.List) or isinstance(e.right, ast.List)
    return False


def prefix_ev(out, ev):
    if not ev:
        return out
    if isinstance(out, Ret):
        return Ret(out.value, ev + out.ev)
    if isinstance(out, Fall):
        return Fall(out.env, ev + out.ev)
    return Br(out.test, prefix_ev(out.a, ev), prefix_ev(out.b, ev))


def _guarded(ev, g):
    return [(kind, e, tuple(g) + tuple(gg)) for kind, e, gg in ev]


def phi(t, a, b, where):
    """merge of two fall-through arms: cell -> `x if t else y`"""
    env = {}
    tk = key(t)
    swap = False
    tt = t
    if isinstance(t, ast.UnaryOp) and isinstance(t.op, ast.Not):
        tt, swap = t.operand, True
    elif isinstance(t, ast.Compare) and len(t.ops) == 1 and isinstance(t.ops[0], NEGATIVE_OPS):
        tt, swap = ast.Compare(left=t.left, ops=[NEG_CMP[type(t.ops[0])]()], comparators=t.comparators), True
    for k in sorted(set(a.env) | set(b.env)):
        va, vb = a.env.get(k), b.env.get(k)
        if (va is None or vb is None) and "[" in k:
            old = E(k)
            old._old = True              # the value the item had before the `if`
            va = old if va is None else va
            vb = old if vb is None else vb
        if va is None or vb is None:
            if "." in k:
                raise ExtractError("%s: `%s` is assigned on one arm of `if %s` only" % (where, k, src(t)[:80]))
            env[k] = UNDEF
        elif va is UNDEF or vb is UNDEF:
            env[k] = UNDEF
        elif key(va) == key(vb):
            env[k] = va
        elif swap:
            env[k] = ast.IfExp(test=cp(tt), body=vb, orelse=va)
        else:
            env[k] = ast.IfExp(test=cp(t), body=va, orelse=vb)
    ga, gb = [(tk, True)], [(tk, False)]
    if swap:
        ga.append((key(tt), False))
        gb.append((key(tt), True))
    return env, _guarded(a.ev, ga) + _guarded(b.ev, gb)


def finish(out):
    """falling off the end of a function = `return None`"""
    if isinstance(out, Fall):
        return Ret(ast.Constant(value=None), out.ev)
    if isinstance(out, Ret):
        return out
    return Br(out.test, finish(out.a), finish(out.b))


def tree_to_ifexp(out, where, ev_sink):
    """a decision tree of returns as one conditional expression (helper inlining)"""
    if isinstance(out, Ret):
        ev_sink.extend(out.ev)
        return out.value
    if isinstance(out, Fall):
        raise ExtractError("%s: helper does not return on every path" % where)
    a_ev, b_ev = [], []
    a = tree_to_ifexp(out.a, where, a_ev)
    b = tree_to_ifexp(out.b, where, b_ev)
    tk = key(out.test)
    ev_sink.extend(_guarded(a_ev, [(tk, True)]) + _guarded(b_ev, [(tk, False)]))
    return ast.IfExp(test=out.test, body=a, orelse=b)


# ----------------------------------------------------------------------------------------------------------------
# N4 lifting, guard inversion, the no-evaluation-dropped check, conversion to statements for matching
# ----------------------------------------------------------------------------------------------------------------

def _find_certain_ifexp(e):
    if isinstance(e, ast.IfExp):
        return e
    if isinstance(e, ast.BoolOp):
        return _find_certain_ifexp(e.values[0])
    if isinstance(e, (ast.ListComp, ast.SetComp, ast.GeneratorExp, ast.DictComp)):
        return _find_certain_ifexp(e.generators[0].iter)
    if isinstance(e, ast.Lambda):
        return None
    for c in ast.iter_child_nodes(e):
        if isinstance(c, ast.keyword):
            c = c.value
        if isinstance(c, ast.expr):
            r = _find_certain_ifexp(c)
            if r is not None:
                return r
    return None


def _replace(e, k, new):
    class R(ast.NodeTransformer):
        def visit(self, n):
            if isinstance(n, ast.expr) and key(n) == k:
                return cp(new)
            return super().visit(n)
    return R().visit(cp(e))


def lift(out):
    """N4 + guard inversion on a decision tree of returns"""
    if isinstance(out, Ret):
        ie = _find_certain_ifexp(out.value)
        if ie is None:
            return out
        k = key(ie)
        return lift(Br(nnf(cp(ie.test)), Ret(_replace(out.value, k, ie.body), out.ev), Ret(_replace(out.value, k, ie.orelse), out.ev)))
    if isinstance(out, Fall):
        return out
    t, a, b = out.test, lift(out.a), lift(out.b)
    if isinstance(t, ast.UnaryOp) and isinstance(t.op, ast.Not):
        return lift(Br(t.operand, out.b, out.a))
    if isinstance(t, ast.Compare) and len(t.ops) == 1 and isinstance(t.ops[0], NEGATIVE_OPS):
        return Br(ast.Compare(left=t.left, ops=[NEG_CMP[type(t.ops[0])]()], comparators=t.comparators), b, a)
    return Br(t, a, b)


def to_stmts(out):
    if isinstance(out, Ret):
        return [ast.Return(value=out.value)]
    if isinstance(out, Fall):
        return [ast.Pass()]
    return [ast.If(test=out.test, body=to_stmts(out.a), orelse=to_stmts(out.b))]


def chain_of(out):
    """[(test, subtree)] along the else arms, and the final else subtree"""
    ch = []
    while isinstance(out, Br):
        ch.append((out.test, out.a))
        out = out.b
    return ch, out


def check_kept(out, where, total_attrs=(), observable=None, path=()):
    """no evaluation dropped: every recorded right-hand side / merged test is total or certainly evaluated in the result
    of every path it lies on (tests of the path, the returned value, the observable cells of the final state)"""
    if isinstance(out, Br):
        check_kept(out.a, where, total_attrs, observable, path + ((out.test, True),))
        check_kept(out.b, where, total_attrs, observable, path + ((out.test, False),))
        return
    results = []
    if isinstance(out, Ret):
        results.append(out.value)
    else:
        for k, v in out.env.items():
            if v is not UNDEF and (observable(k) if observable else ("." in k or "[" in k)):
                results.append(v)
    on_path = {key(t): val for t, val in path}
    for kind, e, g in out.ev:
        if is_total(e, total_attrs):
            continue
        if any(k in on_path and on_path[k] != v for k, v in g):
            continue                      # evaluated under a condition that is false on this path
        guard = tuple(g) + tuple((key(t), val) for t, val in path)
        have = set()
        for t, val in path:
            certain_truth(t, val, guard, have)
        for r in results:
            certain(r, guard, have)
        need = set()
        _raising_parts(e, guard, need, total_attrs)
        missing = [k for k in need if k not in have]
        if missing:
            raise ExtractError("%s: `%s` is evaluated by the source but would not be evaluated by the normal form on some path "
                               "(it may raise there): not translated" % (where, src(e)[:100]))


def _raising_parts(e, guard, out, total_attrs):
    """keys of the certainly evaluated sub-expressions of e that can raise (attribute / subscript / call / arithmetic)"""
    g = dict(guard)
    if is_total(e, total_attrs):
        return
    if isinstance(e, (ast.Attribute, ast.Subscript, ast.Call, ast.BinOp)) or isinstance(e, (ast.ListComp, ast.GeneratorExp, ast.SetComp, ast.DictComp)):
        out.add(key(e))
        return
    if isinstance(e, ast.BoolOp):
        _raising_parts(e.values[0], guard, out, total_attrs)
        return
    if isinstance(e, ast.IfExp):
        _raising_parts(e.test, guard, out, total_attrs)
        k = key(e.test)
        if k in g:
            _raising_parts(e.body if g[k] else e.orelse, guard, out, total_attrs)
        return
    for c in ast.iter_child_nodes(e):
        if isinstance(c, ast.keyword):
            c = c.value
        if isinstance(c, ast.expr):
            _raising_parts(c, guard, out, total_attrs)


# ----------------------------------------------------------------------------------------------------------------
# loops over the items of a list that assign items (N7, first form)
# ----------------------------------------------------------------------------------------------------------------

def index_loop(st, where):
    """`for i in range(len(L))` / `for i, v in enumerate(L)` -> (i, L, initial environment of the body)"""
    if not isinstance(st, ast.For) or st.orelse:
        raise ExtractError("%s: expected a for loop" % where)
    it = st.iter
    if (isinstance(st.target, ast.Name) and isinstance(it, ast.Call) and _call_name(it) == "range" and len(it.args) == 1 and not it.keywords
            and isinstance(it.args[0], ast.Call) and _call_name(it.args[0]) == "len" and len(it.args[0].args) == 1
            and isinstance(it.args[0].args[0], ast.Name)):
        return st.target.id, it.args[0].args[0].id, {}
    if (isinstance(st.target, ast.Tuple) and len(st.target.elts) == 2 and all(isinstance(x, ast.Name) for x in st.target.elts)
            and isinstance(it, ast.Call) and _call_name(it) == "enumerate" and len(it.args) == 1 and not it.keywords
            and isinstance(it.args[0], ast.Name)):
        i, v, L = st.target.elts[0].id, st.target.elts[1].id, it.args[0].id
        if len({i, v, L}) != 3:
            raise ExtractError("%s: loop variables clash" % where)
        old = ast.Subscript(value=ast.Name(id=L, ctx=ast.Load()), slice=ast.Name(id=i, ctx=ast.Load()), ctx=ast.Load())
        old._old = True                  # the value the item had when the iteration started
        return i, L, {v: old}
    raise ExtractError("%s: loop header `%s` is neither range(len(L)) nor enumerate(L)" % (where, src(st.iter)[:80]))


def item_loop_body(st, where, helpers=None, allowed_lists=None):
    """symbolic run of the body of an index loop -> (i, L, final environment, exec result); the body may assign items `X[i]`
    of lists only (never the lists themselves, never the index)"""
    i, L, env0 = index_loop(st, where)
    for n in ast.walk(ast.Module(body=st.body, type_ignores=[])):
        if isinstance(n, (ast.For, ast.While, ast.Try, ast.With, ast.Delete, ast.Return, ast.Break, ast.Continue)):
            raise ExtractError("%s: `%s` inside the loop body is outside the fragment" % (where, n.__class__.__name__))
        if isinstance(n, ast.Name) and isinstance(n.ctx, ast.Store) and n.id in (i, L):
            raise ExtractError("%s: the loop body re-binds `%s`" % (where, n.id))
    ex = Exec(helpers, where)
    out = ex.block(st.body, env0)
    if not isinstance(out, Fall):
        raise ExtractError("%s: the loop body does not fall through" % where)
    for k in out.env:
        if "[" in k and not k.endswith("[%s]" % i):
            raise ExtractError("%s: the loop body assigns `%s` (only items at the loop index are in the fragment)" % (where, k))
        if "." in k:
            raise ExtractError("%s: the loop body assigns `%s`" % (where, k))
    return i, L, out.env, out


def ifexp_chain(e):
    """[(test, value)] of nested conditional expressions along the else side, and the final else value"""
    ch = []
    while isinstance(e, ast.IfExp):
        ch.append((e.test, e.body))
        e = e.orelse
    return ch, e


# ----------------------------------------------------------------------------------------------------------------
# N10: loops over a literal tuple of constants, unrolled
# ----------------------------------------------------------------------------------------------------------------

def _literal_rows(e):
    """literal tuple / list whose items are constants or tuples / lists of constants -> list of items (ASTs), else None"""
    if not isinstance(e, (ast.Tuple, ast.List)) or not e.elts:
        return None
    for x in e.elts:
        if isinstance(x, ast.Constant):
            continue
        if isinstance(x, (ast.Tuple, ast.List)) and all(isinstance(y, ast.Constant) for y in x.elts):
            continue
        return None
    return list(e.elts)


def _bind_target(t, v, out):
    if isinstance(t, ast.Name):
        if not isinstance(v, ast.Constant):
            return False
        out[t.id] = v
        return True
    if isinstance(t, (ast.Tuple, ast.List)) and isinstance(v, (ast.Tuple, ast.List)) and len(t.elts) == len(v.elts):
        return all(_bind_target(a, b, out) for a, b in zip(t.elts, v.elts))
    return False


class _ConstSubst(ast.NodeTransformer):
    def __init__(self, m):
        self.m = m

    def visit_Name(self, n):
        if n.id in self.m and isinstance(n.ctx, ast.Load):
            return cp(self.m[n.id])
        return n


def fold_test(t):
    """truth-value folding of a test: comparisons between constants, not/and/or with constant operands.  A constant operand
    is only dropped / absorbs when everything before it is itself constant (`0 == 0 and x` = `x`, `1 == 0 and x` = False);
    `x and False` is kept as written (x is still evaluated)."""
    if isinstance(t, ast.UnaryOp) and isinstance(t.op, ast.Not):
        x = fold_test(t.operand)
        if isinstance(x, ast.Constant):
            return ast.Constant(value=not x.value)
        return ast.UnaryOp(op=ast.Not(), operand=x)
    if isinstance(t, ast.BoolOp):
        is_and = isinstance(t.op, ast.And)
        vals = [fold_test(v) for v in t.values]
        # leading constants decide or disappear
        while vals and isinstance(vals[0], ast.Constant):
            if bool(vals[0].value) != is_and:
                return ast.Constant(value=not is_and)
            vals.pop(0)
        # a neutral constant elsewhere disappears too (truth value only)
        vals = [v for v in vals if not (isinstance(v, ast.Constant) and bool(v.value) == is_and)]
        if not vals:
            return ast.Constant(value=is_and)
        return vals[0] if len(vals) == 1 else ast.BoolOp(op=t.op, values=vals)
    if isinstance(t, ast.Compare) and len(t.ops) == 1 and isinstance(t.left, ast.Constant) and isinstance(t.comparators[0], ast.Constant):
        a, b, op = t.left.value, t.comparators[0].value, t.ops[0]
        if type(a) in (int, bool, str) and type(a) is type(b):
            table = {ast.Eq: a == b, ast.NotEq: a != b}
            if type(a) is int:
                table.update({ast.Lt: a < b, ast.LtE: a <= b, ast.Gt: a > b, ast.GtE: a >= b})
            if type(op) in table:
                return ast.Constant(value=table[type(op)])
    return t


def _fold_stmts(stmts):
    out = []
    for k, st in enumerate(stmts):
        if isinstance(st, ast.If):
            t = fold_test(nnf(st.test))
            body, orelse = _fold_stmts(st.body), _fold_stmts(st.orelse)
            if isinstance(t, ast.Constant):
                out.extend(body if t.value else orelse)
                continue
            if len(body) == 1 and isinstance(body[0], ast.Continue) and not orelse:
                rest = _fold_stmts(stmts[k + 1:])
                if rest:
                    out.append(ast.copy_location(ast.If(test=nnf(t, True), body=rest, orelse=[]), st))
                return out
            out.append(ast.copy_location(ast.If(test=t, body=body, orelse=orelse), st))
        else:
            out.append(st)
    return out


def unroll_literal_loops(stmts, where):
    """N10 on the top level of a statement list"""
    consts = {}
    uses = {}
    for st in stmts:
        for n in ast.walk(st):
            if isinstance(n, ast.Name):
                uses[n.id] = uses.get(n.id, 0) + 1
    out = []
    for st in stmts:
        if (isinstance(st, ast.Assign) and len(st.targets) == 1 and isinstance(st.targets[0], ast.Name) and _literal_rows(st.value) is not None
                and uses.get(st.targets[0].id, 0) == 2):
            consts[st.targets[0].id] = st.value          # bound once, read once (by the loop below)
            continue
        if not isinstance(st, ast.For):
            out.append(st)
            continue
        it, target = st.iter, st.target
        enum = False
        if isinstance(it, ast.Call) and _call_name(it) == "enumerate" and len(it.args) == 1 and not it.keywords:
            it, enum = it.args[0], True
        lit_name = None
        if isinstance(it, ast.Name) and it.id in consts:
            lit_name, it = it.id, consts[it.id]
        rows = _literal_rows(it)
        if rows is None:
            out.append(st)
            continue
        bad = [n for n in ast.walk(ast.Module(body=st.body, type_ignores=[])) if isinstance(n, (ast.Break, ast.For, ast.While, ast.Return))]
        if st.orelse or bad:
            raise ExtractError("%s: loop over a literal with break / else / nested loop / return is not unrolled" % where)
        for k, row in enumerate(rows):
            m = {}
            val = ast.Tuple(elts=[ast.Constant(value=k), row], ctx=ast.Load()) if enum else row
            if not _bind_target(target, val, m):
                raise ExtractError("%s: loop target `%s` does not fit the items of the literal" % (where, src(target)))
            for n in ast.walk(ast.Module(body=st.body, type_ignores=[])):
                if isinstance(n, ast.Name) and ((isinstance(n.ctx, ast.Store) and n.id in m) or n.id == lit_name):
                    raise ExtractError("%s: the loop body re-binds `%s` / mentions the literal" % (where, n.id))
            body = [_ConstSubst(m).visit(cp(b)) for b in st.body]
            folded = _fold_stmts(body)
            if any(isinstance(n, ast.Continue) for b in folded for n in ast.walk(b)):
                raise ExtractError("%s: `continue` other than `if <test>: continue` at the top of the loop body" % where)
            out.extend(folded)
    return out
