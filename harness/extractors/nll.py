"""C09 translator: esr/fitting/likelihood.py -> lean/ESRVerif/Generated/NLL.lean  (namespace ESR.Gen.NLL)

For each of CCLikelihood, MockLikelihood, MSE, GaussLikelihood, PoissonLikelihood the body of `negloglike`
is turned, statement by statement, into a deep-embedded `ESR.NLL.Cls` (see lean/ESRVerif/Model/NLL.lean),
together with the `get_pred` the class resolves to (its own, else `Likelihood.get_pred`) and, for CC/Mock,
the expression `__init__` assigns to `self.inv_cov`.

Fail-closed: a construct outside the recognised fragment makes *that class* disappear from the generated file
(an `-- unrecognised` comment and an entry of `errors` say why), so the theorems about it stop elaborating while
the table `classes` (used by the executable driver) still exists for the other classes.
"""
import ast
from fractions import Fraction

import extract
from extract import ExtractError

REL = "esr/fitting/likelihood.py"
CLASSES = [  # (lean name, python class)
    ("cc", "CCLikelihood"),
    ("mock", "MockLikelihood"),
    ("mse", "MSE"),
    ("gauss", "GaussLikelihood"),
    ("poisson", "PoissonLikelihood"),
]
BASE = "Likelihood"
DATA = {"yvar": ".yvar", "yerr": ".yerr", "inv_cov": ".invCov"}
NP_UNARY = {"log": ".log", "sqrt": ".sqrt", "square": ".sq"}
NP_REDUCE = {"sum": ".sum", "mean": ".mean"}
CMP = {ast.Lt: ".lt", ast.LtE: ".le", ast.Gt: ".gt", ast.GtE: ".ge"}

for _c, _f in [(BASE, "get_pred"), ("CCLikelihood", "get_pred"), ("MockLikelihood", "get_pred")] + \
        [(c, "negloglike") for _, c in CLASSES]:
    extract.MODELLED.append((REL, _c, _f))


def _where(node):
    return "%s:%d" % (REL, getattr(node, "lineno", 0))


def _bad(node, why):
    raise ExtractError("unrecognised %s at %s: %s" % (why, _where(node), ast.unparse(node)[:80]))


def _is_np(node, name=None):
    """`np.<name>`"""
    return (isinstance(node, ast.Attribute) and isinstance(node.value, ast.Name) and node.value.id == "np"
            and (name is None or node.attr == name))


def _self_attr(node):
    if isinstance(node, ast.Attribute) and isinstance(node.value, ast.Name) and node.value.id == "self":
        return node.attr
    return None


def _one_arg(call):
    if len(call.args) != 1 or call.keywords or isinstance(call.args[0], ast.Starred):
        _bad(call, "call arguments")
    return call.args[0]


class Tr(object):
    """Translator of one function body. `mode` is 'nll' (negloglike), 'pred' (get_pred) or 'init'."""

    def __init__(self, mode, params=None):
        self.mode = mode
        self.locals = {}            # name -> index (negloglike locals, by first assignment)
        self.params = params or []  # get_pred: [x-name, a-name, eq-name]

    def num(self, v, node):
        if isinstance(v, bool) or not isinstance(v, (int, float)):
            _bad(node, "constant")
        fr = Fraction(v) if isinstance(v, int) else Fraction(repr(v))
        if float(fr) != float(v):
            _bad(node, "constant (not exactly representable)")
        n, d = fr.numerator, fr.denominator
        return "(.num %s %d)" % (("(%d)" % n) if n < 0 else str(n), d)

    # ---- numeric expressions -------------------------------------------------------------
    def expr(self, e):
        if isinstance(e, ast.Constant):
            return self.num(e.value, e)
        if isinstance(e, ast.Name):
            if self.mode == "nll" and e.id in self.locals:
                return "(.loc %d)" % self.locals[e.id]
            _bad(e, "name")
        if isinstance(e, ast.Attribute):
            if _is_np(e, "pi"):
                return ".pi"
            if _is_np(e, "inf"):
                return ".inf"
            a = _self_attr(e)
            if a in DATA and self.mode in ("nll", "init"):
                if self.mode == "init" and a != "yerr":
                    _bad(e, "attribute in inv_cov initialiser")
                return "(.data %s)" % DATA[a]
            _bad(e, "attribute")
        if isinstance(e, ast.UnaryOp):
            if isinstance(e.op, ast.USub):
                return "(.neg %s)" % self.expr(e.operand)
            if isinstance(e.op, ast.UAdd):
                return self.expr(e.operand)
            _bad(e, "unary operator")
        if isinstance(e, ast.BinOp):
            if isinstance(e.op, ast.Pow):
                if isinstance(e.right, ast.Constant) and type(e.right.value) in (int, float) and e.right.value == 2:
                    return "(.sq %s)" % self.expr(e.left)
                _bad(e, "power (only ** 2)")
            op = {ast.Add: ".add", ast.Sub: ".sub", ast.Mult: ".mul", ast.Div: ".div"}.get(type(e.op))
            if op is None:
                _bad(e, "binary operator")
            return "(%s %s %s)" % (op, self.expr(e.left), self.expr(e.right))
        if isinstance(e, ast.Call):
            f = e.func
            # np.log(x), np.sqrt(x), np.square(x), np.sum(x), np.mean(x)
            if _is_np(f) and f.attr in NP_UNARY:
                return "(%s %s)" % (NP_UNARY[f.attr], self.expr(_one_arg(e)))
            if _is_np(f) and f.attr in NP_REDUCE:
                return "(%s %s)" % (NP_REDUCE[f.attr], self.expr(_one_arg(e)))
            # (method forms `x.sum()`, `b.all()` are NOT accepted: on a Python float/bool they raise AttributeError,
            #  which np.sum/np.all do not — e.g. the `np.inf` that Likelihood.get_pred returns on an exception)
            # self.get_pred(self.xvar, np.atleast_1d(a), eq_numpy)
            if self.mode == "nll" and _self_attr(f) == "get_pred":
                self.check_get_pred_call(e)
                return ".getPred"
            # eq_numpy(x, *a) inside get_pred
            if self.mode == "pred" and isinstance(f, ast.Name) and f.id == self.params[2]:
                ok = (len(e.args) == 2 and not e.keywords and isinstance(e.args[0], ast.Name) and e.args[0].id == self.params[0]
                      and isinstance(e.args[1], ast.Starred) and isinstance(e.args[1].value, ast.Name)
                      and e.args[1].value.id == self.params[1])
                if not ok:
                    _bad(e, "model-function call (expected %s(%s, *%s))" % (self.params[2], self.params[0], self.params[1]))
                return ".call"
            _bad(e, "call")
        _bad(e, "expression")

    def check_get_pred_call(self, e):
        ok = len(e.args) == 3 and not e.keywords
        if ok:
            a0, a1, a2 = e.args
            ok = (_self_attr(a0) == "xvar"
                  and isinstance(a1, ast.Call) and _is_np(a1.func, "atleast_1d") and len(a1.args) == 1 and not a1.keywords
                  and isinstance(a1.args[0], ast.Name) and a1.args[0].id == self.fn_params[0]
                  and isinstance(a2, ast.Name) and a2.id == self.fn_params[1])
        if not ok:
            _bad(e, "get_pred call (expected self.get_pred(self.xvar, np.atleast_1d(a), eq_numpy))")

    # ---- boolean arrays and conditions ---------------------------------------------------
    def bexpr(self, e):
        """-> lean BExpr text, or None if `e` is not an elementwise boolean expression."""
        if isinstance(e, ast.Call) and _is_np(e.func) and e.func.attr in ("isreal", "isnan"):
            return "(.%s %s)" % (e.func.attr, self.expr(_one_arg(e)))
        if isinstance(e, ast.Compare):
            if len(e.ops) != 1 or type(e.ops[0]) not in CMP:
                _bad(e, "comparison")
            return "(.cmp %s %s %s)" % (CMP[type(e.ops[0])], self.expr(e.left), self.expr(e.comparators[0]))
        return None

    def cond(self, e):
        if isinstance(e, ast.UnaryOp) and isinstance(e.op, ast.Not):
            return "(.not %s)" % self.cond(e.operand)
        if isinstance(e, ast.BoolOp):
            op = ".or" if isinstance(e.op, ast.Or) else ".and"
            parts = [self.cond(v) for v in e.values]
            out = parts[-1]
            for p in reversed(parts[:-1]):
                out = "(%s %s %s)" % (op, p, out)
            return out
        if isinstance(e, ast.Call):
            f = e.func
            if _is_np(f) and f.attr in ("all", "any"):
                b = self.bexpr(_one_arg(e))
                if b is None:
                    _bad(e, "np.%s argument" % f.attr)
                return "(.%s %s)" % (f.attr, b)
        b = self.bexpr(e)
        if b is not None:
            return "(.truth %s)" % b
        _bad(e, "condition")

    # ---- statements ------------------------------------------------------------------------
    def stmts(self, fn):
        a = fn.args
        names = [x.arg for x in a.args]
        if len(names) != 3 or names[0] != "self" or a.vararg or a.kwonlyargs or a.defaults or a.posonlyargs:
            _bad(fn, "negloglike signature (expected (self, a, eq_numpy, **kwargs))")
        self.fn_params = names[1:]
        body = list(fn.body)
        if body and isinstance(body[0], ast.Expr) and isinstance(body[0].value, ast.Constant) and isinstance(body[0].value.value, str):
            body = body[1:]
        out = []
        for k, s in enumerate(body):
            if isinstance(s, ast.Assign):
                if len(s.targets) != 1 or not isinstance(s.targets[0], ast.Name):
                    _bad(s, "assignment target")
                rhs = self.expr(s.value)
                name = s.targets[0].id
                if name in self.fn_params or name == "self":
                    _bad(s, "assignment to a parameter")
                if name not in self.locals:
                    self.locals[name] = len(self.locals)
                out.append("    .assign %d %s  -- %s: %s" % (self.locals[name], rhs, _where(s), name))
            elif isinstance(s, ast.If):
                if s.orelse or len(s.body) != 1 or not isinstance(s.body[0], ast.Return) or s.body[0].value is None:
                    _bad(s, "if statement (expected `if c: return e`)")
                out.append("    .ifRet %s %s  -- %s" % (self.cond(s.test), self.expr(s.body[0].value), _where(s)))
            elif isinstance(s, ast.Return):
                if s.value is None:
                    _bad(s, "bare return")
                out.append("    .ret %s  -- %s" % (self.expr(s.value), _where(s)))
                if k != len(body) - 1:
                    _bad(body[k + 1], "statement after return")
            else:
                _bad(s, "statement")
        if not body or not isinstance(body[-1], ast.Return):
            _bad(fn, "function end (expected a final return)")
        return out


def _strip_doc(fn):
    body = list(fn.body)
    if body and isinstance(body[0], ast.Expr) and isinstance(body[0].value, ast.Constant) and isinstance(body[0].value.value, str):
        body = body[1:]
    return body


def translate_get_pred(fn):
    """-> 'Wrap' literal"""
    a = fn.args
    names = [x.arg for x in a.args]
    if len(names) != 4 or names[0] != "self" or a.vararg or a.kwonlyargs or a.defaults or a.posonlyargs:
        _bad(fn, "get_pred signature (expected (self, x, a, eq_numpy, **kwargs))")
    tr = Tr("pred", names[1:])
    body = _strip_doc(fn)
    if len(body) != 1:
        _bad(fn, "get_pred body (expected one statement)")
    s = body[0]
    if isinstance(s, ast.Return) and s.value is not None:
        return "{ body := %s, onExc := none }" % tr.expr(s.value)
    if isinstance(s, ast.Try):
        if s.orelse or s.finalbody or len(s.handlers) != 1 or len(s.body) != 1 or not isinstance(s.body[0], ast.Return) \
                or s.body[0].value is None:
            _bad(s, "try statement")
        h = s.handlers[0]
        if not (isinstance(h.type, ast.Name) and h.type.id == "Exception") and h.type is not None:
            _bad(h, "exception handler type (expected Exception)")
        if len(h.body) != 1 or not isinstance(h.body[0], ast.Return) or h.body[0].value is None:
            _bad(h, "exception handler body")
        return "{ body := %s, onExc := some %s }" % (tr.expr(s.body[0].value), tr.expr(h.body[0].value))
    _bad(s, "get_pred statement")


def translate_inv_cov(cls):
    """expression assigned to self.inv_cov in __init__ (must be the last write to self.yerr / self.inv_cov)"""
    init = None
    for n in cls.body:
        if isinstance(n, ast.FunctionDef) and n.name == "__init__":
            init = n
    if init is None:
        raise ExtractError("class %s has no __init__" % cls.name)
    found = None
    for s in init.body:
        tg = []
        if isinstance(s, ast.Assign):
            for t in s.targets:
                tg += list(t.elts) if isinstance(t, (ast.Tuple, ast.List)) else [t]
        elif isinstance(s, (ast.AugAssign, ast.AnnAssign)):
            tg = [s.target]
        names = [_self_attr(t) for t in tg]
        if "inv_cov" in names:
            if not isinstance(s, ast.Assign) or len(s.targets) != 1 or len(names) != 1:
                _bad(s, "inv_cov assignment")
            found = s
        elif "yerr" in names and found is not None:
            _bad(s, "write to self.yerr after self.inv_cov was computed")
    if found is None:
        raise ExtractError("class %s: no assignment to self.inv_cov in __init__" % cls.name)
    return Tr("init").expr(found.value), found


def _uses_inv_cov(fn):
    return any(_self_attr(n) == "inv_cov" for n in ast.walk(fn))


def _find_class(tree, name):
    for n in tree.body:
        if isinstance(n, ast.ClassDef) and n.name == name:
            return n
    raise ExtractError("class %s not found" % name)


def _method(cls, name):
    for n in cls.body:
        if isinstance(n, ast.FunctionDef) and n.name == name:
            return n
    return None


def _span(n):
    return "%s:%d-%d" % (REL, n.lineno, n.end_lineno)


@extract.extractor("NLL")
def gen(stage):
    out = ("-- GENERATED by harness/extractors/nll.py from /repo on every check run. Do not edit.\n"
           "-- sources: %s\nimport ESRVerif.Model.NLL\nnamespace ESR.Gen.NLL\nopen ESR.NLL\n\n" % REL)
    errors = []
    done = []
    try:
        tree = extract._parse(stage, REL)
        base = _find_class(tree, BASE)
    except Exception as e:          # nothing can be said about any class
        errors.append("likelihood.py: %s" % e)
        tree = base = None
    for lname, cname in CLASSES:
        if tree is None:
            break
        try:
            cls = _find_class(tree, cname)
            if [b.id for b in cls.bases if isinstance(b, ast.Name)] != [BASE] or len(cls.bases) != 1:
                raise ExtractError("class %s: bases are not exactly (%s)" % (cname, BASE))
            gp = _method(cls, "get_pred")
            gp_owner = cname
            if gp is None:
                gp = _method(base, "get_pred")
                gp_owner = BASE
            if gp is None:
                raise ExtractError("no get_pred for %s" % cname)
            for other in ("__getattr__", "__getattribute__"):
                if _method(cls, other) or _method(base, other):
                    raise ExtractError("class %s defines %s" % (cname, other))
            nl = _method(cls, "negloglike")
            if nl is None:
                raise ExtractError("class %s has no negloglike" % cname)
            if nl.decorator_list or gp.decorator_list:
                raise ExtractError("decorated method in %s" % cname)
            wrap = translate_get_pred(gp)
            tr = Tr("nll")
            stmts = tr.stmts(nl)
            text = "/-- `%s.negloglike` (%s) with `%s.get_pred` (%s); locals %s -/\n" % (
                cname, _span(nl), gp_owner, _span(gp),
                ", ".join("%d=%s" % (i, n) for n, i in sorted(tr.locals.items(), key=lambda kv: kv[1])))
            text += "def %s : Cls where\n  pred := %s\n  body := [\n" % (lname, wrap)
            # comments cannot follow a comma-less element; put the separator before the comment
            lines = []
            for k, s in enumerate(stmts):
                code, _, cm = s.partition("  -- ")
                lines.append(code + ("," if k < len(stmts) - 1 else "") + "  -- " + cm)
            text += "\n".join(lines) + "\n  ]\n\n"
            if _uses_inv_cov(nl):
                ic, node = translate_inv_cov(cls)
                text += "/-- `%s.__init__`: `%s` (%s) -/\n" % (cname, ast.unparse(node), _span(node))
                text += "def %sInvCov : Expr := %s\n\n" % (lname, ic)
            out += text
            done.append((lname, cname))
        except Exception as e:      # fail closed for this class only
            msg = str(e).replace("\n", " ")
            errors.append("%s: %s" % (cname, msg))
            out += "-- unrecognised: %s: %s\n\n" % (cname, msg)
    out += "/-- classes whose source was recognised (python class name, embedded program) -/\n"
    out += "def classes : List (String × Cls) := [%s]\n\n" % ", ".join("(%s, %s)" % (extract.lstr(c), l) for l, c in done)
    out += "def errors : List String := [%s]\n" % ", ".join(extract.lstr(e) for e in errors)
    out += "\nend ESR.Gen.NLL\n"
    if errors:
        # the translator cannot speak for some class: let extract.generate put the committed table back (C09 may then
        # fall back on it + the interpreter-vs-real-class correspondence) instead of emitting a table without these programs
        raise ExtractError("; ".join(errors)[:600])
    return out
