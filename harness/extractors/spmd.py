"""Generated/SPMD.lean: the collective skeleton of the generation modules.

For every function of generator/simplifier/duplicate_checker that (transitively) performs MPI collectives,
list the collective sites with the control constructs around them and decide *admissibility*: a collective is
admissible iff no enclosing `if`/`while`/`for`, and no earlier conditional `return`/`break`/`continue`/`raise`
in the same function, depends on a rank-tainted value.  Taint sources: `rank`, results of `split_idx`, results of
module functions whose own return value is rank-tainted (computed to a fix-point over the three modules, so that
factoring the block arithmetic into a helper does not hide it), and anything assigned from a tainted expression
(fix-point per function).  Also lists every use site of `split_idx` in ANY function of the three modules and whether the
empty result (`[]`, a rank with no work) is handled: from the assignment `v = split_idx(…)` up to the next rebinding of `v`,
in program order, `v` may only be read inside an `if` / conditional expression whose test looks at its emptiness
(`len(v)` in any comparison; for a bare list result also `v`, `not v`, `v == []`), and there must be such a test.
(The tables carry source line numbers and the text of offending conditions for the reader; the theorems only look at the
`admissible` / `handlesEmpty` flags, so they re-check unchanged when code moves.)
"""
import ast
import extract
from extract import ExtractError, lstr
from extractors import _norm_c13 as norm

FILES = ["esr/generation/generator.py", "esr/generation/simplifier.py", "esr/generation/duplicate_checker.py"]
COLLECTIVES = {"bcast", "gather", "scatter", "Barrier", "allgather", "barrier"}

extract.MODELLED += [
    ("esr/generation/simplifier.py", None, "make_changes"),
    ("esr/generation/simplifier.py", None, "initial_sympify"),
    ("esr/generation/simplifier.py", None, "load_subs"),
    ("esr/generation/simplifier.py", None, "check_results"),
    ("esr/generation/simplifier.py", None, "expand_or_factor"),
]


def _is_comm_call(n):
    return (isinstance(n, ast.Call) and isinstance(n.func, ast.Attribute) and isinstance(n.func.value, ast.Name)
            and n.func.value.id == "comm" and n.func.attr in COLLECTIVES)


def _callee(n):
    if isinstance(n, ast.Call):
        f = n.func
        if isinstance(f, ast.Name):
            return f.id
        if isinstance(f, ast.Attribute):
            return f.attr
    return None


def _names(e):
    """names of the enclosing function's scope mentioned in e (variables bound by a comprehension inside e are its own)"""
    own = set()
    for c in ast.walk(e):
        if isinstance(c, (ast.ListComp, ast.SetComp, ast.DictComp, ast.GeneratorExp)):
            bound = {n.id for g in c.generators for n in ast.walk(g.target) if isinstance(n, ast.Name)}
            own |= {id(n) for n in ast.walk(c) if isinstance(n, ast.Name) and n.id in bound}
    return {n.id for n in ast.walk(e) if isinstance(n, ast.Name) and id(n) not in own}


RET_TAINTED = set()          # module functions whose return value depends on the rank (set by analyse)


def _expr_tainted(e, taint):
    if isinstance(e, ast.Call) and _is_comm_call(e) and e.func.attr in ("bcast", "allgather"):
        return False                     # the result of a broadcast is the same on every rank
    return bool(_names(e) & taint) or any(_callee(c) == "split_idx" or _callee(c) in RET_TAINTED for c in ast.walk(e) if isinstance(c, ast.Call))


def _tests_empty(test, var, direct, aliases=()):
    """the test looks at the emptiness of `var` (`direct`: var holds the list split_idx returned, not an ndarray made of it);
    `aliases`: names holding `len(var)` or a comparison of it (`n = len(var)`, `empty = len(var) == 0`)"""
    for n in ast.walk(test):
        if isinstance(n, ast.Name) and n.id in aliases:
            return True
        if isinstance(n, ast.Call) and isinstance(n.func, ast.Name) and n.func.id == "len" and len(n.args) == 1 \
                and isinstance(n.args[0], ast.Name) and n.args[0].id == var:
            return True
    if not direct:
        return False
    isv = lambda x: isinstance(x, ast.Name) and x.id == var
    if isv(test):
        return True
    for n in ast.walk(test):
        if isinstance(n, ast.UnaryOp) and isinstance(n.op, ast.Not) and isv(n.operand):
            return True
        if isinstance(n, ast.BoolOp) and any(isv(v) for v in n.values):
            return True
        if isinstance(n, ast.Compare) and len(n.ops) == 1 and isinstance(n.ops[0], (ast.Eq, ast.NotEq)) and isv(n.left) \
                and isinstance(n.comparators[0], ast.List) and not n.comparators[0].elts:
            return True
    return False


def _sub_bodies(st):
    out = [getattr(st, f) for f in ("body", "orelse", "finalbody") if isinstance(getattr(st, f, None), list)]
    return out + [h.body for h in getattr(st, "handlers", []) or []]


def _following(body, target):
    """the statements executed after `target` in program order (rest of its block, then of the enclosing blocks)"""
    for k, st in enumerate(body):
        if st is target:
            return list(body[k + 1:])
        if isinstance(st, (ast.FunctionDef, ast.ClassDef)):
            continue
        for sub in _sub_bodies(st):
            r = _following(sub, target)
            if r is not None:
                return r + list(body[k + 1:])
    return None


def _split_handled(fn, st, var, direct):
    """(handled, how): from `st` (`var = split_idx(…)`) to the next rebinding of var, in program order, var is only read
    under a test of its emptiness, and there is such a test"""
    tested = [False]
    aliases = set()

    def length_alias(s_):
        """`n = len(var)` / `empty = len(var) == 0`: var is only measured, nothing else is read"""
        if not (isinstance(s_, ast.Assign) and len(s_.targets) == 1 and isinstance(s_.targets[0], ast.Name) and s_.targets[0].id != var):
            return False
        lens = [c for c in ast.walk(s_.value) if isinstance(c, ast.Call) and isinstance(c.func, ast.Name) and c.func.id == "len" and len(c.args) == 1
                and isinstance(c.args[0], ast.Name) and c.args[0].id == var and not c.keywords]
        inside = {id(c.args[0]) for c in lens} | {id(c.func) for c in lens}
        others = [n for n in ast.walk(s_.value) if isinstance(n, ast.Name) and id(n) not in inside]
        ok_nodes = (ast.Call, ast.Name, ast.Load, ast.Constant, ast.Compare, ast.UnaryOp, ast.Not, ast.BoolOp, ast.And, ast.Or, ast.cmpop)
        return bool(lens) and not others and all(isinstance(n, ok_nodes) for n in ast.walk(s_.value))

    def own_scopes(node):
        own = set()          # comprehensions that bind `var` themselves: another variable
        for c in ast.walk(node):
            if isinstance(c, (ast.ListComp, ast.SetComp, ast.DictComp, ast.GeneratorExp)) and \
                    any(isinstance(n, ast.Name) and n.id == var for g in c.generators for n in ast.walk(g.target)):
                own |= {id(n) for n in ast.walk(c)}
        return own

    def unguarded_read(node):
        """node (an expression or simple statement) reads var outside a conditional expression that tests its emptiness"""
        own = own_scopes(node)
        guarded = set()
        for g in ast.walk(node):
            if isinstance(g, ast.IfExp) and id(g) not in own and _tests_empty(g.test, var, direct, aliases):
                tested[0] = True
                guarded |= {id(n) for n in ast.walk(g)}
        return any(isinstance(n, ast.Name) and n.id == var and isinstance(n.ctx, ast.Load) and id(n) not in own and id(n) not in guarded
                   for n in ast.walk(node))

    def binds(node):
        own = own_scopes(node)
        return any(isinstance(n, ast.Name) and n.id == var and isinstance(n.ctx, (ast.Store, ast.Del)) and id(n) not in own for n in ast.walk(node))

    def seq(stmts):
        """None: bad read found (line in bad[0]); True: var rebound on every path; False: still the split result"""
        for s_ in stmts:
            if isinstance(s_, (ast.FunctionDef, ast.ClassDef)):
                continue
            if isinstance(s_, ast.If):
                if _tests_empty(s_.test, var, direct, aliases):
                    tested[0] = True
                    ends = lambda b: bool(b) and isinstance(b[-1], (ast.Return, ast.Raise))
                    if ends(s_.body) or ends(s_.orelse):
                        return True                  # early return: what follows is the other branch of the test
                    if binds(s_):
                        return True if all(binds(ast.Module(body=b, type_ignores=[])) for b in (s_.body, s_.orelse)) and s_.orelse else False
                    continue
                if unguarded_read(s_.test):
                    bad.append(s_.lineno); return None
                ra, rb = seq(s_.body), seq(s_.orelse)
                if ra is None or rb is None:
                    return None
                if ra and rb:
                    return True
            elif isinstance(s_, (ast.For, ast.While)):
                head = s_.iter if isinstance(s_, ast.For) else s_.test
                if unguarded_read(head):
                    bad.append(s_.lineno); return None
                if isinstance(s_, ast.For) and binds(s_.target):
                    return True
                if seq(s_.body) is None or seq(s_.orelse) is None:
                    return None
            elif isinstance(s_, ast.With):
                if any(unguarded_read(i.context_expr) for i in s_.items):
                    bad.append(s_.lineno); return None
                if any(i.optional_vars is not None and binds(i.optional_vars) for i in s_.items):
                    return True
                r = seq(s_.body)
                if r is None or r:
                    return r
            elif isinstance(s_, ast.Try):
                for b in [s_.body] + [h.body for h in s_.handlers] + [s_.orelse, s_.finalbody]:
                    if seq(b) is None:
                        return None
            else:
                if length_alias(s_):
                    aliases.add(s_.targets[0].id)
                    continue
                if unguarded_read(s_):
                    bad.append(s_.lineno); return None
                if binds(s_):
                    return True
                aliases.difference_update(norm.stored_names(s_))
        return False

    bad = []
    r = seq(_following(fn.body, st) or [])
    if r is None:
        return False, "assigned to %s, read without a test of len(%s) (line %d)" % (var, var, bad[0])
    return tested[0], "assigned to %s, len(%s) %s" % (var, var, "tested" if tested[0] else "never tested")


def _param_guard(fn):
    """If every collective of `fn` sits under `if <param>:` for one boolean parameter, return that name."""
    params = {a.arg for a in fn.args.args}
    guard = None

    def walk(body, g):
        nonlocal guard
        ok = True
        for st in body:
            if g is None and isinstance(st, ast.If) and isinstance(st.test, ast.Name) and st.test.id in params:
                ok &= walk(st.body, st.test.id)
                ok &= walk(st.orelse, g)
            elif isinstance(st, (ast.If, ast.While, ast.For, ast.Try, ast.With)):
                for sub in (getattr(st, "body", []), getattr(st, "orelse", []), getattr(st, "finalbody", [])):
                    ok &= walk(sub, g)
                for h in getattr(st, "handlers", []):
                    ok &= walk(h.body, g)
                if isinstance(st, (ast.If, ast.While)) and any(_is_comm_call(c) for c in ast.walk(st.test)):
                    ok &= g is not None
            else:
                if any(_is_comm_call(c) for c in ast.walk(st)):
                    if g is None:
                        ok = False
                    elif guard is None:
                        guard = g
                    elif guard != g:
                        ok = False
        return ok

    return guard if walk(fn.body, None) and guard else None


def analyse(stage):
    funcs = {}
    for rel in FILES:
        tree = extract._parse(stage, rel)
        for n in tree.body:
            if isinstance(n, ast.FunctionDef):
                funcs[n.name] = (rel, n)
    pguard = {name: _param_guard(fn) for name, (rel, fn) in funcs.items() if any(_is_comm_call(c) for c in ast.walk(fn))}

    def is_coll_call(c, coll):
        nm = _callee(c)
        if nm not in coll:
            return False
        g = pguard.get(nm)
        if g:
            for kw in c.keywords:
                if kw.arg == g and isinstance(kw.value, ast.Constant) and kw.value.value is False:
                    return False
        return True

    coll = set(pguard)
    changed = True
    while changed:
        changed = False
        for name, (rel, fn) in funcs.items():
            if name in coll:
                continue
            if any(is_coll_call(c, coll) for c in ast.walk(fn) if isinstance(c, ast.Call)):
                coll.add(name); changed = True
    def scan(name, rel, fn, sites):
        """walk one function: appends its collective sites to `sites`; returns True if its return value is rank-tainted"""
        taint = {"rank"}
        fn_exits = []           # tainted conditional return/raise seen so far (affect everything after)
        ret = [False]

        def assign(targets, val):
            t = _expr_tainted(val, taint)
            for tg in targets:
                for nm in _names(tg):
                    if t:
                        taint.add(nm)
                    elif isinstance(tg, ast.Name) or (isinstance(tg, (ast.Tuple, ast.List)) and all(isinstance(x, ast.Name) for x in tg.elts)):
                        taint.discard(nm)          # strong update of a plain name (or of every name of `a, b = …`)

        def record(call, guards, loop_exits):
            op = ("comm." + call.func.attr) if _is_comm_call(call) else ("call " + _callee(call))
            bad = [g for g in guards if g[2]]
            why = "; ".join(["%s %s" % (g[0], g[1]) for g in bad] + fn_exits + loop_exits)
            sites.append((name, rel, call.lineno, op, not why, why))

        def scan_expr(e, guards, loop_exits):
            for c in ast.walk(e):
                if isinstance(c, ast.Call) and (_is_comm_call(c) or is_coll_call(c, coll)):
                    record(c, guards, loop_exits)

        def exits_in(body, kinds, in_try=False):
            """statements of the given kinds lexically in body (not inside nested defs; raise inside try-with-handlers is local)"""
            out = []
            for st in body:
                if isinstance(st, (ast.FunctionDef, ast.ClassDef)):
                    continue
                if isinstance(st, kinds) and not (isinstance(st, ast.Raise) and in_try):
                    out.append(st)
                if isinstance(st, ast.Try):
                    out += exits_in(st.body, kinds, in_try or bool(st.handlers))
                    for h in st.handlers:
                        out += exits_in(h.body, kinds, in_try)
                    out += exits_in(st.orelse, kinds, in_try) + exits_in(st.finalbody, kinds, in_try)
                elif isinstance(st, (ast.For, ast.While)):
                    # break/continue inside a nested loop belong to that loop
                    kk = tuple(k for k in kinds if k not in (ast.Break, ast.Continue))
                    if kk:
                        out += exits_in(st.body, kk, in_try) + exits_in(st.orelse, kk, in_try)
                elif isinstance(st, (ast.If, ast.With)):
                    out += exits_in(st.body, kinds, in_try) + exits_in(getattr(st, "orelse", []), kinds, in_try)
            return out

        def walk(body, guards, loop_exits, in_try):
            for st in body:
                if isinstance(st, ast.If):
                    scan_expr(st.test, guards, loop_exits)
                    t = _expr_tainted(st.test, taint)
                    g = guards + [("if", ast.unparse(st.test)[:70], t)]
                    before = set(taint)
                    walk(st.body, g, loop_exits, in_try)
                    after_body = set(taint)
                    taint.clear(); taint.update(before)
                    walk(st.orelse, g, loop_exits, in_try)
                    taint.update(after_body)                # either branch may have run
                    if t:                                    # which one ran depends on the rank: so does everything they bind
                        taint.update(norm.stored_names(ast.Module(body=st.body + st.orelse, type_ignores=[])))
                    if t:
                        for ex in exits_in(st.body + st.orelse, (ast.Return, ast.Raise), in_try):
                            fn_exits.append("line %d: %s under rank-dependent `%s`" % (ex.lineno, type(ex).__name__.lower(), ast.unparse(st.test)[:50]))
                        for ex in exits_in(st.body + st.orelse, (ast.Break, ast.Continue)):
                            loop_exits.append("line %d: %s under rank-dependent `%s`" % (ex.lineno, type(ex).__name__.lower(), ast.unparse(st.test)[:50]))
                elif isinstance(st, (ast.While, ast.For)):
                    cond = st.test if isinstance(st, ast.While) else st.iter
                    for _ in range(2):                       # two passes: loop-carried taint
                        scan_mark = len(sites)
                        if isinstance(st, ast.For):
                            assign([st.target], st.iter)
                        t = _expr_tainted(cond, taint)
                        g = guards + [("while" if isinstance(st, ast.While) else "for", ast.unparse(cond)[:70], t)]
                        inner = []
                        walk(st.body, g, inner, in_try)
                        if _ == 0:
                            del sites[scan_mark:]            # keep only the second pass' verdicts
                    walk(st.orelse, guards, loop_exits, in_try)
                elif isinstance(st, ast.Try):
                    walk(st.body, guards, loop_exits, in_try or bool(st.handlers))
                    for h in st.handlers:
                        walk(h.body, guards + [("except", ast.unparse(h.type)[:40] if h.type else "", True)], loop_exits, in_try)
                    walk(st.orelse, guards, loop_exits, in_try)
                    walk(st.finalbody, guards, loop_exits, in_try)
                elif isinstance(st, ast.With):
                    walk(st.body, guards, loop_exits, in_try)
                elif isinstance(st, (ast.FunctionDef, ast.ClassDef)):
                    continue
                else:
                    scan_expr(st, guards, loop_exits)
                    if isinstance(st, ast.Assign):
                        assign(st.targets, st.value)
                    elif isinstance(st, ast.AugAssign):
                        if _expr_tainted(st.value, taint):
                            taint.update(_names(st.target))
                    elif isinstance(st, ast.Return):
                        if any(g[2] and g[0] != "except" for g in guards) or (st.value is not None and _expr_tainted(st.value, taint)):
                            ret[0] = True

        walk(fn.body, [], [], False)
        return ret[0]

    # functions whose return value depends on the rank: least fix-point (a call of such a function taints)
    RET_TAINTED.clear()
    while True:
        new = {name for name, (rel, fn) in funcs.items() if norm._simple_helper(fn) is None and scan(name, rel, fn, [])}
        if new <= RET_TAINTED:
            break
        RET_TAINTED.update(new)

    sites = []
    split_sites = []
    for name in sorted(coll):
        rel, fn = funcs[name]
        scan(name, rel, fn, sites)

    # split_idx use sites, in every function of the three modules
    for name in sorted(funcs):
        rel, fn = funcs[name]
        for st in ast.walk(fn):
            if isinstance(st, ast.Assign) and any(_callee(c) == "split_idx" for c in ast.walk(st.value) if isinstance(c, ast.Call)):
                tg = st.targets[0]
                if len(st.targets) == 1 and isinstance(tg, ast.Name):
                    handled, how = _split_handled(fn, st, tg.id, _callee(st.value) == "split_idx")
                    split_sites.append((name, rel, st.lineno, handled, how))
                elif isinstance(tg, (ast.Tuple, ast.List)):
                    split_sites.append((name, rel, st.lineno, False, "result unpacked into %d names" % len(tg.elts)))
                else:
                    split_sites.append((name, rel, st.lineno, False, "unrecognised target"))
            elif isinstance(st, (ast.Expr, ast.Return, ast.AugAssign, ast.AnnAssign)) and any(_callee(c) == "split_idx" for c in ast.walk(st) if isinstance(c, ast.Call)):
                split_sites.append((name, rel, st.lineno, False, "result used without being named"))
    return sites, split_sites, sorted(coll)


@extract.extractor("SPMD")
def gen(stage):
    sites, split_sites, coll = analyse(stage)
    if not sites:
        raise ExtractError("no collective call found in the generation modules")
    t = extract.header("SPMD", FILES)
    t += ("structure Site where\n  fn : String\n  line : Nat\n  op : String\n  admissible : Bool\n  why : String\n  deriving Repr, DecidableEq\n\n"
          "/-- every collective (or call of a function that performs collectives) in the generation modules -/\n"
          "def sites : List Site := [\n")
    t += ",\n".join("  ⟨%s, %d, %s, %s, %s⟩" % (lstr(f), ln, lstr(op), "true" if ok else "false", lstr(why)) for f, rel, ln, op, ok, why in sites)
    t += "\n  ]\n\n"
    t += ("structure SplitUse where\n  fn : String\n  line : Nat\n  handlesEmpty : Bool\n  how : String\n  deriving Repr, DecidableEq\n\n"
          "/-- every use of `split_idx` and whether the empty result of a rank without work is handled -/\n"
          "def splitUses : List SplitUse := [\n")
    t += ",\n".join("  ⟨%s, %d, %s, %s⟩" % (lstr(f), ln, "true" if h else "false", lstr(how)) for f, rel, ln, h, how in split_sites)
    t += "\n  ]\n\n"
    t += "def collectiveFunctions : List String := [%s]\n" % ", ".join(lstr(c) for c in coll)
    t += extract.footer("SPMD")
    return t
