"""Generated/SPMD.lean: the collective skeleton of the generation modules.

For every function of generator/simplifier/duplicate_checker that (transitively) performs MPI collectives,
list the collective sites with the control constructs around them and decide *admissibility*: a collective is
admissible iff no enclosing `if`/`while`/`for`, and no earlier conditional `return`/`break`/`continue`/`raise`
in the same function, depends on a rank-tainted value.  Taint sources: `rank`, results of `split_idx`, and
anything assigned from a tainted expression (fix-point per function).  Also lists every use site of
`split_idx` and whether the empty result (`[]`, a rank with no work) is handled before it is indexed/unpacked.
"""
import ast
import extract
from extract import ExtractError, lstr

FILES = ["esr/generation/generator.py", "esr/generation/simplifier.py", "esr/generation/duplicate_checker.py"]
COLLECTIVES = {"bcast", "gather", "scatter", "Barrier", "allgather", "barrier"}

extract.MODELLED += [
    ("esr/generation/simplifier.py", None, "make_changes"),
    ("esr/generation/simplifier.py", None, "initial_sympify"),
    ("esr/generation/simplifier.py", None, "load_subs"),
    ("esr/generation/simplifier.py", None, "check_results"),
    ("esr/generation/simplifier.py", None, "expand_or_factor"),
]


def _is_comm_call(n):
    return (isinstance(n, ast.Call) and isinstance(n.func, ast.Attribute) and isinstance(n.func.value, ast.Name)
            and n.func.value.id == "comm" and n.func.attr in COLLECTIVES)


def _callee(n):
    if isinstance(n, ast.Call):
        f = n.func
        if isinstance(f, ast.Name):
            return f.id
        if isinstance(f, ast.Attribute):
            return f.attr
    return None


def _names(e):
    return {n.id for n in ast.walk(e) if isinstance(n, ast.Name)}


def _expr_tainted(e, taint):
    if isinstance(e, ast.Call) and _is_comm_call(e) and e.func.attr in ("bcast", "allgather"):
        return False                     # the result of a broadcast is the same on every rank
    return bool(_names(e) & taint) or any(_callee(c) == "split_idx" for c in ast.walk(e) if isinstance(c, ast.Call))


def _param_guard(fn):
    """If every collective of `fn` sits under `if <param>:` for one boolean parameter, return that name."""
    params = {a.arg for a in fn.args.args}
    guard = None

    def walk(body, g):
        nonlocal guard
        ok = True
        for st in body:
            if g is None and isinstance(st, ast.If) and isinstance(st.test, ast.Name) and st.test.id in params:
                ok &= walk(st.body, st.test.id)
                ok &= walk(st.orelse, g)
            elif isinstance(st, (ast.If, ast.While, ast.For, ast.Try, ast.With)):
                for sub in (getattr(st, "body", []), getattr(st, "orelse", []), getattr(st, "finalbody", [])):
                    ok &= walk(sub, g)
                for h in getattr(st, "handlers", []):
                    ok &= walk(h.body, g)
                if isinstance(st, (ast.If, ast.While)) and any(_is_comm_call(c) for c in ast.walk(st.test)):
                    ok &= g is not None
            else:
                if any(_is_comm_call(c) for c in ast.walk(st)):
                    if g is None:
                        ok = False
                    elif guard is None:
                        guard = g
                    elif guard != g:
                        ok = False
        return ok

    return guard if walk(fn.body, None) and guard else None


def analyse(stage):
    funcs = {}
    for rel in FILES:
        tree = extract._parse(stage, rel)
        for n in tree.body:
            if isinstance(n, ast.FunctionDef):
                funcs[n.name] = (rel, n)
    pguard = {name: _param_guard(fn) for name, (rel, fn) in funcs.items() if any(_is_comm_call(c) for c in ast.walk(fn))}

    def is_coll_call(c, coll):
        nm = _callee(c)
        if nm not in coll:
            return False
        g = pguard.get(nm)
        if g:
            for kw in c.keywords:
                if kw.arg == g and isinstance(kw.value, ast.Constant) and kw.value.value is False:
                    return False
        return True

    coll = set(pguard)
    changed = True
    while changed:
        changed = False
        for name, (rel, fn) in funcs.items():
            if name in coll:
                continue
            if any(is_coll_call(c, coll) for c in ast.walk(fn) if isinstance(c, ast.Call)):
                coll.add(name); changed = True
    sites = []
    split_sites = []
    for name in sorted(coll):
        rel, fn = funcs[name]
        taint = {"rank"}
        fn_exits = []           # tainted conditional return/raise seen so far (affect everything after)

        def assign(targets, val):
            t = _expr_tainted(val, taint)
            for tg in targets:
                for nm in _names(tg):
                    if t:
                        taint.add(nm)
                    elif isinstance(tg, ast.Name):
                        taint.discard(nm)          # strong update of a plain name

        def record(call, guards, loop_exits):
            op = ("comm." + call.func.attr) if _is_comm_call(call) else ("call " + _callee(call))
            bad = [g for g in guards if g[2]]
            why = "; ".join(["%s %s" % (g[0], g[1]) for g in bad] + fn_exits + loop_exits)
            sites.append((name, rel, call.lineno, op, not why, why))

        def scan_expr(e, guards, loop_exits):
            for c in ast.walk(e):
                if isinstance(c, ast.Call) and (_is_comm_call(c) or is_coll_call(c, coll)):
                    record(c, guards, loop_exits)

        def exits_in(body, kinds, in_try=False):
            """statements of the given kinds lexically in body (not inside nested defs; raise inside try-with-handlers is local)"""
            out = []
            for st in body:
                if isinstance(st, (ast.FunctionDef, ast.ClassDef)):
                    continue
                if isinstance(st, kinds) and not (isinstance(st, ast.Raise) and in_try):
                    out.append(st)
                if isinstance(st, ast.Try):
                    out += exits_in(st.body, kinds, in_try or bool(st.handlers))
                    for h in st.handlers:
                        out += exits_in(h.body, kinds, in_try)
                    out += exits_in(st.orelse, kinds, in_try) + exits_in(st.finalbody, kinds, in_try)
                elif isinstance(st, (ast.For, ast.While)):
                    # break/continue inside a nested loop belong to that loop
                    kk = tuple(k for k in kinds if k not in (ast.Break, ast.Continue))
                    if kk:
                        out += exits_in(st.body, kk, in_try) + exits_in(st.orelse, kk, in_try)
                elif isinstance(st, (ast.If, ast.With)):
                    out += exits_in(st.body, kinds, in_try) + exits_in(getattr(st, "orelse", []), kinds, in_try)
            return out

        def walk(body, guards, loop_exits, in_try):
            for st in body:
                if isinstance(st, ast.If):
                    scan_expr(st.test, guards, loop_exits)
                    t = _expr_tainted(st.test, taint)
                    g = guards + [("if", ast.unparse(st.test)[:70], t)]
                    walk(st.body, g, loop_exits, in_try)
                    walk(st.orelse, g, loop_exits, in_try)
                    if t:
                        for ex in exits_in(st.body + st.orelse, (ast.Return, ast.Raise), in_try):
                            fn_exits.append("line %d: %s under rank-dependent `%s`" % (ex.lineno, type(ex).__name__.lower(), ast.unparse(st.test)[:50]))
                        for ex in exits_in(st.body + st.orelse, (ast.Break, ast.Continue)):
                            loop_exits.append("line %d: %s under rank-dependent `%s`" % (ex.lineno, type(ex).__name__.lower(), ast.unparse(st.test)[:50]))
                elif isinstance(st, (ast.While, ast.For)):
                    cond = st.test if isinstance(st, ast.While) else st.iter
                    for _ in range(2):                       # two passes: loop-carried taint
                        scan_mark = len(sites)
                        if isinstance(st, ast.For):
                            assign([st.target], st.iter)
                        t = _expr_tainted(cond, taint)
                        g = guards + [("while" if isinstance(st, ast.While) else "for", ast.unparse(cond)[:70], t)]
                        inner = []
                        walk(st.body, g, inner, in_try)
                        if _ == 0:
                            del sites[scan_mark:]            # keep only the second pass' verdicts
                    walk(st.orelse, guards, loop_exits, in_try)
                elif isinstance(st, ast.Try):
                    walk(st.body, guards, loop_exits, in_try or bool(st.handlers))
                    for h in st.handlers:
                        walk(h.body, guards + [("except", ast.unparse(h.type)[:40] if h.type else "", True)], loop_exits, in_try)
                    walk(st.orelse, guards, loop_exits, in_try)
                    walk(st.finalbody, guards, loop_exits, in_try)
                elif isinstance(st, ast.With):
                    walk(st.body, guards, loop_exits, in_try)
                elif isinstance(st, (ast.FunctionDef, ast.ClassDef)):
                    continue
                else:
                    scan_expr(st, guards, loop_exits)
                    if isinstance(st, ast.Assign):
                        assign(st.targets, st.value)
                    elif isinstance(st, ast.AugAssign):
                        if _expr_tainted(st.value, taint):
                            taint.update(_names(st.target))

        walk(fn.body, [], [], False)

        # split_idx use sites
        for st in ast.walk(fn):
            if isinstance(st, ast.Assign) and any(_callee(c) == "split_idx" for c in ast.walk(st.value) if isinstance(c, ast.Call)):
                tg = st.targets[0]
                if isinstance(tg, (ast.Tuple, ast.List)):
                    split_sites.append((name, rel, st.lineno, False, "result unpacked into %d names" % len(tg.elts)))
                elif isinstance(tg, ast.Name):
                    var = tg.id
                    handled = any(isinstance(n, ast.If) and ("len(%s)" % var) in ast.unparse(n.test) for n in ast.walk(fn))
                    split_sites.append((name, rel, st.lineno, handled, "assigned to %s, len(%s) %s" % (var, var, "tested" if handled else "never tested")))
                else:
                    split_sites.append((name, rel, st.lineno, False, "unrecognised target"))
    return sites, split_sites, sorted(coll)


@extract.extractor("SPMD")
def gen(stage):
    sites, split_sites, coll = analyse(stage)
    if not sites:
        raise ExtractError("no collective call found in the generation modules")
    t = extract.header("SPMD", FILES)
    t += ("structure Site where\n  fn : String\n  line : Nat\n  op : String\n  admissible : Bool\n  why : String\n  deriving Repr, DecidableEq\n\n"
          "/-- every collective (or call of a function that performs collectives) in the generation modules -/\n"
          "def sites : List Site := [\n")
    t += ",\n".join("  ⟨%s, %d, %s, %s, %s⟩" % (lstr(f), ln, lstr(op), "true" if ok else "false", lstr(why)) for f, rel, ln, op, ok, why in sites)
    t += "\n  ]\n\n"
    t += ("structure SplitUse where\n  fn : String\n  line : Nat\n  handlesEmpty : Bool\n  how : String\n  deriving Repr, DecidableEq\n\n"
          "/-- every use of `split_idx` and whether the empty result of a rank without work is handled -/\n"
          "def splitUses : List SplitUse := [\n")
    t += ",\n".join("  ⟨%s, %d, %s, %s⟩" % (lstr(f), ln, "true" if h else "false", lstr(how)) for f, rel, ln, h, how in split_sites)
    t += "\n  ]\n\n"
    t += "def collectiveFunctions : List String := [%s]\n" % ", ".join(lstr(c) for c in coll)
    t += extract.footer("SPMD")
    return t
