"""AST normalisations shared by the C13 extractors (gather.py, spmd.py).  Not an extractor itself (underscore prefix).

`normalise(fn, module)` returns a rewritten deep copy of a FunctionDef; the original is never modified.  The rewritten tree is
only *read* by the symbolic readers, never executed, so every rewrite has to preserve the meaning of the function for all
inputs (value, exceptions and evaluation order where observable).  What is applied, in this order:

N1  one level of helper inlining.  `T = h(args)` where `h` is a module-level function of the same module whose body consists
    of assignments to plain names, `if`, `return`, `pass` (no loop, try, with, nested scope, comprehension, global): the
    arguments are bound to fresh names in call order, the body is copied with every local renamed apart, early returns are
    turned into `else` branches and every `return e` into `fresh_ret = e`, then `T = fresh_ret`.  A name the helper reads as
    a global must not be a local of the caller (ExtractError otherwise).  Helper bodies are not inlined further.
N2  `x = a if c else b`            ->  `if c: x = a` / `else: x = b`  (test first, then the chosen arm, then the store - as before)
N3  `a = b = v` (plain names)      ->  `a = v; b = a`
N4  loop that only appends         ->  comprehension(s):  `X = []` (+ `Y = []` ...) directly followed by
    `for T in IT: [if c: continue]* [if c2:] X.append(e) / X += [e] ...`  ->  `X = [e for T in IT if cond]`, one per list (loop
    fission), provided IT, the conditions and the appended expressions are side-effect free (names, constants, subscripts,
    arithmetic, comparisons, len/range/enumerate/zip) and do not mention the lists being built.  The loop variables are
    unknown afterwards: a marker `del T` is left for the reader (reader-internal, means "forget T").
N5  tests (if / conditional expression / comprehension filter / while):  `not (a == b)` <-> `a != b`, `not (a is b)` <-> `a is not b`,
    `not (a in b)` <-> `a not in b`, `not not a` -> `a`, De Morgan with short-circuit order kept, `0 == e` -> `e == 0` for an
    integer literal on the left.  (`<`/`>=` are NOT swapped: NaN.)   Trusted: `!=` of the compared values is the negation of `==`.
N6  `itertools.chain.from_iterable(x)`  ->  `itertools.chain(*x)`
"""
import ast, copy
from extract import ExtractError

PURE_CALLS = {"len", "range", "enumerate", "zip"}


def pure(e):
    """evaluating e has no side effect and cannot rebind anything (containers are list/str/ndarray/dict)"""
    if isinstance(e, (ast.Name, ast.Constant)):
        return True
    if isinstance(e, ast.Subscript):
        return pure(e.value) and pure(e.slice)
    if isinstance(e, ast.Slice):
        return all(x is None or pure(x) for x in (e.lower, e.upper, e.step))
    if isinstance(e, ast.BinOp):
        return isinstance(e.op, (ast.Add, ast.Sub, ast.Mult)) and pure(e.left) and pure(e.right)
    if isinstance(e, ast.UnaryOp):
        return isinstance(e.op, (ast.USub, ast.Not)) and pure(e.operand)
    if isinstance(e, ast.Compare):
        return pure(e.left) and all(pure(c) for c in e.comparators)
    if isinstance(e, ast.BoolOp):
        return all(pure(v) for v in e.values)
    if isinstance(e, (ast.Tuple, ast.List)):
        return all(pure(x) for x in e.elts)
    if isinstance(e, ast.Call):
        return isinstance(e.func, ast.Name) and e.func.id in PURE_CALLS and not e.keywords and all(pure(a) for a in e.args)
    return False


def names(e):
    return {n.id for n in ast.walk(e) if isinstance(n, ast.Name)}


def stored_names(node):
    """names bound anywhere inside node (function scope; comprehension targets excluded)"""
    out = set()

    def walk(n):
        if isinstance(n, (ast.ListComp, ast.SetComp, ast.DictComp, ast.GeneratorExp, ast.Lambda)):
            return
        if isinstance(n, ast.Name) and isinstance(n.ctx, (ast.Store, ast.Del)):
            out.add(n.id)
        if isinstance(n, (ast.FunctionDef, ast.ClassDef)) and n is not node:
            out.add(n.name)
            return
        for c in ast.iter_child_nodes(n):
            walk(c)
    walk(node)
    return out


# ------------------------------------------------------------------------------------------------ N5 / N6 (expressions)

NEG = {ast.Eq: ast.NotEq, ast.NotEq: ast.Eq, ast.Is: ast.IsNot, ast.IsNot: ast.Is, ast.In: ast.NotIn, ast.NotIn: ast.In}


def _neg(t):
    """the test `not t`, simplified"""
    if isinstance(t, ast.UnaryOp) and isinstance(t.op, ast.Not):
        return norm_test(t.operand)
    if isinstance(t, ast.Compare) and len(t.ops) == 1 and type(t.ops[0]) in NEG:
        return ast.Compare(left=t.left, ops=[NEG[type(t.ops[0])]()], comparators=t.comparators)
    if isinstance(t, ast.BoolOp):
        return ast.BoolOp(op=ast.Or() if isinstance(t.op, ast.And) else ast.And(), values=[_neg(v) for v in t.values])
    return ast.UnaryOp(op=ast.Not(), operand=t)


def norm_test(t):
    """a test in boolean position (only its truth value is used)"""
    if isinstance(t, ast.UnaryOp) and isinstance(t.op, ast.Not):
        return _neg(norm_test(t.operand))
    if isinstance(t, ast.BoolOp):
        return ast.BoolOp(op=t.op, values=[norm_test(v) for v in t.values])
    if isinstance(t, ast.Compare) and len(t.ops) == 1 and isinstance(t.ops[0], (ast.Eq, ast.NotEq)) and isinstance(t.left, ast.Constant) \
            and isinstance(t.left.value, int) and not isinstance(t.left.value, bool) and not isinstance(t.comparators[0], ast.Constant):
        return ast.Compare(left=t.comparators[0], ops=t.ops, comparators=[t.left])
    return t


class _Expr(ast.NodeTransformer):
    def visit_Call(self, n):
        self.generic_visit(n)
        f = n.func
        if (isinstance(f, ast.Attribute) and f.attr == "from_iterable" and isinstance(f.value, ast.Attribute) and f.value.attr == "chain"
                and len(n.args) == 1 and not n.keywords and not isinstance(n.args[0], ast.Starred)):
            return ast.Call(func=f.value, args=[ast.Starred(value=n.args[0], ctx=ast.Load())], keywords=[])
        return n

    def visit_If(self, n):
        self.generic_visit(n)
        n.test = norm_test(n.test)
        return n

    def visit_While(self, n):
        self.generic_visit(n)
        n.test = norm_test(n.test)
        return n

    def visit_IfExp(self, n):
        self.generic_visit(n)
        n.test = norm_test(n.test)
        return n

    def visit_comprehension(self, n):
        self.generic_visit(n)
        n.ifs = [norm_test(c) for c in n.ifs]
        return n


# ------------------------------------------------------------------------------------------------ N1 helper inlining

def _simple_helper(fn):
    """None if fn can be inlined, else the reason"""
    a = fn.args
    if a.vararg or a.kwarg or a.kwonlyargs or a.posonlyargs or fn.decorator_list:
        return "signature"
    if any(not isinstance(d, ast.Constant) for d in a.defaults):
        return "non-constant default"

    def ok_target(t):
        return isinstance(t, ast.Name) or (isinstance(t, (ast.Tuple, ast.List)) and all(isinstance(x, ast.Name) for x in t.elts))

    def ok(body):
        for st in body:
            if isinstance(st, ast.Assign):
                if not all(ok_target(t) for t in st.targets):
                    return "assignment to a non-name (line %d)" % st.lineno
            elif isinstance(st, ast.AugAssign):
                if not isinstance(st.target, ast.Name):
                    return "augmented assignment to a non-name (line %d)" % st.lineno
            elif isinstance(st, ast.If):
                r = ok(st.body) or ok(st.orelse)
                if r:
                    return r
            elif isinstance(st, (ast.Return, ast.Pass)):
                pass
            elif isinstance(st, ast.Expr) and isinstance(st.value, ast.Constant):
                pass
            else:
                return "%s statement (line %d)" % (type(st).__name__, st.lineno)
        return None
    r = ok(fn.body)
    if r:
        return r
    for n in ast.walk(fn):
        if isinstance(n, (ast.ListComp, ast.SetComp, ast.DictComp, ast.GeneratorExp, ast.Lambda, ast.Yield, ast.YieldFrom, ast.Await, ast.NamedExpr)):
            return "%s inside" % type(n).__name__
    return None


def _has_return(body):
    return any(isinstance(n, ast.Return) for st in body for n in ast.walk(st))


def _to_result(stmts, ret):
    """statement list in which every path ends by assigning `ret` instead of returning (early return -> else)"""
    out = []
    for k, st in enumerate(stmts):
        if isinstance(st, ast.Return):
            out.append(ast.Assign(targets=[ast.Name(id=ret, ctx=ast.Store())], value=st.value or ast.Constant(value=None), lineno=st.lineno))
            return out
        if isinstance(st, ast.If) and _has_return([st]):
            rest = stmts[k + 1:]
            out.append(ast.If(test=st.test, body=_to_result(list(st.body) + copy.deepcopy(rest), ret),
                              orelse=_to_result(list(st.orelse) + copy.deepcopy(rest), ret), lineno=st.lineno))
            return out
        out.append(st)
    out.append(ast.Assign(targets=[ast.Name(id=ret, ctx=ast.Store())], value=ast.Constant(value=None), lineno=getattr(stmts[-1], "lineno", 0) if stmts else 0))
    return out


class _Rename(ast.NodeTransformer):
    def __init__(self, m):
        self.m = m

    def visit_Name(self, n):
        return ast.Name(id=self.m.get(n.id, n.id), ctx=n.ctx)


def inline_helpers(fn, module):
    helpers = {n.name: n for n in module.body if isinstance(n, ast.FunctionDef) and n.name != fn.name}
    caller_locals = stored_names(fn) | {a.arg for a in fn.args.args}
    counter = [0]
    inlined = []

    def expand(st):
        if not (isinstance(st, ast.Assign) and isinstance(st.value, ast.Call) and isinstance(st.value.func, ast.Name)
                and st.value.func.id in helpers and st.value.func.id not in caller_locals):
            return None
        h = helpers[st.value.func.id]
        if _simple_helper(h) is not None:
            return None                       # stays a call: the readers treat its result as unknown (fail closed when used)
        call = st.value
        params = [a.arg for a in h.args.args]
        if any(isinstance(a, ast.Starred) for a in call.args) or any(kw.arg is None for kw in call.keywords) or len(call.args) > len(params):
            return None
        counter[0] += 1
        pre = "_h%d_" % counter[0]
        hl = stored_names(h) | set(params)
        for g in names(h) - hl:
            if g in caller_locals:
                raise ExtractError("%s: helper %s reads the global `%s`, which is a local of the caller; cannot inline" % (fn.name, h.name, g))
        m = {x: pre + x for x in hl}
        ret = pre + "ret"
        bound, pro = {}, []
        for p, a in zip(params, call.args):
            bound[p] = a
        for kw in call.keywords:
            if kw.arg not in params or kw.arg in bound:
                return None
            bound[kw.arg] = kw.value
        ndef = len(h.args.defaults)
        for p, d in zip(params[len(params) - ndef:], h.args.defaults):
            bound.setdefault(p, d)
        if set(bound) != set(params):
            return None
        # arguments are evaluated in call order (positional, then keywords as written), defaults are constants
        order = list(params[:len(call.args)]) + [kw.arg for kw in call.keywords] + [p for p in params if p not in params[:len(call.args)] and p not in [kw.arg for kw in call.keywords]]
        for p in order:
            pro.append(ast.Assign(targets=[ast.Name(id=m[p], ctx=ast.Store())], value=bound[p], lineno=st.lineno))
        body = [s for s in copy.deepcopy(h.body) if not (isinstance(s, ast.Expr) and isinstance(s.value, ast.Constant))]
        body = [_Rename(m).visit(s) for s in _to_result(body, "\0ret")]
        for s in body:
            for n in ast.walk(s):
                if isinstance(n, ast.Name) and n.id == "\0ret":
                    n.id = ret
                if not hasattr(n, "lineno") and isinstance(n, (ast.stmt, ast.expr)):
                    n.lineno = st.lineno
        inlined.append(h.name)
        return pro + body + [ast.Assign(targets=st.targets, value=ast.Name(id=ret, ctx=ast.Load()), lineno=st.lineno)]

    def walk(body):
        out = []
        for st in body:
            ex = expand(st)
            if ex is not None:
                out += ex
                continue
            for f in ("body", "orelse", "finalbody"):
                if isinstance(getattr(st, f, None), list) and not isinstance(st, (ast.FunctionDef, ast.ClassDef)):
                    setattr(st, f, walk(getattr(st, f)))
            for hd in getattr(st, "handlers", []) or []:
                hd.body = walk(hd.body)
            out.append(st)
        return out
    fn.body = walk(fn.body)
    return inlined


# ------------------------------------------------------------------------------------------------ N2, N3, N4 (statements)

def _ifexp_assign(st):
    if isinstance(st, ast.Assign) and len(st.targets) == 1 and isinstance(st.value, ast.IfExp):
        v = st.value
        mk = lambda val: _ifexp_assign(ast.Assign(targets=copy.deepcopy(st.targets), value=val, lineno=st.lineno))
        return [ast.If(test=v.test, body=mk(v.body), orelse=mk(v.orelse), lineno=st.lineno)]
    return [st]


def _chain_assign(st):
    if isinstance(st, ast.Assign) and len(st.targets) > 1 and all(isinstance(t, ast.Name) for t in st.targets):
        out = [ast.Assign(targets=[st.targets[0]], value=st.value, lineno=st.lineno)]
        for prev, t in zip(st.targets, st.targets[1:]):
            out.append(ast.Assign(targets=[t], value=ast.Name(id=prev.id, ctx=ast.Load()), lineno=st.lineno))
        return out
    return [st]


def _append_of(st):
    """(list name, appended expression) if st is `X.append(e)` or `X += [e]`"""
    if isinstance(st, ast.Expr) and isinstance(st.value, ast.Call) and isinstance(st.value.func, ast.Attribute) and st.value.func.attr == "append" \
            and isinstance(st.value.func.value, ast.Name) and len(st.value.args) == 1 and not st.value.keywords and not isinstance(st.value.args[0], ast.Starred):
        return st.value.func.value.id, st.value.args[0]
    if isinstance(st, ast.AugAssign) and isinstance(st.op, ast.Add) and isinstance(st.target, ast.Name) and isinstance(st.value, ast.List) \
            and len(st.value.elts) == 1 and not isinstance(st.value.elts[0], ast.Starred):
        return st.target.id, st.value.elts[0]
    return None


def _append_loop(loop):
    """[(X, e, [conds])] if the loop does nothing but append to lists, else None"""
    if not isinstance(loop, ast.For) or loop.orelse or not pure(loop.iter):
        return None
    conds, body = [], list(loop.body)
    while body and isinstance(body[0], ast.If) and not body[0].orelse and len(body[0].body) == 1 and isinstance(body[0].body[0], ast.Continue):
        conds.append(_neg(norm_test(body[0].test)))
        body = body[1:]
    if len(body) == 1 and isinstance(body[0], ast.If) and not body[0].orelse and _append_of(body[0]) is None:
        conds.append(norm_test(body[0].test))
        body = list(body[0].body)
    apps = [_append_of(s) for s in body]
    if not apps or any(a is None for a in apps):
        return None
    built = {a[0] for a in apps}
    tnames = names(loop.target)
    if len(built) != len(apps) or built & (tnames | names(loop.iter)):
        return None
    for c in conds:
        if not pure(c) or names(c) & built:
            return None
    for _, e in apps:
        if not pure(e) or names(e) & built:
            return None
    return [(x, e, conds) for x, e in apps]


def _is_empty_list_assign(st):
    return (isinstance(st, ast.Assign) and len(st.targets) == 1 and isinstance(st.targets[0], ast.Name)
            and isinstance(st.value, ast.List) and not st.value.elts)


def _loops_to_comprehensions(body):
    out = []
    for st in body:
        apps = _append_loop(st)
        if apps:
            # the lists must have been created empty by the statements directly before the loop
            k = len(out)
            init = {}
            while k > 0 and _is_empty_list_assign(out[k - 1]):
                k -= 1
                init[out[k].targets[0].id] = k
            if all(x in init for x, _, _ in apps):
                keep = [s for j, s in enumerate(out) if not (j >= k and s.targets[0].id in {x for x, _, _ in apps})]
                out = keep
                for x, e, conds in apps:
                    cond = [] if not conds else [conds[0] if len(conds) == 1 else ast.BoolOp(op=ast.And(), values=list(conds))]
                    comp = ast.ListComp(elt=copy.deepcopy(e), generators=[ast.comprehension(target=copy.deepcopy(st.target), iter=copy.deepcopy(st.iter),
                                                                                              ifs=copy.deepcopy(cond), is_async=0)])
                    out.append(ast.Assign(targets=[ast.Name(id=x, ctx=ast.Store())], value=comp, lineno=st.lineno))
                out.append(ast.Delete(targets=[ast.Name(id=nm, ctx=ast.Del()) for nm in sorted(names(st.target))], lineno=st.lineno))
                continue
        out.append(st)
    return out


def _statements(body):
    out = []
    for st in body:
        if isinstance(st, (ast.FunctionDef, ast.ClassDef)):
            out.append(st)
            continue
        for f in ("body", "orelse", "finalbody"):
            if isinstance(getattr(st, f, None), list):
                setattr(st, f, _statements(getattr(st, f)))
        for hd in getattr(st, "handlers", []) or []:
            hd.body = _statements(hd.body)
        for s1 in _chain_assign(st):
            out += _ifexp_assign(s1)
    # the arms created by N2 may themselves be chained assignments etc.: they were built from already-normal parts
    return _loops_to_comprehensions(out)


def normalise(fn, module=None):
    """normalised deep copy of the FunctionDef `fn` (see module docstring); `.inlined` lists the helpers substituted"""
    fn = copy.deepcopy(fn)
    inl = inline_helpers(fn, module) if module is not None else []
    fn = _Expr().visit(fn)
    fn.body = _statements(fn.body)
    for n in ast.walk(fn):
        if isinstance(n, (ast.stmt, ast.expr)) and not hasattr(n, "lineno"):
            n.lineno = 0
        if isinstance(n, (ast.stmt, ast.expr)) and not hasattr(n, "col_offset"):
            n.col_offset = 0
    fn.inlined = inl
    return fn
