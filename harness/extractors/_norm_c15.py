"""Semantics-preserving AST normalisations for harness/extractors/fault.py (C15).  Not an extractor (underscore prefix).

Everything here is part of the trusted translator.  Each rewrite keeps, for ALL inputs, the set and the order of the
*state effects* (stores into `X[idx]`, in-place mutator calls, appends to / truncations of bare lists) that executing the
statements performs; they do not try to keep values, only what fault.py reads off the result.

 N1  canonical names: the locals passed to `make_changes(all_fun, all_sym, all_inv_subs, A, B, C)` are renamed to
     make_changes' own parameter names (str_fun, sym_fun, inv_subs_fun); refused (ExtractError) when the canonical name is
     already used for something else or a comprehension/lambda rebinds one of the names.
 N2  tuple / chained assignment: `a, b = u, v` is read as `a = u; b = v` (right-hand sides of a tuple display have no
     effects on the tracked state other than those found by scanning them), `a = b = v` as two stores.
 N3  tuple alias: `t = (n1, n2, ..)` (names only, assigned once in the statement list, none of the n_k rebound there) is
     substituted into later uses of `t` in that list (`for r in t`, `min(len(r) for r in t)`, `zip(t, ..)`).
 N4  unrolling: `for v in (e1, e2, ..)` / `[e1, ..]` / `zip((..), (..))` over literals of names, constants, subscripts
     (tuple targets matched element-wise), body without break/continue/else and without a store to the loop variable, is
     replaced by one copy of the body per element with the element substituted for the variable.
 N5  one level of helper inlining: a call `f(args)` of a function defined at module level of the same file or nested in
     the anchored function, whose body may change state reachable from its parameters or free variables (subscript store /
     del, mutator method call, augmented assignment, call of another such helper), is replaced by its body: parameters
     that receive a name / constant / subscript / attribute are substituted, other arguments are bound to fresh locals
     first (evaluated once, in order), the helper's own locals get fresh names, `return e` becomes the expression
     statement `e`.  Only straight-line bodies are inlined (expression statements, assignments, `if`, `pass`, `return`);
     anything else, a store to a parameter, *args/**kwargs, or a second level of state-changing helper is an ExtractError,
     never "no effect".  A helper that cannot change state through its parameters or free variables is left as a call.
 N6  appends: `L.append(x)`, `L.extend(..)`, `L.insert(..)`, `L += ..` and `L = L + ..` on a bare list name are all
     "append to L"; `X[i].append/extend/insert(..)` and `X[i] += ..` are "in-place change of X[i]".
 N7  truncations: `del L[n:]`, `L[n:] = []` and `while len(L) > n: L.pop()` are "cut L back to n".
 N8  the cut length: `min(len(a), len(b), ..)`, `min(len(r) for r in (a, b, ..))`, `min([len(r) for r in (..)])`,
     `min(map(len, (a, b, ..)))` and `len(a)` denote the common length of {a, b, ..}.
"""
import ast, copy
from extract import ExtractError

MUT_APPEND = {"append", "extend", "insert"}
MUT_OTHER = {"pop", "remove", "clear", "sort", "reverse", "update", "add", "discard", "setdefault", "popitem",
             "__setitem__", "__delitem__", "__iadd__", "__imul__"}
MUTATORS = MUT_APPEND | MUT_OTHER
COMPS = (ast.ListComp, ast.SetComp, ast.DictComp, ast.GeneratorExp)
# builtins that only read a list handed to them
READERS = {"len", "print", "str", "repr", "enumerate", "range", "zip", "min", "max", "sorted", "sum", "any", "all", "list",
           "tuple", "set", "isinstance", "id", "type", "map", "reversed", "iter", "bool"}


def root_name(node):
    """X, X[..], X[..][..], X.attr, *X -> 'X'; None when the expression is not rooted in a plain name"""
    while isinstance(node, (ast.Subscript, ast.Attribute, ast.Starred)):
        node = node.value
    return node.id if isinstance(node, ast.Name) else None


def sub_base(t):
    """X[i] -> 'X' for a subscript of a plain name (one level, as the per-function state is indexed)"""
    if isinstance(t, ast.Subscript) and isinstance(t.value, ast.Name):
        return t.value.id
    return None


# ---------------------------------------------------------------------------------------------------------------
# names bound by executing statements (comprehension targets and lambda parameters live in their own scope)
# ---------------------------------------------------------------------------------------------------------------

class _Stores(ast.NodeVisitor):
    def __init__(self, skip_aug=False):
        self.names = []
        self.skip_aug = skip_aug

    def visit_Name(self, n):
        if isinstance(n.ctx, (ast.Store, ast.Del)):
            self.names.append(n.id)

    def _comp(self, n):
        for g in n.generators:
            self.visit(g.iter)
            for c in g.ifs:
                self.visit(c)
        for f in ("elt", "key", "value"):
            if hasattr(n, f):
                self.visit(getattr(n, f))
    visit_ListComp = visit_SetComp = visit_DictComp = visit_GeneratorExp = _comp

    def visit_Lambda(self, n):
        self.visit(n.body)

    def visit_FunctionDef(self, n):
        self.names.append(n.name)
    visit_AsyncFunctionDef = visit_ClassDef = visit_FunctionDef

    def visit_ExceptHandler(self, n):
        if n.name:
            self.names.append(n.name)
        self.generic_visit(n)

    def visit_alias(self, n):
        self.names.append((n.asname or n.name).split(".")[0])

    def visit_AugAssign(self, n):
        if self.skip_aug and isinstance(n.target, ast.Name):
            self.visit(n.value)
            return
        self.generic_visit(n)

    def visit_Assign(self, n):
        # `L = L + ..` keeps L "the same list, longer" for the purposes of block-locality (skip_aug mode)
        if self.skip_aug and len(n.targets) == 1 and isinstance(n.targets[0], ast.Name) and self_extension(n):
            self.visit(n.value)
            return
        self.generic_visit(n)


def self_extension(st):
    """`L = L + e` -> 'L'"""
    if isinstance(st, ast.Assign) and len(st.targets) == 1 and isinstance(st.targets[0], ast.Name) \
            and isinstance(st.value, ast.BinOp) and isinstance(st.value.op, ast.Add) \
            and isinstance(st.value.left, ast.Name) and st.value.left.id == st.targets[0].id:
        return st.targets[0].id
    return None


def stores(nodes, skip_aug=False):
    v = _Stores(skip_aug)
    for n in (nodes if isinstance(nodes, list) else [nodes]):
        v.visit(n)
    return v.names


def inner_bound(nodes):
    """names bound by comprehensions / lambdas inside the nodes (they shadow an outer name of the same spelling)"""
    out = set()
    for top in (nodes if isinstance(nodes, list) else [nodes]):
        for n in ast.walk(top):
            if isinstance(n, COMPS):
                for g in n.generators:
                    out.update(x.id for x in ast.walk(g.target) if isinstance(x, ast.Name))
            elif isinstance(n, ast.Lambda):
                a = n.args
                out.update(x.arg for x in a.posonlyargs + a.args + a.kwonlyargs)
                out.update(x.arg for x in (a.vararg, a.kwarg) if x is not None)
    return out


# ---------------------------------------------------------------------------------------------------------------
# substitution
# ---------------------------------------------------------------------------------------------------------------

class _Subst(ast.NodeTransformer):
    def __init__(self, mapping):
        self.m = mapping

    def visit_Name(self, n):
        if n.id in self.m:
            r = self.m[n.id]
            if isinstance(n.ctx, ast.Load):
                return ast.copy_location(copy.deepcopy(r), n)
            if isinstance(r, ast.Name):
                return ast.copy_location(ast.Name(id=r.id, ctx=n.ctx), n)
            raise ExtractError("line %d: store to the substituted name %s" % (getattr(n, "lineno", 0), n.id))
        return n


def substitute(nodes, mapping):
    if not mapping:
        return nodes
    clash = inner_bound(nodes) & set(mapping)
    if clash:
        raise ExtractError("a comprehension or lambda rebinds %s, which the translator needs to substitute" % sorted(clash))
    out = []
    for n in nodes:
        m = _Subst(mapping).visit(copy.deepcopy(n))
        ast.fix_missing_locations(m)
        out.append(m)
    return out


def simple_expr(e):
    """expressions whose evaluation has no effect and may be repeated: names, constants, subscripts/attributes/tuples of those"""
    if isinstance(e, (ast.Name, ast.Constant)):
        return True
    if isinstance(e, ast.Subscript):
        return simple_expr(e.value) and simple_expr(e.slice)
    if isinstance(e, ast.Attribute):
        return simple_expr(e.value)
    if isinstance(e, (ast.Tuple, ast.List)):
        return all(simple_expr(x) for x in e.elts)
    if isinstance(e, ast.UnaryOp) and isinstance(e.op, ast.USub):
        return simple_expr(e.operand)
    return False


# ---------------------------------------------------------------------------------------------------------------
# N1 canonical names
# ---------------------------------------------------------------------------------------------------------------

def bind_call(call, fdef):
    """{parameter: argument expression} of a call of fdef (defaults included); ExtractError on *args / **kwargs"""
    a = fdef.args
    if a.vararg or a.kwarg or any(isinstance(x, ast.Starred) for x in call.args) or any(k.arg is None for k in call.keywords):
        raise ExtractError("line %d: call of %s uses */** arguments" % (call.lineno, fdef.name))
    params = [x.arg for x in a.posonlyargs + a.args]
    if len(call.args) > len(params):
        raise ExtractError("line %d: too many arguments for %s" % (call.lineno, fdef.name))
    bound = dict(zip(params, call.args))
    for k in call.keywords:
        if k.arg in bound or k.arg not in params + [x.arg for x in a.kwonlyargs]:
            raise ExtractError("line %d: bad keyword %s for %s" % (call.lineno, k.arg, fdef.name))
        bound[k.arg] = k.value
    for p, d in zip(params[len(params) - len(a.defaults):], a.defaults):
        bound.setdefault(p, d)
    for p, d in zip(a.kwonlyargs, a.kw_defaults):
        if d is not None:
            bound.setdefault(p.arg, d)
    missing = [p for p in params + [x.arg for x in a.kwonlyargs] if p not in bound]
    if missing:
        raise ExtractError("line %d: call of %s lacks %s" % (call.lineno, fdef.name, missing))
    return bound


def canonical_names(tree, fn):
    """{local name: canonical name} from the make_changes call(s) of fn ({} if fn has none)"""
    mc = [n for n in tree.body if isinstance(n, ast.FunctionDef) and n.name == "make_changes"]
    if not mc:
        return {}
    mc = mc[0]
    params = [x.arg for x in mc.args.args]
    if len(params) < 6:
        raise ExtractError("make_changes no longer takes the three local lists")
    canon = params[3:6]
    mapping = {}
    for c in ast.walk(fn):
        if isinstance(c, ast.Call) and ((isinstance(c.func, ast.Name) and c.func.id == "make_changes") or
                                        (isinstance(c.func, ast.Attribute) and c.func.attr == "make_changes")):
            b = bind_call(c, mc)
            for p in canon:
                if isinstance(b[p], ast.Name):
                    if mapping.setdefault(b[p].id, p) != p:
                        raise ExtractError("line %d: %s is passed to make_changes in two roles" % (c.lineno, b[p].id))
                else:
                    raise ExtractError("line %d: make_changes receives an expression, not a local list, as %s" % (c.lineno, p))
    back = {}
    for loc, p in mapping.items():
        if back.setdefault(p, loc) != loc:
            raise ExtractError("two different locals are passed to make_changes as %s" % p)
    return {loc: p for loc, p in mapping.items() if loc != p}


def rename_locals(fn, mapping):
    if not mapping:
        return fn
    used = {n.id for n in ast.walk(fn) if isinstance(n, ast.Name)} | {a.arg for a in ast.walk(fn) if isinstance(a, ast.arg)}
    for loc, p in mapping.items():
        if p in used:
            raise ExtractError("cannot rename %s to %s: the name is already in use in %s" % (loc, p, fn.name))
    nested_args = {a.arg for n in ast.walk(fn) if isinstance(n, (ast.FunctionDef, ast.Lambda)) and n is not fn for a in ast.walk(n.args)
                   if isinstance(a, ast.arg)}
    if nested_args & set(mapping):
        raise ExtractError("a nested function of %s has a parameter named like the local list %s" % (fn.name, sorted(nested_args & set(mapping))))
    return substitute([fn], {loc: ast.Name(id=p, ctx=ast.Load()) for loc, p in mapping.items()})[0]


# ---------------------------------------------------------------------------------------------------------------
# N2 assignments as (target, value) pairs
# ---------------------------------------------------------------------------------------------------------------

def assign_pairs(st):
    """[(target, value or None, augmented?)] of an Assign / AnnAssign / AugAssign; value None = not known element-wise"""
    out = []

    def pair(t, v):
        if isinstance(t, (ast.Tuple, ast.List)):
            if isinstance(v, (ast.Tuple, ast.List)) and len(v.elts) == len(t.elts) \
                    and not any(isinstance(x, ast.Starred) for x in list(t.elts) + list(v.elts)):
                for a, b in zip(t.elts, v.elts):
                    pair(a, b)
            else:
                for a in t.elts:
                    pair(a.value if isinstance(a, ast.Starred) else a, None)
        else:
            out.append((t, v, False))

    if isinstance(st, ast.Assign):
        for t in st.targets:
            pair(t, st.value)
    elif isinstance(st, ast.AnnAssign):
        if st.value is not None:
            pair(st.target, st.value)
    elif isinstance(st, ast.AugAssign):
        out.append((st.target, st.value, True))
    return out


# ---------------------------------------------------------------------------------------------------------------
# N3 / N4 tuple aliases and unrolling
# ---------------------------------------------------------------------------------------------------------------

def _literal_seq(node):
    if isinstance(node, (ast.Tuple, ast.List)) and not any(isinstance(e, ast.Starred) for e in node.elts):
        return list(node.elts)
    return None


def _loop_exits(body):
    """break/continue belonging to this loop level"""
    for s in body:
        if isinstance(s, (ast.Break, ast.Continue)):
            return True
        if isinstance(s, (ast.For, ast.While, ast.FunctionDef, ast.ClassDef)):
            if _loop_exits(getattr(s, "orelse", []) or []):
                return True
            continue
        for f in ("body", "orelse", "finalbody"):
            if _loop_exits(getattr(s, f, []) or []):
                return True
        for h in getattr(s, "handlers", []) or []:
            if _loop_exits(h.body):
                return True
    return False


def _try_unroll(st):
    if st.orelse or _loop_exits(st.body):
        return None
    it = st.iter
    if isinstance(it, ast.Call) and isinstance(it.func, ast.Name) and it.func.id == "zip" and it.args and not it.keywords:
        seqs = [_literal_seq(a) for a in it.args]
        if any(s is None for s in seqs) or len({len(s) for s in seqs}) != 1:
            return None
        rows = [ast.Tuple(elts=list(r), ctx=ast.Load()) for r in zip(*seqs)]
    else:
        rows = _literal_seq(it)
    if rows is None or not all(simple_expr(r) for r in rows):
        return None

    def bind(t, e, m):
        if isinstance(t, ast.Name):
            m[t.id] = e
            return True
        if isinstance(t, (ast.Tuple, ast.List)) and isinstance(e, (ast.Tuple, ast.List)) and len(t.elts) == len(e.elts):
            return all(bind(a, b, m) for a, b in zip(t.elts, e.elts))
        return False

    tnames = {x.id for x in ast.walk(st.target) if isinstance(x, ast.Name)}
    if tnames & set(stores(st.body)):
        return None
    out = []
    for r in rows:
        m = {}
        if not bind(st.target, r, m):
            return None
        out += substitute(st.body, m)
    return out


def unroll(stmts):
    """N3 + N4 on a statement list, recursively"""
    allst = stores(stmts)
    aliases = {}
    out = []
    for st in stmts:
        if isinstance(st, ast.Assign) and len(st.targets) == 1 and isinstance(st.targets[0], ast.Name):
            seq = _literal_seq(st.value)
            t = st.targets[0].id
            if seq and all(isinstance(e, ast.Name) for e in seq) and allst.count(t) == 1 \
                    and not ({e.id for e in seq} & set(allst)) and t not in aliases:
                aliases[t] = st.value
                continue                      # every later use in this list is replaced below
        if aliases:
            st = substitute([st], aliases)[0]
        if isinstance(st, ast.For):
            u = _try_unroll(st)
            if u is not None:
                out += unroll(u)
                continue
        st = copy.copy(st)
        for f in ("body", "orelse", "finalbody"):
            if getattr(st, f, None) and isinstance(getattr(st, f), list):
                setattr(st, f, unroll(getattr(st, f)))
        if getattr(st, "handlers", None):
            hs = []
            for h in st.handlers:
                h = copy.copy(h)
                h.body = unroll(h.body)
                hs.append(h)
            st.handlers = hs
        out.append(st)
    return out


# ---------------------------------------------------------------------------------------------------------------
# N5 helper inlining
# ---------------------------------------------------------------------------------------------------------------

def local_defs(tree, fn):
    """functions a call by plain name inside fn may reach: module level of the file, and defs nested in fn"""
    d = {n.name: n for n in tree.body if isinstance(n, ast.FunctionDef)}
    for n in ast.walk(fn):
        if isinstance(n, ast.FunctionDef) and n is not fn:
            d[n.name] = n
    return d


def _params(fdef):
    a = fdef.args
    return [x.arg for x in a.posonlyargs + a.args + a.kwonlyargs] + [x.arg for x in (a.vararg, a.kwarg) if x is not None]


def _body(fdef):
    b = fdef.body
    if b and isinstance(b[0], ast.Expr) and isinstance(b[0].value, ast.Constant) and isinstance(b[0].value.value, str):
        b = b[1:]
    return b


def may_change_state(fdef, defs, _seen=None):
    """can a call of fdef change an object reachable from its arguments or free variables (syntactic over-approximation)"""
    _seen = _seen or set()
    if fdef.name in _seen:
        return True
    _seen = _seen | {fdef.name}
    params = set(_params(fdef))
    own = set(stores(_body(fdef))) - params
    # own locals that may alias a parameter / outer object: bound to a bare name, subscript, attribute, a choice of those,
    # a loop / with / walrus target, or an element of an unpacked value
    alias = set()
    mod = ast.Module(body=_body(fdef), type_ignores=[])
    for n in ast.walk(mod):
        if isinstance(n, (ast.Global, ast.Nonlocal, ast.FunctionDef, ast.AsyncFunctionDef, ast.ClassDef, ast.Yield, ast.YieldFrom, ast.Await)):
            return True
        if isinstance(n, (ast.Assign, ast.AnnAssign)):
            for t, v, _ in assign_pairs(n):
                if isinstance(t, ast.Name) and (v is None or isinstance(v, (ast.Name, ast.Subscript, ast.Attribute, ast.IfExp, ast.BoolOp,
                                                                             ast.NamedExpr, ast.Starred))):
                    alias.add(t.id)
        elif isinstance(n, (ast.For, ast.AsyncFor)):
            alias.update(x.id for x in ast.walk(n.target) if isinstance(x, ast.Name))
        elif isinstance(n, (ast.With, ast.AsyncWith)):
            for it in n.items:
                if it.optional_vars is not None:
                    alias.update(x.id for x in ast.walk(it.optional_vars) if isinstance(x, ast.Name))
        elif isinstance(n, ast.NamedExpr):
            alias.add(n.target.id)
    outer = lambda r: r is not None and (r not in own or r in alias)
    for n in ast.walk(mod):
        if isinstance(n, ast.Subscript) and isinstance(n.ctx, (ast.Store, ast.Del)) and outer(root_name(n)):
            return True
        if isinstance(n, ast.Attribute) and isinstance(n.ctx, (ast.Store, ast.Del)) and outer(root_name(n)):
            return True
        if isinstance(n, ast.AugAssign) and outer(root_name(n.target)):
            return True
        if isinstance(n, ast.Call):
            if isinstance(n.func, ast.Attribute) and n.func.attr in MUTATORS and outer(root_name(n.func.value)):
                return True
            if isinstance(n.func, ast.Name) and n.func.id in defs and n.func.id not in own | params:
                if may_change_state(defs[n.func.id], defs, _seen):
                    return True
    return False


def _check_straight(body, fdef, strict, top=True):
    for k, s in enumerate(body):
        last = k == len(body) - 1
        if isinstance(s, (ast.Expr, ast.Assign, ast.AugAssign, ast.AnnAssign, ast.Pass)):
            continue
        if isinstance(s, ast.Return):
            if strict and not (last and top):
                raise ExtractError("helper %s (line %d) returns early; it cannot be inlined into a handler" % (fdef.name, s.lineno))
            continue
        if isinstance(s, ast.If):
            _check_straight(s.body, fdef, strict, False)
            _check_straight(s.orelse, fdef, strict, False)
            continue
        raise ExtractError("helper %s changes state but its body is not straight-line (%s at line %d): cannot inline" % (
            fdef.name, type(s).__name__, s.lineno))


class _Ret(ast.NodeTransformer):
    def visit_Return(self, n):
        if n.value is None:
            return ast.copy_location(ast.Pass(), n)
        return ast.copy_location(ast.Expr(value=n.value), n)


def _inline(call, fdef, defs, k, strict):
    bound = bind_call(call, fdef)
    body = _body(fdef)
    _check_straight(body, fdef, strict)
    params = set(_params(fdef))
    st = set(stores(body))
    if st & params:
        raise ExtractError("helper %s assigns to its parameter %s: cannot inline" % (fdef.name, sorted(st & params)))
    for n in ast.walk(ast.Module(body=body, type_ignores=[])):
        if isinstance(n, ast.Call) and isinstance(n.func, ast.Name) and n.func.id in defs and n.func.id not in st \
                and may_change_state(defs[n.func.id], defs):
            raise ExtractError("helper %s calls the state-changing helper %s: only one level is inlined" % (fdef.name, n.func.id))
    pre, mapping = [], {}
    for p in _params(fdef):
        a = bound[p]
        if simple_expr(a):
            mapping[p] = a
        else:
            tmp = "_inl%d_%s" % (k, p)
            pre.append(ast.copy_location(ast.Assign(targets=[ast.Name(id=tmp, ctx=ast.Store())], value=a), call))
            mapping[p] = ast.Name(id=tmp, ctx=ast.Load())
    for l in sorted(st):
        mapping[l] = ast.Name(id="_inl%d_%s" % (k, l), ctx=ast.Load())
    new = substitute(body, mapping)
    new = [_Ret().visit(s) for s in new]
    for s in pre + new:
        ast.fix_missing_locations(s)
    return pre + new


class Inliner(object):
    def __init__(self, defs, skip=()):
        self.defs = defs
        self.skip = set(skip)
        self.k = 0
        self.inlined = []           # (helper name, call line)

    def _calls(self, exprs):
        out = []
        for e in exprs:
            if e is None:
                continue
            for n in ast.walk(e):
                if isinstance(n, ast.Call) and isinstance(n.func, ast.Name) and n.func.id in self.defs \
                        and n.func.id not in self.skip and not getattr(n, "_inlined", False):
                    if may_change_state(self.defs[n.func.id], self.defs):
                        out.append(n)
        return out

    def run(self, stmts, strict=False):
        out = []
        for st in stmts:
            if isinstance(st, (ast.FunctionDef, ast.AsyncFunctionDef, ast.ClassDef)):
                out.append(st)
                continue
            if any(isinstance(getattr(st, f, None), list) for f in ("body", "orelse", "finalbody")) or getattr(st, "handlers", None):
                heads = [getattr(st, f, None) for f in ("test", "iter", "subject")] + \
                        [it.context_expr for it in getattr(st, "items", []) or []]
                heads = [h for h in heads if isinstance(h, ast.AST)]
                for c in self._calls(heads):
                    self.k += 1
                    out += _inline(c, self.defs[c.func.id], self.defs, self.k, strict)
                    c._inlined = True
                    self.inlined.append((c.func.id, c.lineno))
                st = copy.copy(st)
                for f in ("body", "orelse", "finalbody"):
                    if isinstance(getattr(st, f, None), list):
                        setattr(st, f, self.run(getattr(st, f), strict))
                if getattr(st, "handlers", None):
                    hs = []
                    for h in st.handlers:
                        h = copy.copy(h)
                        h.body = self.run(h.body, strict)
                        hs.append(h)
                    st.handlers = hs
                out.append(st)
                continue
            calls = self._calls([st])
            whole = isinstance(st, ast.Expr) and len(calls) == 1 and calls[0] is st.value
            for c in calls:
                self.k += 1
                out += _inline(c, self.defs[c.func.id], self.defs, self.k, strict)
                c._inlined = True
                self.inlined.append((c.func.id, c.lineno))
            if not whole:
                out.append(st)
        return out


# ---------------------------------------------------------------------------------------------------------------
# N8 the cut length
# ---------------------------------------------------------------------------------------------------------------

def _len_of(e, var=None):
    if isinstance(e, ast.Call) and isinstance(e.func, ast.Name) and e.func.id == "len" and len(e.args) == 1 and not e.keywords \
            and isinstance(e.args[0], ast.Name):
        return e.args[0].id
    return None


def common_length_of(e):
    """the set of lists whose common (minimum) length the expression denotes, or None"""
    n = _len_of(e)
    if n is not None:
        return {n}
    if not (isinstance(e, ast.Call) and isinstance(e.func, ast.Name) and e.func.id == "min" and not e.keywords and e.args):
        return None
    if len(e.args) > 1:
        ns = [_len_of(a) for a in e.args]
        return None if any(x is None for x in ns) else set(ns)
    a = e.args[0]
    if isinstance(a, (ast.Tuple, ast.List)):
        ns = [_len_of(x) for x in a.elts]
        return None if (not ns or any(x is None for x in ns)) else set(ns)
    if isinstance(a, (ast.GeneratorExp, ast.ListComp)) and len(a.generators) == 1:
        g = a.generators[0]
        seq = _literal_seq(g.iter)
        if g.ifs or g.is_async or not isinstance(g.target, ast.Name) or not seq or not all(isinstance(x, ast.Name) for x in seq):
            return None
        if _len_of(a.elt) != g.target.id:
            return None
        return {x.id for x in seq}
    if isinstance(a, ast.Call) and isinstance(a.func, ast.Name) and a.func.id == "map" and len(a.args) == 2 and not a.keywords \
            and isinstance(a.args[0], ast.Name) and a.args[0].id == "len":
        seq = _literal_seq(a.args[1])
        if seq and all(isinstance(x, ast.Name) for x in seq):
            return {x.id for x in seq}
    return None


def while_pop_trunc(st):
    """`while len(L) > n: L.pop()` -> (L, n expr)"""
    if not isinstance(st, ast.While) or st.orelse or len(st.body) != 1:
        return None
    t = st.test
    if not (isinstance(t, ast.Compare) and len(t.ops) == 1):
        return None
    if isinstance(t.ops[0], ast.Gt):
        l, n = _len_of(t.left), t.comparators[0]
    elif isinstance(t.ops[0], ast.Lt):
        l, n = _len_of(t.comparators[0]), t.left
    else:
        return None
    b = st.body[0]
    if l is None or not (isinstance(b, ast.Expr) and isinstance(b.value, ast.Call) and isinstance(b.value.func, ast.Attribute)
                         and b.value.func.attr == "pop" and not b.value.args and not b.value.keywords
                         and isinstance(b.value.func.value, ast.Name) and b.value.func.value.id == l):
        return None
    return l, n
