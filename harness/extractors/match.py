"""Generated/Match.lean: the guard of match.py on the loaded chain (boolean AST), and the constants/relations of the
zero-snapping and code-length statements of match.main; the statement order (nll test < nparams==0 < guard < conversion < Fisher test),
where the conversion is the `try: p, fish = simplifier.convert_params(...)` block or an `if <chain empty>: p = ...; fish = ... else: ...; try:
...convert_params...` split (`convShortcutOnEmptyChain`); and the ALIAS table `snapPaths` (one entry per array written in place inside the
loop and origin reaching the write, `snapTargetFresh` = fresh row-local array; rules in _norm_c05.py) that
`ESR.C05.rows_do_not_share_state` decides.  Fail closed on any shape not listed here."""
import ast
from fractions import Fraction
import extract
from extract import ExtractError, lstr
from extractors import _norm_c05

extract.MODELLED += [
    ("esr/fitting/match.py", None, "main"),
    ("esr/generation/simplifier.py", None, "convert_params"),
    ("esr/generation/simplifier.py", None, "load_subs"),
]

REL = "esr/fitting/match.py"
CHAIN = "all_inv_subs_proc[i]"


def _is_inf_continue(body):
    return (len(body) == 2 and isinstance(body[0], ast.Assign) and ast.unparse(body[0]) == "codelen[i] = np.inf"
            and isinstance(body[1], ast.Continue))


def _gen_over_chain(call, fname):
    """any(<elt> for s in CHAIN) / all(...) -> (var name, elt) or None"""
    if not (isinstance(call, ast.Call) and isinstance(call.func, ast.Name) and call.func.id == fname
            and len(call.args) == 1 and not call.keywords and isinstance(call.args[0], (ast.GeneratorExp, ast.ListComp))):
        return None
    g = call.args[0]
    if len(g.generators) != 1 or g.generators[0].ifs or g.generators[0].is_async:
        return None
    c = g.generators[0]
    if not (isinstance(c.target, ast.Name) and ast.unparse(c.iter) == CHAIN):
        return None
    return c.target.id, g.elt


def _is_dict_test(e, var):
    """isinstance(var, dict)  (var a Name or the chain expression)"""
    return (isinstance(e, ast.Call) and isinstance(e.func, ast.Name) and e.func.id == "isinstance" and len(e.args) == 2
            and not e.keywords and ast.unparse(e.args[0]) == var and ast.unparse(e.args[1]) == "dict")


def _bexp(e):
    """Python test over the loaded chain -> Lean BExp text.  Unknown shapes raise."""
    if isinstance(e, ast.BoolOp):
        parts = [_bexp(v) for v in e.values]
        k = ".and" if isinstance(e.op, ast.And) else ".or"
        out = parts[-1]
        for p in reversed(parts[:-1]):
            out = "(%s %s %s)" % (k, p, out)
        return out
    if isinstance(e, ast.UnaryOp) and isinstance(e.op, ast.Not):
        return "(.not %s)" % _bexp(e.operand)
    if isinstance(e, ast.Constant) and isinstance(e.value, bool):
        return ".tt" if e.value else ".ff"
    src = ast.unparse(e)
    if src in ("len(%s) > 0" % CHAIN, "len(%s) != 0" % CHAIN, "len(%s) >= 1" % CHAIN, "0 < len(%s)" % CHAIN):
        return "(.atom .lenPos)"
    if src in ("len(%s) == 0" % CHAIN,):
        return "(.not (.atom .lenPos))"
    if _is_dict_test(e, CHAIN):
        return "(.atom .chainIsDict)"
    g = _gen_over_chain(e, "any")
    if g is not None:
        var, elt = g
        if isinstance(elt, ast.UnaryOp) and isinstance(elt.op, ast.Not) and _is_dict_test(elt.operand, var):
            return "(.atom .anyEntryNotDict)"
        if _is_dict_test(elt, var):
            return "(.atom .anyEntryDict)"
    g = _gen_over_chain(e, "all")
    if g is not None:
        var, elt = g
        if _is_dict_test(elt, var):
            return "(.not (.atom .anyEntryNotDict))"
        if isinstance(elt, ast.UnaryOp) and isinstance(elt.op, ast.Not) and _is_dict_test(elt.operand, var):
            return "(.not (.atom .anyEntryDict))"
    raise ExtractError("match.py guard: test not recognised: %s (line %d)" % (src, e.lineno))


def _frac(node, what):
    try:
        v = ast.literal_eval(node)
    except Exception:
        raise ExtractError("%s: constant not a literal: %s" % (what, ast.unparse(node)))
    if isinstance(v, bool) or not isinstance(v, (int, float)) or v != v or v in (float("inf"), float("-inf")) or v < 0:
        raise ExtractError("%s: constant %r not a non-negative number" % (what, v))
    f = Fraction(v)
    return "(%d, %d)" % (f.numerator, f.denominator)


def _codelen_consts(node):
    """codelen[i] = -k / A * math.log(B) + np.sum(C * np.log(fish) + np.log(abs(np.array(p))))  -> (A, B, C)"""
    ok = (isinstance(node, ast.Assign) and len(node.targets) == 1 and ast.unparse(node.targets[0]) == "codelen[i]"
          and isinstance(node.value, ast.BinOp) and isinstance(node.value.op, ast.Add))
    if not ok:
        return None
    l, r = node.value.left, node.value.right
    # l = (-k / A) * math.log(B)
    if not (isinstance(l, ast.BinOp) and isinstance(l.op, ast.Mult) and isinstance(l.left, ast.BinOp) and isinstance(l.left.op, ast.Div)
            and ast.unparse(l.left.left) == "-k" and isinstance(l.right, ast.Call) and ast.unparse(l.right.func) == "math.log"
            and len(l.right.args) == 1):
        raise ExtractError("match.py codelen: first summand not `-k/A*math.log(B)`: %s (line %d)" % (ast.unparse(l), node.lineno))
    if not (isinstance(r, ast.Call) and ast.unparse(r.func) == "np.sum" and len(r.args) == 1 and isinstance(r.args[0], ast.BinOp)
            and isinstance(r.args[0].op, ast.Add)):
        raise ExtractError("match.py codelen: second summand not np.sum(_ + _): %s (line %d)" % (ast.unparse(r), node.lineno))
    s1, s2 = r.args[0].left, r.args[0].right
    if not (isinstance(s1, ast.BinOp) and isinstance(s1.op, ast.Mult) and ast.unparse(s1.right) == "np.log(fish)"):
        raise ExtractError("match.py codelen: Fisher term not `C*np.log(fish)`: %s (line %d)" % (ast.unparse(s1), node.lineno))
    if ast.unparse(s2) != "np.log(abs(np.array(p)))":
        raise ExtractError("match.py codelen: parameter term not `np.log(abs(np.array(p)))`: %s (line %d)" % (ast.unparse(s2), node.lineno))
    return (_frac(l.left.right, "codelen divisor"), _frac(l.right.args[0], "codelen log base"), _frac(s1.left, "codelen Fisher weight"))


def _find_convert(loop):
    """the statement of the loop body that produces `p, fish`: either the `try: p, fish = simplifier.convert_params(...)` block
    itself, or an `if <chain empty>: <plain assignments to p, fish> else: <plain assignments>; try: ...convert_params...` split
    (either orientation).  -> (index in loop.body, has_shortcut)"""
    hits = [(k, n) for k, n in enumerate(loop.body) if "simplifier.convert_params" in ast.unparse(n)]
    if len(hits) != 1:
        raise ExtractError("match.main: expected exactly one statement calling simplifier.convert_params in the loop body, found %d" % len(hits))
    k, n = hits[0]
    if isinstance(n, ast.Try):
        return k, False
    if isinstance(n, ast.If):
        t = _bexp(n.test)
        if t == "(.not (.atom .lenPos))":
            short, slow = n.body, n.orelse
        elif t == "(.atom .lenPos)":
            short, slow = n.orelse, n.body
        else:
            raise ExtractError("match.main: convert_params under a test that is not `chain empty / non-empty`: %s (line %d)" % (ast.unparse(n.test), n.lineno))
        bound = set()
        for st in short:
            if not (isinstance(st, ast.Assign) and len(st.targets) == 1 and isinstance(st.targets[0], ast.Name)):
                raise ExtractError("match.main: empty-chain shortcut holds a statement that is not a plain assignment to a name (line %d)" % st.lineno)
            bound.add(st.targets[0].id)
        if not {"p", "fish"} <= bound:
            raise ExtractError("match.main: empty-chain shortcut does not bind both `p` and `fish` (line %d)" % n.lineno)
        if not slow or not isinstance(slow[-1], ast.Try) or "simplifier.convert_params" not in ast.unparse(slow[-1]):
            raise ExtractError("match.main: non-empty-chain branch does not end in `try: ...convert_params...` (line %d)" % n.lineno)
        for st in slow[:-1]:
            if not (isinstance(st, ast.Assign) and len(st.targets) == 1 and isinstance(st.targets[0], ast.Name)):
                raise ExtractError("match.main: statement before the convert_params block is not a plain assignment (line %d)" % st.lineno)
        return k, True
    raise ExtractError("match.main: statement order not recognised (convert_params inside a %s, line %d)" % (type(n).__name__, n.lineno))


@extract.extractor("Match")
def gen(stage):
    fn = extract.find_def(extract._parse(stage, REL), "main")
    loop = None
    for n in fn.body:
        if isinstance(n, ast.For) and ast.unparse(n.iter) == "range(len(fcn_list_proc))":
            if loop is not None:
                raise ExtractError("match.main: more than one loop over fcn_list_proc")
            loop = n
    if loop is None:
        raise ExtractError("match.main: loop over fcn_list_proc not found")

    # ---- guard on the loaded chain, and the non-positive-Fisher test --------------------------------------------
    guards, fishtests = [], []
    for n in loop.body:
        if isinstance(n, ast.If) and _is_inf_continue(n.body) and not n.orelse:
            if CHAIN in ast.unparse(n.test):
                guards.append(n)
            elif "fish" in ast.unparse(n.test):
                fishtests.append(n)
            else:
                raise ExtractError("match.main: unexpected `codelen=inf; continue` guard: %s (line %d)" % (ast.unparse(n.test), n.lineno))
    if len(guards) != 1:
        raise ExtractError("match.main: expected exactly one guard on %s, found %d" % (CHAIN, len(guards)))
    g = guards[0]
    gtxt = _bexp(g.test)
    # the guard must sit between the nparams==0 test and the convert_params call (order of statements is modelled)
    order = [ast.unparse(n).split("\n")[0] for n in loop.body]
    try:
        i_np = next(k for k, s in enumerate(order) if s.startswith("if nparams == 0"))
        i_g = loop.body.index(g)
        i_cv, shortcut = _find_convert(loop)
        i_nl = next(k for k, s in enumerate(order) if s.startswith("if np.isnan(negloglike[index]) or np.isinf(negloglike[index])")
                    or s.startswith("if not np.isfinite(negloglike[index])"))
    except StopIteration:
        raise ExtractError("match.main: statement order not recognised (nll test / nparams==0 / guard / convert_params)")
    if not (i_nl < i_np < i_g < i_cv):
        raise ExtractError("match.main: guard is not between the nparams==0 test and the convert_params call")
    if len(fishtests) != 1 or ast.unparse(fishtests[0].test) not in ("np.sum(fish <= 0) > 0", "np.any(fish <= 0)"):
        raise ExtractError("match.main: non-positive Fisher test not recognised: %s" % [ast.unparse(t.test) for t in fishtests])
    if not (i_cv < loop.body.index(fishtests[0])):
        raise ExtractError("match.main: Fisher test before convert_params")

    # ---- constants --------------------------------------------------------------------------------------------
    delta = None; infb = None; cl = []; lts = set(); ges = set()
    for n in ast.walk(loop):
        if isinstance(n, ast.Call) and ast.unparse(n.func) == "np.sqrt" and len(n.args) == 1 and isinstance(n.args[0], ast.BinOp) \
                and isinstance(n.args[0].op, ast.Div) and ast.unparse(n.args[0].right) == "fish[m]":
            if delta is not None:
                raise ExtractError("match.main: two Delta definitions")
            delta = _frac(n.args[0].left, "Delta numerator")
        if isinstance(n, ast.Assign) and ast.unparse(n.targets[0]) == "fish[Nsteps < 1]":
            v = n.value
            if not (isinstance(v, ast.BinOp) and isinstance(v.op, ast.Div) and ast.unparse(v.right) == "p[Nsteps < 1] ** 2"):
                raise ExtractError("match.main: infinite-nll Fisher replacement not `K/p**2`: %s" % ast.unparse(v))
            infb = _frac(v.left, "infinite-nll numerator")
        if isinstance(n, ast.Assign):
            c = _codelen_consts(n) if ast.unparse(n.targets[0]) == "codelen[i]" and isinstance(n.value, ast.BinOp) else None
            if c is not None:
                cl.append(c)
        if isinstance(n, ast.Compare) and ast.unparse(n.left) == "Nsteps" and len(n.ops) == 1:
            k = _frac(n.comparators[0], "snap threshold")
            if isinstance(n.ops[0], ast.Lt):
                lts.add(k)
            elif isinstance(n.ops[0], ast.GtE):
                ges.add(k)
            else:
                raise ExtractError("match.main: relation on Nsteps not < or >= (line %d)" % n.lineno)
    if delta is None or infb is None:
        raise ExtractError("match.main: Delta / infinite-nll replacement statement not found")
    if len(cl) != 2 or cl[0] != cl[1]:
        raise ExtractError("match.main: expected two identical codelen formulas, found %r" % (cl,))
    if len(lts) != 1 or (ges and ges != lts):
        raise ExtractError("match.main: snapping thresholds disagree: < %r, >= %r" % (sorted(lts), sorted(ges)))

    out = extract.header("Match", ["%s:main (guard line %d, Fisher test line %d)" % (REL, g.lineno, fishtests[0].lineno)])
    out += ("/-- atoms of the guard on the loaded chain `%s` -/\n"
            "inductive Atom where | lenPos | chainIsDict | anyEntryNotDict | anyEntryDict deriving Repr, DecidableEq\n"
            "inductive BExp where | atom (a : Atom) | not (b : BExp) | and (a b : BExp) | or (a b : BExp) | tt | ff deriving Repr, DecidableEq\n\n" % CHAIN)
    out += "/-- %s:%d  `if %s: codelen[i] = np.inf; continue` -/\n" % (REL, g.lineno, ast.unparse(g.test))
    out += "def guard : BExp := %s\n" % gtxt
    out += "def guardSrc : String := %s\n\n" % lstr(ast.unparse(g.test))
    out += "/-- constants as exact (numerator, denominator) of the Python float literals -/\n"
    out += "def deltaNum : Nat × Nat := %s      -- np.sqrt(K/fish[m])\n" % delta
    out += "def infNllNum : Nat × Nat := %s    -- fish[Nsteps<1] = K/p**2\n" % infb
    out += "def codelenDiv : Nat × Nat := %s   -- -k/A\n" % cl[0][0]
    out += "def codelenLogArg : Nat × Nat := %s -- math.log(B)\n" % cl[0][1]
    out += "def fisherWeight : Nat × Nat := %s -- C*np.log(fish)\n" % cl[0][2]
    out += "def snapThreshold : Nat × Nat := %s -- Nsteps < T\n" % sorted(lts)[0]
    out += "/-- `np.sum(fish<=0)>0` : a transformed Fisher entry ≤ 0 gives codelen = inf -/\n"
    out += "def fishTestIsLeZero : Bool := true\n"
    out += ("/-- `if len(chain) == 0: p, fish = <read from the tables> else: try: convert_params` split present (the values of the shortcut are\n"
            "not in this table: `RowIn.conv` is an input of the model either way and the correspondence compares it with the real rows) -/\n")
    out += "def convShortcutOnEmptyChain : Bool := %s\n\n" % ("true" if shortcut else "false")
    # ---- alias fact: every array written in place inside the loop is fresh (row-local) on every path ------------------
    rows, own = _norm_c05.analyse(fn, loop)
    if not any(t == "p" for t, _, _, _ in rows):
        raise ExtractError("match.main: no in-place write to the parameter vector `p` found (zero-snapping statement not recognised)")
    out += ("/-- One entry per (array written in place inside the per-row loop, origin that can reach the write).  `snapTargetFresh` = the\n"
            "origin is a new, row-local array (copy / constructor / arithmetic / result of convert_params), not (a view of) a table that\n"
            "outlives the row (`params_meas`, `all_fish`, ...).  Writes into the row's own output slot (`codelen[i]`, `params[i,:]`, ...: %d\n"
            "statements) are not listed.  Rules: harness/extractors/_norm_c05.py. -/\n" % own)
    out += "structure SnapPath where\n  target : String\n  origin : String\n  snapTargetFresh : Bool\n  deriving Repr, DecidableEq\n\n"
    out += "def snapPaths : List SnapPath := [\n"
    out += "\n".join("  ⟨%s, %s, %s⟩%s   -- line%s %s" % (lstr(t), lstr(d), "true" if f else "false", "," if j + 1 < len(rows) else "",
                                                           "s" if len(ls) > 1 else "", ", ".join(map(str, ls)))
                     for j, (t, d, f, ls) in enumerate(rows))
    out += "\n]\n"
    out += "/-- no row of the loop can write into a table that a later row reads -/\n"
    out += "def snapTargetsFresh : Bool := snapPaths.all (·.snapTargetFresh)\n"
    out += extract.footer("Match")
    return out
