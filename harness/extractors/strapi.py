"""Generated/StrApi.lean: is the formula-string API (fit_single.fit_from_string / string_to_aifeyn) a function of its arguments?

(i)  `cells`: every (entry point, cell) pair of the in-memory cells that survive a call (module globals, function / class
     attributes, functools memos, mutable default arguments: the table of harness/extractors/memstate.py, reused, restricted to
     the two entry points; kind `process` - numpy's RNG, SIGALRM, sympy's cache: C16's subject - left out), with what the
     entry point does to it, what the labels entry point it delegates to (single_function / tree_to_aifeyn) does to it, and
     `guarded`: every use of the cell in fit_single.py's own code is a membership test, a store of a freshly built list, or a
     read that is copied on the spot.
(ii) `lists`: every name the entry point stores into in place (`name[j] = ...`, `name.append(..)`, ...) - the label list the
     relabelling / replace_floats pass rewrites - with where every binding of that name comes from; `callLocal` iff on every
     path it is a list created in this same call: the result of `.to_list()`, a comprehension, a display, `[..] * n`,
     `list(..)`, `sorted(..)`, `.copy()`, `[:]`, `copy.copy/deepcopy(..)`, another such local, or the return value of a helper
     of the same module all of whose returns are such; never a parameter, never an object reachable from a cell (a subscript /
     attribute / `.get()` of a module-level name, the return value of a memoised helper), never a local that is also stored
     into a cell.
Anything the analysis cannot classify raises ExtractError (fail closed; C18 then falls back on the committed table with the
call-sequence histories as the tie).  Trusted reading: label lists hold strings (a shallow copy is a copy).
"""
import ast
import extract
from extract import ExtractError, lstr
from extractors import memstate

REL = "esr/fitting/fit_single.py"
ENTRIES = [("fit_from_string", "single_function"), ("string_to_aifeyn", "tree_to_aifeyn")]
FRESH_CALLS = {"list", "sorted"}
FRESH_METHODS = {"to_list", "copy", "tolist"}
FRESH_QUAL = {("copy", "copy"), ("copy", "deepcopy")}
MUTATORS = {"append", "extend", "insert", "pop", "remove", "sort", "reverse", "clear", "__setitem__", "__delitem__"}
STORERS = {"append", "extend", "insert", "setdefault", "update", "add", "__setitem__"}


def _base(n):
    while isinstance(n, (ast.Subscript, ast.Attribute)):
        n = n.value
    return n.id if isinstance(n, ast.Name) else None


class Fn(object):
    def __init__(self, mod, node):
        self.mod, self.node = mod, node
        a = node.args
        self.params = [x.arg for x in a.posonlyargs + a.args + a.kwonlyargs] + ([a.vararg.arg] if a.vararg else []) + ([a.kwarg.arg] if a.kwarg else [])
        self.globals = set()
        self.binds = {}                     # local name -> [rhs node | "param" | "other:<what>"]
        for p in self.params:
            self.binds.setdefault(p, []).append("param")
        for n in ast.walk(node):
            if isinstance(n, (ast.Global, ast.Nonlocal)):
                self.globals.update(n.names)
            elif isinstance(n, ast.Assign):
                for t in n.targets:
                    self._bind(t, n.value)
            elif isinstance(n, ast.AnnAssign) and n.value is not None:
                self._bind(n.target, n.value)
            elif isinstance(n, ast.AugAssign) and isinstance(n.target, ast.Name):
                self.binds.setdefault(n.target.id, []).append("other:augmented assignment")
            elif isinstance(n, (ast.For, ast.AsyncFor)):
                self._bind(n.target, None)
            elif isinstance(n, ast.With):
                for it in n.items:
                    if it.optional_vars is not None:
                        self._bind(it.optional_vars, None)
            elif isinstance(n, ast.NamedExpr):
                self._bind(n.target, n.value)
            elif isinstance(n, (ast.FunctionDef, ast.Lambda, ast.ClassDef)) and n is not node:
                raise ExtractError("%s: nested definition at line %d not analysed" % (node.name, n.lineno))

    def _bind(self, t, v):
        if isinstance(t, ast.Name):
            self.binds.setdefault(t.id, []).append(v if v is not None else "other:loop/with target")
        elif isinstance(t, (ast.Tuple, ast.List)):
            for e in t.elts:
                self._bind(e, None if not (isinstance(v, (ast.Tuple, ast.List)) and len(v.elts) == len(t.elts)) else v.elts[t.elts.index(e)])
        # subscript / attribute targets bind no name

    def is_local(self, name):
        return name in self.binds and name not in self.globals

    def rewritten(self):
        out = []
        for n in ast.walk(self.node):
            nm = None
            if isinstance(n, ast.Subscript) and isinstance(n.ctx, (ast.Store, ast.Del)) and isinstance(n.value, ast.Name):
                nm = n.value.id
            elif isinstance(n, ast.Call) and isinstance(n.func, ast.Attribute) and n.func.attr in MUTATORS and isinstance(n.func.value, ast.Name):
                nm = n.func.value.id
            elif isinstance(n, ast.AugAssign) and isinstance(n.target, ast.Name) and isinstance(n.op, (ast.Add, ast.Mult)):
                nm = n.target.id                     # `labels += [...]` extends in place
            if nm is not None and nm not in out:
                out.append(nm)
        return out

    def stored_into_state(self, name):
        """is the local `name` (the object, not a copy) stored into something that outlives the call?"""
        def holds(v):
            return (isinstance(v, ast.Name) and v.id == name) or (isinstance(v, (ast.Tuple, ast.List, ast.Set)) and any(holds(e) for e in v.elts)) \
                or (isinstance(v, ast.Dict) and any(holds(e) for e in v.values if e is not None))
        for n in ast.walk(self.node):
            if isinstance(n, ast.Assign) and holds(n.value):
                for t in n.targets:
                    if isinstance(t, ast.Name) and (t.id in self.globals):
                        return "global %s (line %d)" % (t.id, n.lineno)
                    if isinstance(t, (ast.Subscript, ast.Attribute)):
                        b = _base(t)
                        if b is None or not self.is_local(b) or "param" in self.binds.get(b, []):
                            return "%s (line %d)" % (ast.unparse(t), n.lineno)
            if isinstance(n, ast.Call) and isinstance(n.func, ast.Attribute) and n.func.attr in STORERS and any(holds(a) for a in n.args + [k.value for k in n.keywords]):
                b = _base(n.func.value)
                if b is None or not self.is_local(b) or "param" in self.binds.get(b, []):
                    return "%s (line %d)" % (ast.unparse(n.func), n.lineno)
        return None


class Mod(object):
    def __init__(self, stage):
        self.tree = extract._parse(stage, REL)
        self.funcs = {n.name: n for n in self.tree.body if isinstance(n, ast.FunctionDef)}
        self.module_names = set()
        for n in self.tree.body:
            if isinstance(n, (ast.Assign, ast.AnnAssign, ast.AugAssign)):
                for t in (n.targets if isinstance(n, ast.Assign) else [n.target]):
                    for m in ast.walk(t):
                        if isinstance(m, ast.Name):
                            self.module_names.add(m.id)
        self._fn = {}

    def fn(self, name):
        if name not in self._fn:
            self._fn[name] = Fn(self, self.funcs[name])
        return self._fn[name]

    def memoised(self, name):
        for d in self.funcs[name].decorator_list:
            txt = ast.unparse(d.func if isinstance(d, ast.Call) else d)
            if txt in memstate.MEMO_DECORATORS:
                return txt
            raise ExtractError("decorator %s of %s not known" % (txt, name))
        return None

    # ---- where does a value come from? -> ("local", why) | ("shared", why) | ExtractError ----------------------------
    def origin_expr(self, F, v, depth=0, seen=()):
        if depth > 6:
            raise ExtractError("%s: origin of %s too deep" % (F.node.name, ast.unparse(v)))
        if isinstance(v, (ast.ListComp, ast.List)):
            return "local", "display/comprehension"
        if isinstance(v, ast.BinOp) and isinstance(v.op, (ast.Mult, ast.Add)):
            sides = [self.origin_expr(F, s, depth + 1, seen) for s in (v.left, v.right) if not isinstance(s, (ast.Constant, ast.Call)) or isinstance(s, ast.List)]
            if isinstance(v.op, ast.Mult) and (isinstance(v.left, ast.List) or isinstance(v.right, ast.List)):
                return "local", "[..] * n"
            if isinstance(v.op, ast.Add):
                return "local", "concatenation"            # list + list builds a new list
            raise ExtractError("%s: origin of %s not recognised" % (F.node.name, ast.unparse(v)))
        if isinstance(v, ast.Subscript) and isinstance(v.slice, ast.Slice):
            return "local", "slice copy"
        if isinstance(v, ast.Call):
            f = v.func
            if isinstance(f, ast.Name) and f.id in FRESH_CALLS and not F.is_local(f.id):
                return "local", "%s(..)" % f.id
            if isinstance(f, ast.Attribute) and isinstance(f.value, ast.Name) and (f.value.id, f.attr) in FRESH_QUAL:
                return "local", "%s.%s(..)" % (f.value.id, f.attr)
            if isinstance(f, ast.Attribute) and f.attr in FRESH_METHODS:
                return "local", ".%s()" % f.attr
            if isinstance(f, ast.Name) and f.id in self.funcs and not F.is_local(f.id):
                memo = self.memoised(f.id)
                if memo:
                    return "shared", "return value of %s, memoised by %s (the cached object itself)" % (f.id, memo)
                H = self.fn(f.id)
                rets = [n for n in ast.walk(H.node) if isinstance(n, ast.Return)]
                if not rets:
                    raise ExtractError("%s returns nothing" % f.id)
                whys = []
                for r in rets:
                    if r.value is None:
                        raise ExtractError("%s: bare return" % f.id)
                    k, why = self.origin_expr(H, r.value, depth + 1, seen)
                    if k != "local":
                        return k, "%s() returns %s: %s" % (f.id, ast.unparse(r.value), why)
                    whys.append(why)
                return "local", "%s() returns %s" % (f.id, " / ".join(sorted(set(whys))))
            raise ExtractError("%s: origin of %s not recognised" % (F.node.name, ast.unparse(v)))
        if isinstance(v, ast.IfExp):
            a, b = self.origin_expr(F, v.body, depth + 1, seen), self.origin_expr(F, v.orelse, depth + 1, seen)
            return a if a[0] != "local" else b
        if isinstance(v, ast.Name):
            return self.origin_name(F, v.id, depth + 1, seen)
        if isinstance(v, (ast.Subscript, ast.Attribute)):
            b = _base(v)
            if b is not None and (not F.is_local(b)) and (b in self.module_names or b in F.globals):
                return "shared", "%s: an object held by the module-level cell %s" % (ast.unparse(v), b)
            if b is not None and "param" in F.binds.get(b, []):
                return "shared", "%s: reachable from the argument %s" % (ast.unparse(v), b)
            raise ExtractError("%s: origin of %s not recognised" % (F.node.name, ast.unparse(v)))
        raise ExtractError("%s: origin of %s not recognised" % (F.node.name, ast.unparse(v)))

    def origin_name(self, F, name, depth=0, seen=()):
        if (F.node.name, name) in seen:
            return "local", "cyclic alias"
        seen = seen + ((F.node.name, name),)
        if not F.is_local(name):
            if name in self.module_names or name in F.globals:
                return "shared", "the module-level cell %s" % name
            raise ExtractError("%s: name %s is neither local nor a module-level cell" % (F.node.name, name))
        st = F.stored_into_state(name)
        if st:
            return "shared", "%s is also stored into %s" % (name, st)
        whys = []
        for b in F.binds[name]:
            if b == "param":
                return "shared", "the argument %s" % name
            if isinstance(b, str):
                raise ExtractError("%s: binding of %s (%s) not analysed" % (F.node.name, name, b))
            k, why = self.origin_expr(F, b, depth + 1, seen)
            if k != "local":
                return k, why
            whys.append(why)
        return "local", " / ".join(sorted(set(whys)))

    # ---- is every use of a module-level cell of this module copy-guarded? ----------------------------------------------
    def reachable(self, entry):
        todo, out = [entry], []
        while todo:
            f = todo.pop()
            if f in out:
                continue
            out.append(f)
            for n in ast.walk(self.funcs[f]):
                if isinstance(n, ast.Call) and isinstance(n.func, ast.Name) and n.func.id in self.funcs:
                    todo.append(n.func.id)
        return out

    def guarded(self, entry, deleg, cellname):
        """every occurrence of `cellname` in the string API's own functions (the entry and the helpers it calls, not the labels
        entry point it delegates to) is a membership test, a store of a fresh list, or a read copied on the spot"""
        own = [f for f in self.reachable(entry) if f not in self.reachable(deleg)]
        for f in own:
            F = self.fn(f)
            parents = {}
            for n in ast.walk(F.node):
                for c in ast.iter_child_nodes(n):
                    parents[c] = n
            for n in ast.walk(F.node):
                if not (isinstance(n, ast.Name) and n.id == cellname) or F.is_local(cellname) and cellname not in F.globals:
                    continue
                p = parents.get(n)
                if isinstance(p, ast.Compare) and n in p.comparators and all(isinstance(o, (ast.In, ast.NotIn)) for o in p.ops):
                    continue
                if isinstance(p, ast.Subscript) and p.value is n:
                    pp = parents.get(p)
                    if isinstance(p.ctx, ast.Store) and isinstance(pp, ast.Assign) and not isinstance(pp.value, ast.Name):
                        try:
                            if self.origin_expr(F, pp.value)[0] == "local":
                                continue
                        except ExtractError:
                            pass
                        return False
                    if isinstance(p.ctx, ast.Load):
                        if isinstance(pp, ast.Call) and p in pp.args and len(pp.args) == 1 and (
                                (isinstance(pp.func, ast.Name) and pp.func.id in FRESH_CALLS) or
                                (isinstance(pp.func, ast.Attribute) and isinstance(pp.func.value, ast.Name) and (pp.func.value.id, pp.func.attr) in FRESH_QUAL)):
                            continue
                        if isinstance(pp, ast.Attribute) and pp.attr == "copy" and isinstance(parents.get(pp), ast.Call):
                            continue
                        if isinstance(pp, ast.Subscript) and isinstance(pp.slice, ast.Slice) and isinstance(pp.ctx, ast.Load):
                            continue
                    return False
                return False
        return True


def analyse(stage):
    tb = memstate.analyse(stage)
    labels = [l for l, _ in tb["entries"]]
    M = Mod(stage)
    cells, lists = [], []
    for entry, deleg in ENTRIES:
        if entry not in labels or deleg not in labels:
            raise ExtractError("memstate has no entry %s / %s" % (entry, deleg))
        if entry not in M.funcs:
            raise ExtractError("def %s not found in %s" % (entry, REL))
        ie, idg = labels.index(entry), labels.index(deleg)
        for cid, c in sorted(tb["cells"].items()):
            if c["kind"] == "process" or c["acc"][ie] == "none":
                continue
            g = False
            if c["acc"][ie] in ("reset", "rmw") and c["acc"][idg] not in ("reset", "rmw"):
                pre = "esr.fitting.fit_single."
                if cid.startswith(pre) and c["kind"] == "module" and "." not in cid[len(pre):] and "[" not in cid:
                    g = M.guarded(entry, deleg, cid[len(pre):])
                # a cell of another module, a memo, a default argument, a function attribute: not decided here -> not guarded
            cells.append((entry, cid, c["kind"], c["acc"][ie], c["acc"][idg], g))
        F = M.fn(entry)
        rew = F.rewritten()
        if not rew:
            raise ExtractError("%s stores into no list: the relabelling pass was not found" % entry)
        for nm in rew:
            k, why = M.origin_name(F, nm)
            lists.append((entry, nm, why, k == "local"))
    return dict(cells=cells, lists=lists, files=tb["files"])


@extract.extractor("StrApi")
def gen(stage):
    tb = analyse(stage)
    t = "import ESRVerif.Model.ApiState\n" + extract.header("StrApi", [REL] + [f for f in tb["files"] if f != REL])
    t += "open ESR.ApiState\n\n"
    t += ("/-- every cell that survives a call and that a string entry point touches (kind `process` left to C16): what the entry does to it,\n"
          "what the labels entry point it delegates to does to it, and whether every use in the string API's own code is copy-guarded -/\n")
    t += "def cells : List CellRow := [\n"
    t += ",\n".join("  ⟨%s, %s, %s, .%s, .%s, %s⟩" % (lstr(e), lstr(c), lstr(k), a, d, "true" if g else "false") for e, c, k, a, d, g in tb["cells"])
    t += "\n  ]\n\n"
    t += "/-- every list a string entry point stores into in place, and where every binding of that name comes from -/\n"
    t += "def lists : List ListRow := [\n"
    t += ",\n".join("  ⟨%s, %s, %s, %s⟩" % (lstr(e), lstr(n), lstr(w), "true" if ok else "false") for e, n, w, ok in tb["lists"])
    t += "\n  ]\n"
    return t + extract.footer("StrApi")


extract.MODELLED.append((REL, None, "fit_from_string"))
extract.MODELLED.append((REL, None, "string_to_aifeyn"))
