"""Generated/MemState.lean: every in-memory cell that survives between two ESR calls in one process, and who touches it.

Cells (ids shared with harness/workers/memsnap.py, the dynamic side):
  <module>.<name>                 module-level name (kind `module`; `mutable` from its initialiser)
  <module>.<name>[a<i>]           the a0,a1,.. keys of a module-level dict written with "a%i" % i subscripts (sympy_locs)
  <module>.<qualname>(<param>)    default argument whose value is built by a call or a list/dict/set display (kind `default`)
  <module>.<qualname>.<attr>      function attribute / class attribute (kinds `funcattr`, `class`)
  <module>.<qualname>:cache       functools.lru_cache/cache memo of a function (kind `memo`)
  np.random, random, signal.<SIG>, signal.alarm, warnings.filters, os.environ, cwd, sys.recursionlimit, np.errstate,
  np.printoptions, sympy.printing, sympy.cache, gc.settings, atexit, matplotlib.pyplot, ext:<module>.<attr>   (kind `process`)

For every entry point the body is walked in evaluation order with every esr callee summarised (memoised per
(function, which cells its parameters alias)); methods called on unknown receivers resolve to every esr method of that name,
functions passed as values count as called.  Per (entry, cell) we keep
  rf  a read (or a partial update: subscript/attribute store, append, RNG draw, ...) may happen while the cell has not been
      completely re-initialised by a statement that dominates it in this same call
  wr  some write that can change the cell;   iw  only writes of literal constants identical to the import-time initialisation
and emit  none | ro | idem | reset (wr, not rf) | rmw (wr and rf).
Fail closed (ExtractError): initialiser / decorator / method of a mutable cell / escaping use / process-wide setter not known.

Source shapes read as the same thing (trusted; each keeps the Python meaning):
  * one level of helper inlining before the walk (private module-level helpers and closures with a straight-line body:
    extractors/_norm_c16.py, A) -- so `locs = _locs_with_params(...)` is the code of the helper, in place;
  * a function whose `return` hands back a plain name (or `x if c else y` of plain names) that aliases a mutable cell: the caller's
    `t = f(...)` makes `t` a local alias of that cell exactly like `t = cell` (Summary.ret).  Any other way out (inside a tuple,
    a list, an argument of an unknown callee, a function used as a value) still raises;
  * `a, b = x, y` with displays of equal length on both sides aliases pairwise (all right-hand sides are evaluated first);
  * a store into the a<i> keys of a dict cell in every spelling of _norm_c16 (C): `d["a%i" % i] = v` in an index loop,
    `for name, v in zip(names, vals): d[name] = v`, `for i, v in enumerate(vals): d[f"a{i}"] = v`, `d[names[i]] = v`,
    "a" + str(i), "a{}".format(i), `d.update(zip(names, vals))`, `d.update({"a%i" % i: ... for ...})`; `names` must be a list
    every binding of which builds a<i> strings.  Any other `.update(...)` / subscript store stays a partial update (rmw).
"""
import ast, glob, os, re
import extract
from extract import ExtractError, lstr
from extractors import _norm_c16 as norm

ENTRIES = [
    # label, module, function or class.* pattern, part of the pipeline the property speaks about
    ("generation", "esr.generation.duplicate_checker", "main", True),
    ("likelihood", "esr.fitting.likelihood", "*.__init__", True),
    ("fit", "esr.fitting.test_all", "main", True),
    ("fisher", "esr.fitting.test_all_Fisher", "main", True),
    ("match", "esr.fitting.match", "main", True),
    ("combine", "esr.fitting.combine_DL", "main", True),
    ("single_function", "esr.fitting.fit_single", "single_function", False),
    ("fit_from_string", "esr.fitting.fit_single", "fit_from_string", False),
    ("tree_to_aifeyn", "esr.fitting.fit_single", "tree_to_aifeyn", False),
    ("string_to_aifeyn", "esr.fitting.fit_single", "string_to_aifeyn", False),
]
# the callable the dynamic side wraps for each entry label
ENTRY_CALLABLE = {"generation": "esr.generation.duplicate_checker.main", "likelihood": "Likelihood()", "fit": "esr.fitting.test_all.main",
                  "fisher": "esr.fitting.test_all_Fisher.main", "match": "esr.fitting.match.main", "combine": "esr.fitting.combine_DL.main",
                  "single_function": "esr.fitting.fit_single.single_function", "fit_from_string": "esr.fitting.fit_single.fit_from_string",
                  "tree_to_aifeyn": "esr.fitting.fit_single.tree_to_aifeyn", "string_to_aifeyn": "esr.fitting.fit_single.string_to_aifeyn"}

SCOPE = ["esr/__init__.py", "esr/generation/*.py", "esr/fitting/*.py"]

MUTABLE_CTORS = {"dict": "dict", "list": "list", "set": "set", "bytearray": "list", "collections.OrderedDict": "dict", "collections.defaultdict": "dict",
                 "collections.deque": "list", "collections.Counter": "dict", "numpy.array": "ndarray", "numpy.zeros": "ndarray", "numpy.ones": "ndarray",
                 "numpy.empty": "ndarray", "numpy.full": "ndarray", "numpy.arange": "ndarray", "numpy.linspace": "ndarray", "numpy.asarray": "ndarray",
                 "numpy.random.RandomState": "rng", "numpy.random.default_rng": "rng", "numpy.random.Generator": "rng", "random.Random": "rng"}
MUTATORS = {"append", "extend", "insert", "pop", "popitem", "remove", "update", "setdefault", "add", "discard", "sort", "reverse", "fill", "resize",
            "put", "itemset", "move_to_end", "appendleft", "popleft", "rotate", "subtract", "difference_update", "intersection_update",
            "symmetric_difference_update", "__setitem__", "__delitem__", "setflags", "partition"}
RNG_DRAWS = {"shuffle", "permutation", "permuted", "choice", "uniform", "normal", "rand", "randn", "randint", "random", "random_sample", "sample",
             "standard_normal", "integers", "bytes", "multivariate_normal", "poisson", "exponential", "gamma", "beta", "binomial", "lognormal",
             "randrange", "gauss", "triangular", "laplace", "chisquare", "standard_t", "dirichlet", "ranf", "tomaxint", "random_integers", "betavariate",
             "choices", "getrandbits", "expovariate", "normalvariate", "lognormvariate", "vonmisesvariate", "gammavariate", "paretovariate", "weibullvariate"}
PURE_METHODS = {"get", "keys", "values", "items", "copy", "index", "count", "__contains__", "__getitem__", "__len__", "tolist", "sum", "mean", "min", "max",
                "any", "all", "astype", "reshape", "flatten", "ravel", "argsort", "argmin", "argmax", "get_state", "__iter__", "issubset", "issuperset",
                "union", "intersection", "difference", "isdisjoint", "most_common", "elements", "nonzero", "round", "dot", "transpose", "squeeze", "view"}
PURE_CALLEES = {"len", "list", "tuple", "sorted", "sum", "min", "max", "any", "all", "enumerate", "zip", "str", "repr", "print", "dict", "set", "frozenset",
                "isinstance", "bool", "iter", "reversed", "map", "filter", "type", "id", "hash", "range", "format", "next",
                "numpy.array", "numpy.asarray", "numpy.sum", "numpy.prod", "numpy.max", "numpy.min", "numpy.atleast_1d", "numpy.copy", "numpy.size",
                "numpy.shape", "numpy.mean", "numpy.any", "numpy.all", "numpy.concatenate", "copy.copy", "copy.deepcopy",
                "sympy.sympify", "sympy.parse_expr", "sympy.parsing.sympy_parser.parse_expr", "sympy.core.sympify.sympify", "sympy.S", "sympy.lambdify",
                "pprint.pprint", "pprint.pformat", "json.dumps", "pickle.dumps"}
FORBIDDEN_BUILTINS = {"globals", "exec", "setattr", "delattr", "__import__", "compile", "vars"}
OK_DECORATORS = {"contextlib.contextmanager", "contextmanager", "staticmethod", "classmethod", "property", "abc.abstractmethod", "abstractmethod",
                 "functools.wraps", "sympy.printing.printer.print_function"}
MEMO_DECORATORS = {"functools.lru_cache", "functools.cache", "functools.cached_property", "lru_cache", "cache", "cached_property", "memoize", "memoized",
                   "sympy.cacheit", "sympy.core.cache.cacheit", "cacheit", "joblib.Memory.cache"}
STD_FUNC_ATTRS = {"__name__", "__doc__", "__module__", "__qualname__", "__defaults__", "__kwdefaults__", "__code__", "__dict__", "__wrapped__", "__class__",
                  "__call__", "__globals__", "__closure__", "__annotations__", "__self__", "__func__"}
# cells every Python statement may consult without naming them
IMPLICIT = {"sys.recursionlimit", "np.errstate", "np.printoptions", "sympy.printing", "cwd", "gc.settings", "sympy.cache", "warnings.filters",
            "sys.path", "sys.stdout", "sys.stderr", "matplotlib.rc"}

RESET, PARTIAL, IDEM = "reset", "partial", "idem"


def _proc(dotted, call):
    """events of a call to an external function: list of (op, cell, mode) or None when it touches no process-wide cell"""
    d = dotted
    if d.startswith("numpy.random."):
        f = d[len("numpy.random."):]
        if f in ("RandomState", "default_rng", "Generator", "SeedSequence", "MT19937", "PCG64", "Philox", "BitGenerator"):
            return None
        if f in ("seed", "set_state"):
            return [("w", "np.random", RESET)]
        if f == "get_state":
            return [("r", "np.random", None)]
        return [("w", "np.random", PARTIAL)]
    if d.startswith("random.") and d.count(".") == 1:
        f = d[7:]
        if f in ("Random", "SystemRandom"):
            return None
        if f in ("seed", "setstate"):
            return [("w", "random", RESET)]
        if f == "getstate":
            return [("r", "random", None)]
        return [("w", "random", PARTIAL)]
    if d.startswith("signal."):
        f = d[7:]
        if f == "signal":
            sig = ast.unparse(call.args[0]).split(".")[-1] if call.args else "?"
            if not re.match(r"^SIG[A-Z0-9]+$", sig):
                raise ExtractError("signal.signal with a signal that is not a literal name at line %d" % call.lineno)
            return [("w", "signal.%s" % sig, RESET)]
        if f in ("alarm", "setitimer"):
            return [("r", "signal.SIGALRM", None), ("w", "signal.alarm", RESET)]
        if f in ("getsignal", "raise_signal", "pause", "sigwait"):
            return [("r", "signal.SIGALRM", None)]
        if f in ("getitimer", "strsignal", "valid_signals", "Signals"):
            return None
        raise ExtractError("signal.%s at line %d not modelled" % (f, call.lineno))
    if d.startswith("warnings."):
        f = d[9:]
        if f in ("filterwarnings", "simplefilter", "resetwarnings"):
            return [("w", "warnings.filters", PARTIAL)]
        if f in ("warn", "warn_explicit", "showwarning", "formatwarning"):
            return [("r", "warnings.filters", None)]
        raise ExtractError("warnings.%s at line %d not modelled" % (f, call.lineno))
    if d in ("os.getenv", "os.environ.get", "os.environ.keys", "os.environ.items", "os.environ.values", "os.environ.copy", "os.environ.__contains__"):
        return [("r", "os.environ", None)]
    if d in ("os.putenv", "os.unsetenv") or (d.startswith("os.environ.") and d.split(".")[-1] in MUTATORS | {"clear"}):
        return [("w", "os.environ", PARTIAL)]
    if d in ("os.chdir", "os.fchdir", "os.chroot"):
        return [("w", "cwd", RESET)]
    if d == "os.getcwd":
        return [("r", "cwd", None)]
    if d == "os.umask":
        return [("w", "umask", PARTIAL)]
    if d == "sys.setrecursionlimit":
        return [("w", "sys.recursionlimit", RESET)]
    if d == "sys.getrecursionlimit":
        return [("r", "sys.recursionlimit", None)]
    if d in ("numpy.seterr", "numpy.seterrcall", "numpy.setbufsize"):
        return [("w", "np.errstate", RESET)]
    if d in ("numpy.geterr", "numpy.errstate"):        # errstate is a scoped context manager: restored on exit
        return [("r", "np.errstate", None)]
    if d == "numpy.set_printoptions":
        return [("w", "np.printoptions", RESET)]
    if d in ("numpy.get_printoptions", "numpy.printoptions"):
        return [("r", "np.printoptions", None)]
    if d in ("sympy.init_printing", "sympy.interactive.init_printing", "sympy.interactive.printing.init_printing"):
        return [("w", "sympy.printing", RESET)]
    if d in ("sympy.core.cache.clear_cache", "sympy.cache.clear_cache", "sympy.clear_cache"):
        return [("w", "sympy.cache", RESET)]
    if d.startswith("gc."):
        f = d[3:]
        if f in ("collect", "get_count", "get_stats", "isenabled", "get_threshold", "get_objects"):
            return None
        return [("w", "gc.settings", RESET)]
    if d.startswith("atexit."):
        return [("w", "atexit", PARTIAL)]
    if d.startswith("matplotlib.pyplot."):
        return [("w", "matplotlib.pyplot", PARTIAL)]
    if d in ("matplotlib.use", "matplotlib.rc", "matplotlib.rcdefaults", "matplotlib.style.use"):
        return [("w", "matplotlib.rc", RESET)]
    if d.startswith("sys.set"):
        return [("w", "ext:" + d.replace("set", "", 1), RESET)]
    if d in ("importlib.reload", "importlib.import_module", "imp.reload"):
        raise ExtractError("%s at line %d: module (re)loading at run time is not modelled" % (d, call.lineno))
    return None


_SETTER = re.compile(r"^(set|seed|register|unregister|install|enable|disable|init_|reset|push|use$|filter|simplefilter|clear_cache|reload|patch)")


class Cell(object):
    def __init__(self, cid, kind, cls, mutable, where):
        self.id, self.kind, self.cls, self.mutable, self.where = cid, kind, cls, mutable, where
        self.alias_of = None


class Summary(object):
    def __init__(self):
        self.rf, self.wr, self.iw, self.rd = set(), set(), set(), set()
        self.defw = set()
        self.forced = set()      # a<i> key groups (re)bound so far in this call (definite although the loop is guarded by max_param > 0)
        self.reach = set()
        self.ret = set()         # mutable cells the function may hand back as its return value (`return <name aliasing the cell>`)
        self.tainted = False

    def absorb(self, other, defw, cond):
        for c in other.rf:
            self.rd.add(c)
            if c not in defw and c not in self.forced:
                self.rf.add(c)
        self.forced |= other.forced
        self.rd |= other.rd
        self.wr |= other.wr
        self.iw |= other.iw
        self.reach |= other.reach
        if not cond:
            defw |= other.defw


class Analysis(object):
    def __init__(self, stage):
        self.stage = stage
        self.mods = {}          # dotted name -> dict(rel, tree, imports, funcs, classes, cells)
        self.cells = {}         # id -> Cell
        self.sites = []         # (cell, function key, line, what)
        self._site_seen = set()
        self.init_sites = []    # import-time calls on process-wide cells: (cell, module, line, text, dotted, argtext)
        self.memo = {}
        self.stack = []
        self.methods = {}       # method name -> [(module, class, name)]
        self.inlined = []       # (module, caller, helper, line) of every helper call replaced by the helper's body
        self.load()

    # ------------------------------------------------------------------ loading
    def load(self):
        rels = []
        for pat in SCOPE:
            rels += sorted(os.path.relpath(p, self.stage) for p in glob.glob(os.path.join(self.stage, pat)))
        if not rels:
            raise ExtractError("no esr module found")
        self.rels = rels
        for rel in rels:
            name = rel[:-3].replace(os.sep, ".")
            if name.endswith(".__init__"):
                name = name[:-9]
            tree, inl = norm.inline_helpers(extract._parse(self.stage, rel))
            self.inlined += [(name,) + x for x in inl]
            self.mods[name] = dict(rel=rel, tree=tree, imports={}, funcs={}, classes={}, cells={}, name=name)
        for m in self.mods.values():
            self.scan_imports(m)
        for m in self.mods.values():
            self.scan_defs(m)
        for m in self.mods.values():
            self.scan_cells(m, m["tree"].body)
        for m in self.mods.values():
            self.scan_defaults(m)

    def scan_imports(self, m):
        for n in ast.walk(m["tree"]):
            if isinstance(n, ast.Import):
                for a in n.names:
                    if a.asname:
                        m["imports"][a.asname] = ("mod", a.name)
                    else:
                        m["imports"][a.name.split(".")[0]] = ("mod", a.name.split(".")[0])
            elif isinstance(n, ast.ImportFrom):
                if n.level:
                    raise ExtractError("relative import in %s:%d not modelled" % (m["rel"], n.lineno))
                for a in n.names:
                    if a.name == "*":
                        raise ExtractError("star import in %s:%d" % (m["rel"], n.lineno))
                    full = n.module + "." + a.name
                    if full in self.mods:
                        m["imports"][a.asname or a.name] = ("mod", full)
                    else:
                        m["imports"][a.asname or a.name] = ("name", n.module, a.name)

    def check_decorators(self, m, fn, qual):
        memo = False
        for d in fn.decorator_list:
            base = d.func if isinstance(d, ast.Call) else d
            dotted = self.dotted_static(m, base)
            short = ast.unparse(base)
            if dotted in MEMO_DECORATORS or short in MEMO_DECORATORS or short.split(".")[-1] in ("lru_cache", "cache", "cached_property", "cacheit", "memoize"):
                memo = True
            elif dotted in OK_DECORATORS or short in OK_DECORATORS:
                pass
            else:
                raise ExtractError("decorator %s of %s.%s (%s:%d) not classified: it may keep state between calls" % (short, m["name"], qual, m["rel"], fn.lineno))
        if memo:
            cid = "%s.%s:cache" % (m["name"], qual)
            self.cells[cid] = Cell(cid, "memo", "dict", True, "%s:%d" % (m["rel"], fn.lineno))
        return memo

    def dotted_static(self, m, e):
        parts = []
        while isinstance(e, ast.Attribute):
            parts.append(e.attr); e = e.value
        if not isinstance(e, ast.Name):
            return None
        imp = m["imports"].get(e.id)
        if imp is None:
            base = e.id
        elif imp[0] == "mod":
            base = imp[1]
        else:
            base = imp[1] + "." + imp[2]
        return ".".join([base] + parts[::-1])

    def scan_defs(self, m):
        for n in m["tree"].body:
            if isinstance(n, (ast.FunctionDef, ast.AsyncFunctionDef)):
                m["funcs"][n.name] = dict(node=n, qual=n.name, cls=None, memo=self.check_decorators(m, n, n.name))
            elif isinstance(n, ast.ClassDef):
                if n.decorator_list:
                    raise ExtractError("class decorator on %s.%s not classified" % (m["name"], n.name))
                ci = dict(node=n, name=n.name, bases=[ast.unparse(b) for b in n.bases], methods={}, attrs={})
                m["classes"][n.name] = ci
                for b in n.body:
                    if isinstance(b, (ast.FunctionDef, ast.AsyncFunctionDef)):
                        q = "%s.%s" % (n.name, b.name)
                        ci["methods"][b.name] = dict(node=b, qual=q, cls=n.name, memo=self.check_decorators(m, b, q))
                        self.methods.setdefault(b.name, []).append((m["name"], n.name, b.name))

    # classification of an initialiser -----------------------------------------------------------
    def classify(self, m, v, where, clsinfo=None):
        """-> (cls, mutable, alias cell id or None)"""
        if isinstance(v, ast.Constant) or isinstance(v, ast.JoinedStr):
            return "scalar", False, None
        if isinstance(v, ast.UnaryOp):
            return self.classify(m, v.operand, where, clsinfo)
        if isinstance(v, (ast.BinOp, ast.Compare, ast.BoolOp)):
            return "scalar", False, None
        if isinstance(v, ast.Tuple):
            if any(self.classify(m, e, where, clsinfo)[1] for e in v.elts):
                raise ExtractError("tuple holding a mutable object initialises a cell at %s" % where)
            return "scalar", False, None
        if isinstance(v, (ast.List, ast.ListComp)):
            return "list", True, None
        if isinstance(v, (ast.Dict, ast.DictComp)):
            return "dict", True, None
        if isinstance(v, (ast.Set, ast.SetComp)):
            return "set", True, None
        if isinstance(v, ast.Lambda):
            return "func", False, None
        if isinstance(v, ast.Name):
            if clsinfo is not None and v.id in clsinfo["methods"]:
                return "func", False, None
            if clsinfo is not None and v.id in clsinfo["attrs"]:
                c = clsinfo["attrs"][v.id]
                return c.cls, c.mutable, c.id
            if v.id in m["cells"]:
                c = m["cells"][v.id]
                return c.cls, c.mutable, (c.id if c.mutable else None)
            if v.id in m["funcs"] or v.id in m["classes"]:
                return "func", False, None
            imp = m["imports"].get(v.id)
            if imp is not None:
                if imp[0] == "name" and imp[1] in self.mods:
                    tgt = self.mods[imp[1]]
                    if imp[2] in tgt["cells"]:
                        c = tgt["cells"][imp[2]]
                        return c.cls, c.mutable, (c.id if c.mutable else None)
                return "extref", False, None
            if v.id in ("None", "True", "False"):
                return "scalar", False, None
            raise ExtractError("initialiser name %s at %s not resolved" % (v.id, where))
        if isinstance(v, ast.Attribute):
            d = self.dotted_static(m, v)
            if d is not None and (d.split(".")[0] in ("mpi4py", "numpy", "sympy", "math", "os", "sys", "scipy", "astropy") or d.startswith("mpi4py")):
                return ("handle" if "COMM" in d else "extref"), False, None
            raise ExtractError("initialiser %s at %s not classified" % (ast.unparse(v), where))
        if isinstance(v, ast.Call):
            d = self.dotted_static(m, v.func)
            if d in MUTABLE_CTORS:
                return MUTABLE_CTORS[d], True, None
            if d is not None and d.split(".")[0] == "sympy":
                return "sympy", False, None
            if isinstance(v.func, ast.Attribute) and isinstance(v.func.value, ast.Name) and v.func.value.id in m["cells"] \
                    and m["cells"][v.func.value.id].cls == "handle" and v.func.attr in ("Get_rank", "Get_size"):
                return "scalar", False, None
            if d in ("int", "float", "str", "bool", "tuple", "frozenset", "len", "os.path.dirname", "os.path.abspath", "os.path.join", "os.path.realpath"):
                return "scalar", False, None
            if isinstance(v.func, ast.Name) and v.func.id in m["classes"]:
                return "instance", True, None
            if d is not None:
                for mn, mm in self.mods.items():
                    if d.startswith(mn + ".") and d[len(mn) + 1:] in mm["classes"]:
                        return "instance", True, None
            raise ExtractError("initialiser call %s at %s not classified (mutable? immutable?)" % (ast.unparse(v.func), where))
        if isinstance(v, ast.Subscript):
            raise ExtractError("initialiser %s at %s not classified" % (ast.unparse(v)[:40], where))
        raise ExtractError("initialiser %s at %s not classified" % (type(v).__name__, where))

    def new_cell(self, cid, kind, cls, mutable, where):
        if cid not in self.cells:
            self.cells[cid] = Cell(cid, kind, cls, mutable, where)
        else:
            c = self.cells[cid]
            if mutable and not c.mutable:
                c.mutable, c.cls = True, cls
        return self.cells[cid]

    def scan_cells(self, m, body):
        """module-level bindings (imports, defs, classes aside) and import-time calls on process-wide cells"""
        for st in body:
            where = "%s:%d" % (m["rel"], st.lineno)
            if isinstance(st, (ast.FunctionDef, ast.AsyncFunctionDef, ast.Import, ast.ImportFrom, ast.Pass)):
                continue
            if isinstance(st, ast.ClassDef):
                ci = m["classes"][st.name]
                for b in st.body:
                    if isinstance(b, ast.Assign):
                        for t in b.targets:
                            if not isinstance(t, ast.Name):
                                raise ExtractError("class-level target %s at %s:%d" % (ast.unparse(t), m["rel"], b.lineno))
                            cls, mut, al = self.classify(m, b.value, "%s:%d" % (m["rel"], b.lineno), ci)
                            cid = "%s.%s.%s" % (m["name"], st.name, t.id)
                            c = self.new_cell(cid, "class", cls, mut, "%s:%d" % (m["rel"], b.lineno))
                            c.alias_of = al
                            ci["attrs"][t.id] = c
                    elif isinstance(b, (ast.FunctionDef, ast.AsyncFunctionDef, ast.Pass)) or (isinstance(b, ast.Expr) and isinstance(b.value, ast.Constant)):
                        continue
                    elif isinstance(b, ast.AnnAssign) and b.value is not None and isinstance(b.target, ast.Name):
                        cls, mut, al = self.classify(m, b.value, "%s:%d" % (m["rel"], b.lineno), ci)
                        c = self.new_cell("%s.%s.%s" % (m["name"], st.name, b.target.id), "class", cls, mut, "%s:%d" % (m["rel"], b.lineno))
                        ci["attrs"][b.target.id] = c
                    else:
                        raise ExtractError("class-level statement %s at %s:%d not modelled" % (type(b).__name__, m["rel"], b.lineno))
                continue
            if isinstance(st, ast.Expr) and isinstance(st.value, ast.Constant):
                continue
            if isinstance(st, ast.If):
                if ast.unparse(st.test).replace('"', "'") == "__name__ == '__main__'":
                    continue
                self.scan_cells(m, st.body); self.scan_cells(m, st.orelse)
                continue
            if isinstance(st, ast.Try):
                self.scan_cells(m, st.body)
                for h in st.handlers:
                    self.scan_cells(m, h.body)
                self.scan_cells(m, st.orelse); self.scan_cells(m, st.finalbody)
                continue
            if isinstance(st, (ast.Assign, ast.AnnAssign, ast.AugAssign)):
                targets = st.targets if isinstance(st, ast.Assign) else [st.target]
                val = st.value
                for t in targets:
                    names = [t] if isinstance(t, ast.Name) else (list(t.elts) if isinstance(t, (ast.Tuple, ast.List)) else None)
                    if names is None or not all(isinstance(x, ast.Name) for x in names):
                        # a store through an attribute/subscript at import time: initialisation of someone else's cell
                        self.import_time_store(m, t, st)
                        continue
                    cls, mut, al = self.classify(m, val, where)
                    if len(names) > 1 and mut:
                        raise ExtractError("tuple assignment from a mutable value at %s" % where)
                    for x in names:
                        c = self.new_cell("%s.%s" % (m["name"], x.id), "module", cls, mut, where)
                        c.alias_of = al
                        m["cells"][x.id] = c
                self.import_time_calls(m, val)
                continue
            if isinstance(st, ast.Expr):
                self.import_time_calls(m, st.value)
                continue
            raise ExtractError("module-level statement %s at %s not modelled" % (type(st).__name__, where))

    def import_time_store(self, m, t, st):
        raise ExtractError("import-time store through %s at %s:%d not modelled" % (ast.unparse(t)[:40], m["rel"], st.lineno))

    def import_time_calls(self, m, e):
        for c in ast.walk(e):
            if isinstance(c, ast.Call):
                d = self.dotted_static(m, c.func)
                if d is None:
                    continue
                ev = _proc(d, c)
                if ev:
                    for op, cell, mode in ev:
                        if op == "w":
                            self.proc_cell(cell)
                            self.init_sites.append((cell, m["name"], c.lineno, ast.unparse(c)[:80], d,
                                                    ast.dump(ast.Tuple(elts=list(c.args) + [k.value for k in c.keywords], ctx=ast.Load())) + ",".join(k.arg or "**" for k in c.keywords)))
                elif self.is_setter(d):
                    raise ExtractError("import-time call %s at %s:%d: process-wide setter not modelled" % (d, m["rel"], c.lineno))

    def is_setter(self, d):
        parts = d.split(".")
        if len(parts) < 2 or parts[0] in self.mods or parts[0] == "esr":
            return False
        if parts[0] in ("self", "cls"):
            return False
        return bool(_SETTER.match(parts[-1])) and d not in PURE_CALLEES and not d.startswith("os.path.")

    def proc_cell(self, cid):
        return self.new_cell(cid, "process", "process", True, "process-wide")

    def scan_defaults(self, m):
        def one(info, cname=None):
            fn = info["node"]
            a = fn.args
            pos = a.posonlyargs + a.args
            pairs = list(zip(pos[len(pos) - len(a.defaults):], a.defaults)) + [(p, d) for p, d in zip(a.kwonlyargs, a.kw_defaults) if d is not None]
            info["defaults"] = {}
            for p, d in pairs:
                where = "%s:%d" % (m["rel"], fn.lineno)
                cls, mut, al = self.classify(m, d, where + " (default of %s)" % p.arg, m["classes"].get(cname) if cname else None)
                if al is not None:
                    info["defaults"][p.arg] = al
                elif mut:
                    cid = "%s.%s(%s)" % (m["name"], info["qual"], p.arg)
                    self.new_cell(cid, "default", cls, True, where)
                    info["defaults"][p.arg] = cid
        for f in m["funcs"].values():
            one(f)
        for cn, ci in m["classes"].items():
            for f in ci["methods"].values():
                one(f, cn)

    # ------------------------------------------------------------------ canonical cell of an id (aliases of the same object)
    def canon(self, cid):
        seen = set()
        while cid in self.cells and self.cells[cid].alias_of and cid not in seen:
            seen.add(cid)
            cid = self.cells[cid].alias_of
        return cid

    # ------------------------------------------------------------------ summaries
    def finfo(self, key):
        mn, qual = key
        m = self.mods[mn]
        if "." in qual:
            cn, fn = qual.split(".", 1)
            return m, m["classes"][cn]["methods"][fn]
        return m, m["funcs"][qual]

    def class_mro(self, mn, cn, seen=None):
        """esr classes from cn upwards: [(module, classinfo)]"""
        seen = seen or set()
        if (mn, cn) in seen or mn not in self.mods or cn not in self.mods[mn]["classes"]:
            return []
        seen.add((mn, cn))
        m = self.mods[mn]
        ci = m["classes"][cn]
        out = [(m, ci)]
        for b in ci["bases"]:
            bn = b.split(".")[-1]
            if bn in m["classes"]:
                out += self.class_mro(mn, bn, seen)
            else:
                imp = m["imports"].get(b.split(".")[0])
                if imp and imp[0] == "name" and imp[1] in self.mods:
                    out += self.class_mro(imp[1], imp[2], seen)
                elif imp and imp[0] == "mod" and imp[1] in self.mods:
                    out += self.class_mro(imp[1], bn, seen)
        return out

    def summary(self, key, binding):
        """binding: tuple of (param, frozenset(cell ids)) for parameters that alias cells"""
        mk = (key, binding)
        if mk in self.memo:
            return self.memo[mk]
        if mk in self.stack:
            s = Summary(); s.tainted = True
            return s
        self.stack.append(mk)
        try:
            m, info = self.finfo(key)
            w = Walker(self, m, info, key, dict(binding))
            s = w.run()
        finally:
            self.stack.pop()
        if not s.tainted or not self.stack:
            self.memo[mk] = s
        return s

    def default_binding(self, key, given=None):
        m, info = self.finfo(key)
        b = {}
        for p, cid in info.get("defaults", {}).items():
            b[p] = frozenset([self.canon(cid)])
        for p, ids in (given or {}).items():
            if ids is None:
                b.pop(p, None)
            else:
                b[p] = frozenset(ids)
        return tuple(sorted(b.items()))

    def site(self, cell, key, line, what):
        k = (cell, key, line, what)
        if k not in self._site_seen:
            self._site_seen.add(k)
            self.sites.append((cell, "%s.%s" % key, line, what))


class Walker(object):
    def __init__(self, an, m, info, key, binding):
        self.an, self.m, self.info, self.key = an, m, info, key
        self.fn = info["node"]
        self.S = Summary()
        self.S.reach.add(key)
        self.alias = {p: set(ids) for p, ids in binding.items()}
        self.cond = 0
        self.globals = set()
        self.locals = set()
        self.local_imports = {}
        a = self.fn.args
        self.params = [x.arg for x in a.posonlyargs + a.args + a.kwonlyargs] + ([a.vararg.arg] if a.vararg else []) + ([a.kwarg.arg] if a.kwarg else [])
        self.locals |= set(self.params)
        for n in ast.walk(self.fn):
            if isinstance(n, ast.Global):
                self.globals |= set(n.names)
            elif isinstance(n, ast.Nonlocal):
                pass
        for n in ast.walk(self.fn):
            if isinstance(n, ast.Name) and isinstance(n.ctx, (ast.Store, ast.Del)) and n.id not in self.globals:
                self.locals.add(n.id)
            elif isinstance(n, (ast.FunctionDef, ast.ClassDef)) and n is not self.fn:
                self.locals.add(n.name)
            elif isinstance(n, ast.arg):
                self.locals.add(n.arg)
            elif isinstance(n, ast.ExceptHandler) and n.name:
                self.locals.add(n.name)
            elif isinstance(n, ast.Import):
                for a_ in n.names:
                    if a_.asname:
                        self.local_imports[a_.asname] = ("mod", a_.name)
                    else:
                        self.local_imports[a_.name.split(".")[0]] = ("mod", a_.name.split(".")[0])
            elif isinstance(n, ast.ImportFrom):
                if n.level or any(a_.name == "*" for a_ in n.names):
                    raise ExtractError("relative/star import inside %s.%s (line %d) not modelled" % (key[0], key[1], n.lineno))
                for a_ in n.names:
                    full = n.module + "." + a_.name
                    self.local_imports[a_.asname or a_.name] = ("mod", full) if full in an.mods else ("name", n.module, a_.name)
        if "kf" not in info:
            info["kf"] = norm.KeyFlow(self.fn)
        self.kf = info["kf"]
        self.selfname = self.params[0] if info["cls"] and self.params and not any(
            ast.unparse(d) in ("staticmethod",) for d in self.fn.decorator_list) else None

    # ---- events
    def read(self, cid, defw, line, what="read"):
        cid = self.an.canon(cid)
        self.S.rd.add(cid)
        if cid not in defw and cid not in self.S.forced:
            self.S.rf.add(cid)
            self.an.site(cid, self.key, line, what + " (first)")
        return cid

    def write(self, cid, mode, defw, line, what):
        cid = self.an.canon(cid)
        if mode == IDEM:
            self.S.iw.add(cid)
            self.an.site(cid, self.key, line, what + " [idempotent literal]")
            return
        if mode == PARTIAL:
            self.S.rd.add(cid)
            if cid not in defw and cid not in self.S.forced:
                self.S.rf.add(cid)
        self.S.wr.add(cid)
        self.an.site(cid, self.key, line, what + (" [update]" if mode == PARTIAL else " [reset]"))
        if mode == RESET:
            defw.add(cid)            # `defw` is the set of the enclosing branch: merged by intersection where branches join

    def run(self):
        if self.info.get("memo"):
            self.write("%s.%s:cache" % self.key, PARTIAL, set(), self.fn.lineno, "memoised call")
        defw = set()
        self.S.defw = self.block(self.fn.body, defw)
        return self.S

    # ---- statements
    def block(self, body, defw):
        for st in body:
            defw = self.stmt(st, defw)
        return defw

    def branch(self, body, defw):
        self.cond += 1
        try:
            return self.block(body, set(defw))
        finally:
            self.cond -= 1

    def stmt(self, st, defw):
        if isinstance(st, ast.Expr):
            self.ev(st.value, defw, "read"); return defw
        if isinstance(st, ast.Assign):
            if isinstance(st.value, (ast.Tuple, ast.List)) and all(
                    isinstance(t, (ast.Tuple, ast.List)) and len(t.elts) == len(st.value.elts) for t in st.targets) \
                    and not any(isinstance(x, ast.Starred) for t in st.targets for x in list(t.elts) + list(st.value.elts)):
                # `a, b = x, y`: every right-hand side is evaluated first (left to right), then a = x, b = y
                ds = [self.ev(v, defw, "assign") for v in st.value.elts]
                for t in st.targets:
                    for x, d in zip(t.elts, ds):
                        self.store(x, d, defw, st)
                return defw
            d = self.ev(st.value, defw, "assign")
            for t in st.targets:
                self.store(t, d, defw, st)
            return defw
        if isinstance(st, ast.AnnAssign):
            if st.value is not None:
                d = self.ev(st.value, defw, "assign")
                self.store(st.target, d, defw, st)
            return defw
        if isinstance(st, ast.AugAssign):
            self.ev(st.value, defw, "read")
            self.store(st.target, None, defw, st, aug=True)
            return defw
        if isinstance(st, ast.If):
            self.ev(st.test, defw, "read")
            d1 = self.branch(st.body, defw)
            d2 = self.branch(st.orelse, defw)
            return defw | (d1 & d2)
        if isinstance(st, (ast.For, ast.AsyncFor)):
            self.ev(st.iter, defw, "read")
            self.store(st.target, None, defw, st)
            self.branch(st.body, defw)
            self.branch(st.orelse, defw)
            return defw
        if isinstance(st, ast.While):
            self.ev(st.test, defw, "read")
            self.branch(st.body, defw)
            self.branch(st.orelse, defw)
            return defw
        if isinstance(st, (ast.With, ast.AsyncWith)):
            for it in st.items:
                d = self.ev(it.context_expr, defw, "read")
                if it.optional_vars is not None:
                    self.store(it.optional_vars, None, defw, st)
            return self.block(st.body, defw)
        if isinstance(st, ast.Try) or (hasattr(ast, "TryStar") and isinstance(st, ast.TryStar)):
            d1 = self.branch(st.body, defw)
            outs = [self.branch(st.orelse, d1)]
            for h in st.handlers:
                if h.type is not None:
                    self.ev(h.type, defw, "read")
                outs.append(self.branch(h.body, defw))
            after = set(defw)
            common = set.intersection(*outs) if outs else set()
            after |= common
            return self.block(st.finalbody, after)
        if isinstance(st, ast.Return):
            if st.value is not None:
                # a plain name (or `x if c else y` of names) that aliases a mutable cell is handed to the caller, which goes on
                # tracking it as a local alias; inside anything else (a tuple, a call argument ...) it still escapes
                plain = isinstance(st.value, (ast.Name, ast.Attribute)) or (isinstance(st.value, ast.IfExp) and all(
                    isinstance(x, (ast.Name, ast.Attribute, ast.Constant)) for x in (st.value.body, st.value.orelse)))
                d = self.ev(st.value, defw, "retalias" if plain else "return")
                if plain:
                    self.S.ret |= self.mutable_ids(d) if d and d[0] == "cell" else set()
            return defw
        if isinstance(st, (ast.Raise,)):
            for e in (st.exc, st.cause):
                if e is not None:
                    self.ev(e, defw, "read")
            return defw
        if isinstance(st, ast.Assert):
            self.ev(st.test, defw, "read")
            if st.msg is not None:
                self.ev(st.msg, defw, "read")
            return defw
        if isinstance(st, ast.Delete):
            for t in st.targets:
                if isinstance(t, (ast.Subscript, ast.Attribute)):
                    self.store(t, None, defw, st, aug=True)
                elif isinstance(t, ast.Name) and t.id in self.globals:
                    self.write("%s.%s" % (self.m["name"], t.id), RESET, defw, st.lineno, "del of a global")
            return defw
        if isinstance(st, (ast.Global, ast.Nonlocal, ast.Pass, ast.Break, ast.Continue, ast.Import, ast.ImportFrom)):
            return defw
        if isinstance(st, (ast.FunctionDef, ast.AsyncFunctionDef)):
            for d in st.decorator_list:
                self.ev(d, defw, "read")
            for d in st.args.defaults + [k for k in st.args.kw_defaults if k is not None]:
                self.ev(d, defw, "read")
            self.branch(st.body, defw)       # the closure may run any time later in this call
            return defw
        if isinstance(st, ast.ClassDef):
            raise ExtractError("class defined inside %s.%s (line %d) not modelled" % (self.key[0], self.key[1], st.lineno))
        raise ExtractError("statement %s in %s.%s (line %d) not modelled" % (type(st).__name__, self.key[0], self.key[1], st.lineno))

    # ---- name resolution
    def resolve_name(self, name):
        """descriptor of a bare name: ('cell', ids) ('func', key) ('class', (mod, name)) ('mod', dotted, is_esr) ('ext', dotted) ('self',) None"""
        if name in self.alias and self.alias[name]:
            return ("cell", set(self.alias[name]))
        if self.selfname is not None and name == self.selfname:
            return ("self",)
        if name in self.local_imports:
            imp = self.local_imports[name]
            if imp[0] == "mod":
                return ("mod", imp[1], imp[1] in self.an.mods or imp[1] == "esr" or imp[1].startswith("esr."))
            if imp[1] in self.an.mods:
                r = self.an_resolve(self.an.mods[imp[1]], imp[2], 1)
                if r is None or r[0] == "builtin":
                    raise ExtractError("%s imports %s from %s where it is not defined" % (self.key[1], imp[2], imp[1]))
                return r
            return ("ext", imp[1] + "." + imp[2])
        if name in self.locals:
            return None
        return self.an_resolve(self.m, name)

    def an_resolve(self, m, name, depth=0):
        if name in m["cells"]:
            return ("cell", {m["cells"][name].id})
        if name in m["funcs"]:
            return ("func", (m["name"], name))
        if name in m["classes"]:
            return ("class", (m["name"], name))
        imp = m["imports"].get(name)
        if imp is not None:
            if imp[0] == "mod":
                return ("mod", imp[1], imp[1] in self.an.mods or imp[1] == "esr" or imp[1].startswith("esr."))
            if imp[1] in self.an.mods and depth < 5:
                r = self.an_resolve(self.an.mods[imp[1]], imp[2], depth + 1)
                if r is None:
                    raise ExtractError("%s imports %s from %s where it is not defined" % (m["name"], imp[2], imp[1]))
                return r
            return ("ext", imp[1] + "." + imp[2])
        if name in self.globals:
            return ("cell", {"%s.%s" % (m["name"], name)})
        return ("builtin", name)

    def cell_obj(self, ids):
        cs = [self.an.cells.get(self.an.canon(i)) for i in ids]
        return [c for c in cs if c is not None]

    def mutable_ids(self, d):
        if d and d[0] in ("cell", "cellitem"):
            return {c.id for c in self.cell_obj(d[1]) if c.mutable}
        return set()

    # ---- expressions (post-order = evaluation order)
    def ev(self, e, defw, role):
        """returns a descriptor or None.  role: 'read' (any use that cannot leak the object), 'assign' (right-hand side of a plain assignment),
        'arg' (call argument: the call decides), 'callee', 'return', 'value' (anything else: a mutable cell may not appear here)"""
        an = self.an
        if isinstance(e, ast.Name):
            if not isinstance(e.ctx, ast.Load):
                return None
            d = self.resolve_name(e.id)
            if d is None:
                return None
            if d[0] == "cell":
                for cid in d[1]:
                    self.read_obj(cid, defw, e.lineno)
                if role in ("read", "value", "return"):
                    self.read_all_keys(d, defw, e.lineno, "whole dict used")       # iteration, `in`, comparison, formatting ...
                self.escape_check(d, role, e)
                return d
            if d[0] == "func" and role != "callee":
                self.callback(d[1], defw, e.lineno)
            if d[0] == "builtin" and d[1] in FORBIDDEN_BUILTINS and role != "callee":
                raise ExtractError("%s used as a value in %s.%s line %d" % (d[1], self.key[0], self.key[1], e.lineno))
            return d
        if isinstance(e, ast.Attribute):
            base = self.ev(e.value, defw, "base")
            return self.attr(base, e, defw, role)
        if isinstance(e, ast.Call):
            return self.call(e, defw, role)
        if isinstance(e, ast.Subscript):
            base = self.ev(e.value, defw, "base")
            self.ev(e.slice, defw, "value")
            if base and base[0] in ("cell", "cellitem"):
                if base[0] == "cell":
                    self.read_keys(base[1], e.slice, defw, e.lineno)
                return ("cellitem", base[1])
            if base and base[0] == "ext" and base[1] == "os.environ":
                self.read("os.environ", defw, e.lineno)
            return None
        if isinstance(e, ast.Lambda):
            w_locals = set(self.locals)
            self.locals |= {a.arg for a in e.args.posonlyargs + e.args.args + e.args.kwonlyargs}
            for d in e.args.defaults + [k for k in e.args.kw_defaults if k is not None]:
                self.ev(d, defw, "read")
            self.cond += 1
            try:
                self.ev(e.body, set(defw), "read")
            finally:
                self.cond -= 1
                self.locals = w_locals
            return None
        if isinstance(e, (ast.ListComp, ast.SetComp, ast.GeneratorExp, ast.DictComp)):
            for g in e.generators:
                self.ev(g.iter, defw, "read")
                for i in g.ifs:
                    self.ev(i, defw, "read")
            self.cond += 1
            try:
                d2 = set(defw)
                if isinstance(e, ast.DictComp):
                    self.ev(e.key, d2, "value"); self.ev(e.value, d2, "value")
                else:
                    self.ev(e.elt, d2, "value")
            finally:
                self.cond -= 1
            return None
        if isinstance(e, (ast.Compare,)):
            self.ev(e.left, defw, "read")
            for c in e.comparators:
                self.ev(c, defw, "read")
            return None
        if isinstance(e, ast.BoolOp):
            first = True
            for v in e.values:
                if first:
                    self.ev(v, defw, "read"); first = False
                else:
                    self.cond += 1
                    try:
                        self.ev(v, set(defw), "read")
                    finally:
                        self.cond -= 1
            return None
        if isinstance(e, ast.IfExp):
            self.ev(e.test, defw, "read")
            self.cond += 1
            try:
                a = self.ev(e.body, set(defw), role)
                b = self.ev(e.orelse, set(defw), role)
            finally:
                self.cond -= 1
            ids = set()
            for x in (a, b):
                if x and x[0] == "cell":
                    ids |= x[1]
            return ("cell", ids) if ids else None
        if isinstance(e, (ast.BinOp,)):
            self.ev(e.left, defw, "read"); self.ev(e.right, defw, "read")
            return None
        if isinstance(e, ast.UnaryOp):
            self.ev(e.operand, defw, "read"); return None
        if isinstance(e, (ast.JoinedStr,)):
            for v in e.values:
                self.ev(v, defw, "read")
            return None
        if isinstance(e, ast.FormattedValue):
            self.ev(e.value, defw, "read"); return None
        if isinstance(e, ast.Starred):
            self.ev(e.value, defw, "read"); return None
        if isinstance(e, ast.NamedExpr):
            d = self.ev(e.value, defw, "assign")
            self.store(e.target, d, defw, e)
            return d
        if isinstance(e, (ast.Yield, ast.YieldFrom, ast.Await)):
            if e.value is not None:
                self.ev(e.value, defw, "return")
            return None
        if isinstance(e, ast.Constant):
            return None
        if isinstance(e, ast.Slice):
            for x in (e.lower, e.upper, e.step):
                if x is not None:
                    self.ev(x, defw, "read")
            return None
        if isinstance(e, (ast.Tuple, ast.List, ast.Set)):
            for x in e.elts:
                self.ev(x, defw, "value")
            return None
        if isinstance(e, ast.Dict):
            for k, v in zip(e.keys, e.values):
                if k is not None:
                    self.ev(k, defw, "value")
                self.ev(v, defw, "value")
            return None
        raise ExtractError("expression %s in %s.%s (line %d) not modelled" % (type(e).__name__, self.key[0], self.key[1], getattr(e, "lineno", 0)))

    def read_obj(self, cid, defw, line):
        """a use of the object held by a cell: reads the binding and (for dicts with an a<i> part) possibly every key"""
        cid = self.an.canon(cid)
        self.read(cid, defw, line)

    def read_keys(self, ids, slice_, defw, line):
        for cid in ids:
            cid = self.an.canon(cid)
            sub = cid + "[a<i>]"
            if sub in self.an.cells:
                if isinstance(slice_, ast.Constant) and isinstance(slice_.value, str) and not re.match(r"^a\d+$", slice_.value):
                    continue
                self.read(sub, defw, line, "read of an a<i> key")

    def read_all_keys(self, d, defw, line, what):
        if d and d[0] == "cell":
            for cid in d[1]:
                sub = self.an.canon(cid) + "[a<i>]"
                if sub in self.an.cells:
                    self.read(sub, defw, line, what)

    def escape_check(self, d, role, e):
        if role in ("read", "base", "assign", "arg", "callee", "retalias"):
            return
        mids = self.mutable_ids(d)
        if mids:
            raise ExtractError("mutable cell %s escapes (%s) in %s.%s line %d: aliasing beyond a local name is not tracked" % (
                sorted(mids)[0], role, self.key[0], self.key[1], e.lineno))

    def callback(self, key, defw, line):
        """a function used as a value: it may be called any time later in this call"""
        s = self.an.summary(key, self.an.default_binding(key))
        if s.ret:
            raise ExtractError("%s.%s, which returns the mutable cell %s, is used as a value in %s.%s line %d: aliasing not tracked" % (
                key[0], key[1], sorted(s.ret)[0], self.key[0], self.key[1], line))
        self.S.tainted |= s.tainted
        self.S.absorb(s, set(defw), True)

    def attr(self, base, e, defw, role):
        an = self.an
        name = e.attr
        if base is None:
            if role != "callee" and name in an.methods and isinstance(e.ctx, ast.Load):
                for mn, cn, fn in an.methods[name]:
                    self.callback((mn, "%s.%s" % (cn, fn)), defw, e.lineno)
            return ("unknownattr", name)
        k = base[0]
        if k == "mod":
            full = base[1] + "." + name
            if full in an.mods or any(x.startswith(full + ".") for x in an.mods):
                return ("mod", full, True)
            if base[2] and base[1] in an.mods:
                if name in ("__file__", "__name__", "__doc__", "__path__", "__package__"):
                    return None
                m2 = an.mods[base[1]]
                d = self.an_resolve(m2, name)
                if d[0] == "builtin":
                    cid = "%s.%s" % (base[1], name)
                    if cid in an.cells:
                        d = ("cell", {cid})
                    else:
                        raise ExtractError("%s.%s read in %s.%s line %d is not defined at import" % (base[1], name, self.key[0], self.key[1], e.lineno))
                if d[0] == "cell":
                    for cid in d[1]:
                        self.read_obj(cid, defw, e.lineno)
                    self.escape_check(d, role, e)
                elif d[0] == "func" and role != "callee":
                    self.callback(d[1], defw, e.lineno)
                return d
            if base[2]:
                return ("mod", full, True)
            return ("ext", full)
        if k == "ext":
            full = base[1] + "." + name
            if full == "os.environ":
                an.proc_cell("os.environ")
                return ("ext", full)
            return ("ext", full)
        if k in ("cell", "cellitem"):
            return ("cellattr", base[1], name, k)
        if k == "func":
            if name in STD_FUNC_ATTRS:
                return None
            cid = "%s.%s.%s" % (base[1][0], base[1][1], name)
            an.new_cell(cid, "funcattr", "unknown", True, "function attribute")
            self.read(cid, defw, e.lineno)
            return ("cell", {cid})
        if k == "class":
            return self.class_attr(base[1], name, e, defw, role)
        if k == "self":
            if name == "__class__":
                return ("class", (self.key[0], self.info["cls"]))
            for m2, ci in an.class_mro(self.key[0], self.info["cls"]):
                if name in ci["attrs"]:
                    c = ci["attrs"][name]
                    self.read_obj(c.id, defw, e.lineno)
                    d = ("cell", {c.id})
                    self.escape_check(d, role, e)
                    return d
                if name in ci["methods"]:
                    key = (m2["name"], "%s.%s" % (ci["name"], name))
                    if role != "callee":
                        self.callback(key, defw, e.lineno)
                    return ("func", key, "bound")
            if role != "callee" and name in an.methods:
                for mn, cn, fn in an.methods[name]:
                    self.callback((mn, "%s.%s" % (cn, fn)), defw, e.lineno)
            return ("unknownattr", name)
        if k == "unknownattr" or k == "builtin":
            if role != "callee" and name in an.methods and isinstance(e.ctx, ast.Load):
                for mn, cn, fn in an.methods[name]:
                    self.callback((mn, "%s.%s" % (cn, fn)), defw, e.lineno)
            return ("unknownattr", name)
        return ("unknownattr", name)

    def class_attr(self, ckey, name, e, defw, role):
        an = self.an
        for m2, ci in an.class_mro(ckey[0], ckey[1]):
            if name in ci["attrs"]:
                c = ci["attrs"][name]
                self.read_obj(c.id, defw, e.lineno)
                d = ("cell", {c.id})
                self.escape_check(d, role, e)
                return d
            if name in ci["methods"]:
                key = (m2["name"], "%s.%s" % (ci["name"], name))
                if role != "callee":
                    self.callback(key, defw, e.lineno)
                return ("func", key)
        cid = "%s.%s.%s" % (ckey[0], ckey[1], name)
        if cid in an.cells:
            self.read(cid, defw, e.lineno)
            return ("cell", {cid})
        return ("unknownattr", name)

    # ---- calls
    def call(self, e, defw, role):
        an = self.an
        if isinstance(e.func, ast.Attribute) and e.func.attr in ("clear", "seed", "set_state", "setstate") and isinstance(e.func.value, (ast.Name, ast.Attribute)):
            base = self.ev_target_base(e.func.value, defw)
            f = self.attr(base, e.func, defw, "callee") if base is not None else self.ev(e.func, defw, "callee")
        else:
            f = self.ev(e.func, defw, "callee")
        argd = []
        for a in e.args:
            argd.append((None, self.ev(a.value if isinstance(a, ast.Starred) else a, defw, "arg"), isinstance(a, ast.Starred)))
        for kw in e.keywords:
            argd.append((kw.arg, self.ev(kw.value, defw, "arg"), kw.arg is None))
        mut_args = set()
        for _, d, _ in argd:
            mut_args |= self.mutable_ids(d)
        line = e.lineno
        if f is None:
            if mut_args:
                raise ExtractError("mutable cell %s passed to an unresolved callee at %s.%s line %d" % (sorted(mut_args)[0], self.key[0], self.key[1], line))
            return None
        k = f[0]
        if k == "func":
            s = self.invoke(f[1], e, argd, defw, bound=(len(f) > 2))
            return self.returned(s.ret, role, e, defw)
        if k == "class":
            init = None
            for m2, ci in an.class_mro(f[1][0], f[1][1]):
                if "__init__" in ci["methods"]:
                    init = (m2["name"], "%s.__init__" % ci["name"]); break
            if init is not None:
                self.invoke(init, e, argd, defw, bound=True)
            elif mut_args:
                raise ExtractError("mutable cell %s passed to constructor %s line %d" % (sorted(mut_args)[0], f[1][1], line))
            return None
        if k == "ext":
            return self.ext_call(f[1], e, argd, mut_args, defw)
        if k == "builtin":
            nm = f[1]
            if nm in FORBIDDEN_BUILTINS:
                raise ExtractError("%s() in %s.%s line %d: reflective access to module state not modelled" % (nm, self.key[0], self.key[1], line))
            if nm == "type" and len(e.args) == 1 and argd[0][1] and argd[0][1][0] == "self":
                return ("class", (self.key[0], self.info["cls"]))
            if nm == "super":
                return ("super",)
            if nm == "getattr" and argd and argd[0][1] and argd[0][1][0] in ("mod", "func", "class", "cell"):
                raise ExtractError("getattr on %s in %s.%s line %d not modelled" % (argd[0][1][0], self.key[0], self.key[1], line))
            if mut_args and nm not in PURE_CALLEES:
                raise ExtractError("mutable cell %s passed to %s() at %s.%s line %d" % (sorted(mut_args)[0], nm, self.key[0], self.key[1], line))
            for _, d, _ in argd:
                self.read_all_keys(d, defw, line, "whole dict read")
            return None
        if k == "cellattr":
            return self.cell_method(f, e, argd, mut_args, defw)
        if k == "unknownattr":
            name = f[1]
            cands = an.methods.get(name, [])
            base_is_super = isinstance(e.func, ast.Attribute) and isinstance(e.func.value, ast.Call) and ast.unparse(e.func.value.func) == "super"
            if cands:
                rets = set()
                for mn, cn, fn in cands:
                    rets |= self.invoke((mn, "%s.%s" % (cn, fn)), e, argd, defw, bound=True, may=(len(cands) > 1 or not base_is_super)).ret
                return self.returned(rets, role, e, defw)
            elif mut_args:
                if name in PURE_METHODS or name in ("format", "join", "subs", "xreplace", "replace", "evalf"):
                    for _, d, _ in argd:
                        self.read_all_keys(d, defw, line, "whole dict read")
                else:
                    raise ExtractError("mutable cell %s passed to method .%s() of an unknown object at %s.%s line %d" % (
                        sorted(mut_args)[0], name, self.key[0], self.key[1], line))
            return None
        if k == "mod":
            raise ExtractError("module %s called at %s.%s line %d" % (f[1], self.key[0], self.key[1], line))
        if k == "cell" or k == "cellitem":
            # calling the object held by a cell (a sympy Lambda, a stored function)
            cs = self.cell_obj(f[1])
            if any(c.mutable and c.cls not in ("dict", "list") for c in cs):
                raise ExtractError("call of mutable cell %s at %s.%s line %d" % (cs[0].id, self.key[0], self.key[1], line))
            if mut_args:
                raise ExtractError("mutable cell %s passed to the object held by a cell at %s.%s line %d" % (sorted(mut_args)[0], self.key[0], self.key[1], line))
            return None
        if k == "self":
            return None
        return None

    def invoke(self, key, e, argd, defw, bound=False, may=False):
        an = self.an
        m2, info = an.finfo(key)
        fn = info["node"]
        a = fn.args
        pos = [x.arg for x in a.posonlyargs + a.args]
        if bound and info["cls"] and pos and not any(ast.unparse(d) == "staticmethod" for d in fn.decorator_list):
            pos = pos[1:]
        given = {}
        unknown_spread = False
        i = 0
        for name, d, star in argd:
            if star:
                unknown_spread = True
                continue
            if name is None:
                p = pos[i] if i < len(pos) else None
                i += 1
            else:
                p = name
            if p is None:
                continue
            ids = None
            if d and d[0] == "cell":
                ids = {c for c in d[1]}
            given[p] = ids
        if unknown_spread:
            # *args/**kwargs: defaults may or may not be in use
            for p, v in list(given.items()):
                pass
            given = {p: v for p, v in given.items() if v is not None}
        s = an.summary(key, an.default_binding(key, given))
        self.S.tainted |= s.tainted
        if may:
            self.S.absorb(s, set(defw), True)
        else:
            self.S.absorb(s, defw, False)
        return s

    def returned(self, ids, role, e, defw):
        """descriptor of the value of a call of an esr function that may return (an alias of) the mutable cells `ids`"""
        if not ids:
            return None
        d = ("cell", set(ids))
        if role in ("read", "value", "return"):
            self.read_all_keys(d, defw, e.lineno, "whole dict used")
        self.escape_check(d, role, e)
        return d

    def ext_call(self, dotted, e, argd, mut_args, defw):
        an = self.an
        line = e.lineno
        ev = _proc(dotted, e)
        if ev is not None:
            for op, cell, mode in ev:
                an.proc_cell(cell)
                if op == "r":
                    self.read(cell, defw, line, dotted)
                else:
                    if mode == RESET and self.same_as_import(cell, dotted, e):
                        mode = IDEM
                    self.write(cell, mode, defw, line, dotted)
        elif an.is_setter(dotted):
            raise ExtractError("call of %s at %s.%s line %d: process-wide setter not modelled" % (dotted, self.key[0], self.key[1], line))
        if dotted.split(".")[0] == "sympy" and dotted not in ("sympy.core.cache.clear_cache", "sympy.cache.clear_cache", "sympy.clear_cache"):
            an.proc_cell("sympy.cache")
            self.write("sympy.cache", PARTIAL, defw, line, "sympy call (memoised inside sympy)")
        if mut_args and dotted not in PURE_CALLEES:
            raise ExtractError("mutable cell %s passed to %s at %s.%s line %d (not known to leave its argument alone)" % (
                sorted(mut_args)[0], dotted, self.key[0], self.key[1], line))
        for _, d, _ in argd:
            self.read_all_keys(d, defw, line, "whole dict read by " + dotted)
        return None

    def same_as_import(self, cell, dotted, e):
        if any(not isinstance(a, ast.Constant) for a in e.args) or any(k.arg is None or not isinstance(k.value, ast.Constant) for k in e.keywords):
            return False
        sig = ast.dump(ast.Tuple(elts=list(e.args) + [k.value for k in e.keywords], ctx=ast.Load())) + ",".join(k.arg or "**" for k in e.keywords)
        inits = [s for s in self.an.init_sites if s[0] == cell]
        return bool(inits) and all(s[4] == dotted and s[5] == sig for s in inits)

    def cell_method(self, f, e, argd, mut_args, defw):
        _, ids, name, how = f
        line = e.lineno
        for c in self.cell_obj(ids):
            if c.kind == "process":
                continue
            if not c.mutable:
                if c.cls == "handle" or c.cls in ("sympy", "scalar", "extref", "func", "unknown"):
                    continue
            if name == "update" and how == "cell" and c.cls == "dict" and self.kf.update_of_keys(e) is not None:
                # D.update(zip(<a<i> names>, values)) / D.update({"a%i" % i: ... for ...}): item-by-item stores into a<i> keys only
                self.akey_store(c, line)
            elif name == "clear" and how == "cell":
                self.write(c.id, RESET, defw, line, ".clear()")
                sub = c.id + "[a<i>]"
                if sub in self.an.cells:
                    self.write(sub, RESET, defw, line, ".clear()")
            elif name in MUTATORS or name == "clear" or (name in RNG_DRAWS and (c.cls in ("rng", "unknown", "instance") or how == "cell")) or name in ("seed", "set_state", "setstate"):
                if name in ("seed", "set_state", "setstate") and c.cls == "rng" and how == "cell":
                    self.write(c.id, RESET, defw, line, ".%s()" % name)
                else:
                    self.write(c.id, PARTIAL, defw, line, ".%s()" % name)
                    sub = c.id + "[a<i>]"
                    if sub in self.an.cells:
                        self.write(sub, PARTIAL, defw, line, ".%s()" % name)
            elif name in PURE_METHODS or how == "cellitem":
                self.read_all_keys(("cell", {c.id}), defw, line, ".%s()" % name)
            elif c.mutable:
                raise ExtractError("method .%s() on mutable cell %s at %s.%s line %d not classified (mutating? pure?)" % (name, c.id, self.key[0], self.key[1], line))
        if mut_args:
            tgt = self.cell_obj(ids)
            if not (name in MUTATORS and tgt):
                raise ExtractError("mutable cell %s passed to method .%s() at %s.%s line %d" % (sorted(mut_args)[0], name, self.key[0], self.key[1], line))
        return None

    # ---- stores
    def store(self, t, vdesc, defw, st, aug=False):
        an = self.an
        line = getattr(t, "lineno", getattr(st, "lineno", 0))
        if isinstance(t, ast.Name):
            if t.id in self.globals:
                cid = "%s.%s" % (self.m["name"], t.id)
                if cid not in an.cells:
                    c = an.new_cell(cid, "module", "unknown", True, "created by `global` in %s.%s" % self.key)
                    self.m["cells"][t.id] = c
                self.write(cid, PARTIAL if aug else RESET, defw, line, "global rebinding")
                if vdesc and vdesc[0] == "cell":
                    raise ExtractError("global %s rebound to another cell at line %d" % (t.id, line))
            else:
                if vdesc and vdesc[0] == "cell":
                    self.alias.setdefault(t.id, set()).update(self.an.canon(c) for c in vdesc[1])
                elif vdesc and vdesc[0] == "cellitem" and self.mutable_ids(vdesc):
                    # an element of a mutable container held by a cell: mutation through it is a mutation of the cell
                    self.alias.setdefault(t.id, set())
            return
        if isinstance(t, (ast.Tuple, ast.List)):
            for x in t.elts:
                self.store(x, None, defw, st, aug)
            return
        if isinstance(t, ast.Starred):
            self.store(t.value, None, defw, st, aug); return
        if vdesc is not None and self.mutable_ids(vdesc) and vdesc[0] == "cell":
            raise ExtractError("mutable cell %s stored into %s at %s.%s line %d: aliasing not tracked" % (
                sorted(self.mutable_ids(vdesc))[0], ast.unparse(t)[:30], self.key[0], self.key[1], line))
        if isinstance(t, ast.Subscript):
            base = self.ev_target_base(t.value, defw)
            self.ev(t.slice, defw, "value")
            if base and base[0] in ("cell", "cellitem"):
                for c in self.cell_obj(base[1]):
                    if self.kf.is_key(t.slice) and base[0] == "cell" and c.cls == "dict":
                        self.akey_store(c, line)
                    elif c.mutable or c.kind == "process":
                        self.write(c.id, PARTIAL, defw, line, "subscript store")
                        sub = c.id + "[a<i>]"
                        if sub in an.cells and not (isinstance(t.slice, ast.Constant) and isinstance(t.slice.value, str) and not re.match(r"^a\d+$", t.slice.value)):
                            self.write(sub, PARTIAL, defw, line, "subscript store")
                    else:
                        raise ExtractError("subscript store into immutable cell %s at line %d" % (c.id, line))
            elif base and base[0] == "ext":
                if base[1] == "os.environ":
                    an.proc_cell("os.environ")
                    self.write("os.environ", PARTIAL, defw, line, "os.environ[...] =")
                else:
                    cid = "ext:" + base[1]
                    an.proc_cell(cid)
                    self.write(cid, PARTIAL, defw, line, "store into %s[...]" % base[1])
            return
        if isinstance(t, ast.Attribute):
            base = self.ev_target_base(t.value, defw)
            name = t.attr
            if base is None or base[0] in ("unknownattr", "builtin", "super"):
                return                                   # attribute of a local object / an argument
            k = base[0]
            if k == "self":
                for m2, ci in an.class_mro(self.key[0], self.info["cls"]):
                    if name in ci["attrs"] and aug:
                        self.write(ci["attrs"][name].id, PARTIAL, defw, line, "augmented store through self")
                return
            if k == "mod":
                if base[2] and base[1] in an.mods:
                    cid = "%s.%s" % (base[1], name)
                    if cid not in an.cells:
                        c = an.new_cell(cid, "module", "unknown", True, "bound from %s.%s" % self.key)
                        an.mods[base[1]]["cells"].setdefault(name, c)
                    self.write(cid, PARTIAL if aug else RESET, defw, line, "store into module attribute")
                else:
                    cid = "ext:%s.%s" % (base[1], name)
                    an.proc_cell(cid)
                    self.write(cid, PARTIAL if aug else RESET, defw, line, "store into attribute of %s" % base[1])
                return
            if k == "ext":
                cid = "ext:%s.%s" % (base[1], name)
                an.proc_cell(cid)
                self.write(cid, PARTIAL if aug else RESET, defw, line, "store into attribute of %s" % base[1])
                return
            if k == "func":
                cid = "%s.%s.%s" % (base[1][0], base[1][1], name)
                an.new_cell(cid, "funcattr", "unknown", True, "function attribute")
                self.write(cid, PARTIAL if aug else RESET, defw, line, "function attribute store")
                return
            if k == "class":
                cid = None
                for m2, ci in an.class_mro(base[1][0], base[1][1]):
                    if name in ci["attrs"]:
                        cid = ci["attrs"][name].id; break
                if cid is None:
                    cid = "%s.%s.%s" % (base[1][0], base[1][1], name)
                    an.new_cell(cid, "class", "unknown", True, "bound from %s.%s" % self.key)
                self.write(cid, PARTIAL if aug else RESET, defw, line, "class attribute store")
                return
            if k in ("cell", "cellitem"):
                for c in self.cell_obj(base[1]):
                    self.write(c.id, PARTIAL, defw, line, "attribute store on the object")
                return
            return
        raise ExtractError("store target %s at %s.%s line %d not modelled" % (type(t).__name__, self.key[0], self.key[1], line))

    def akey_store(self, c, line):
        """a store into a<i> keys of the dict cell c"""
        sub = c.id + "[a<i>]"
        self.an.new_cell(sub, c.kind, "dict", True, c.where)
        # every a<i> the formulas of this call mention is (re)bound by this loop (C16 locs_keys_written)
        self.S.wr.add(sub)
        self.an.site(sub, self.key, line, "a<i> keys (re)bound [reset]")
        self.S.forced.add(sub)

    def ev_target_base(self, e, defw):
        """base object of a store target, without counting a read of the cell's content"""
        if isinstance(e, ast.Name):
            d = self.resolve_name(e.id)
            return d
        if isinstance(e, ast.Attribute):
            base = self.ev_target_base(e.value, defw)
            if base is None:
                return None
            k = base[0]
            if k == "mod":
                full = base[1] + "." + e.attr
                if full in self.an.mods or any(x.startswith(full + ".") for x in self.an.mods):
                    return ("mod", full, True)
                if base[2] and base[1] in self.an.mods:
                    d = self.an_resolve(self.an.mods[base[1]], e.attr)
                    return None if d[0] == "builtin" else d
                return ("ext", full) if not base[2] else ("mod", full, True)
            if k == "ext":
                return ("ext", base[1] + "." + e.attr)
            if k == "self":
                if e.attr == "__class__":
                    return ("class", (self.key[0], self.info["cls"]))
                for m2, ci in self.an.class_mro(self.key[0], self.info["cls"]):
                    if e.attr in ci["attrs"]:
                        c = ci["attrs"][e.attr]
                        return ("cell", {c.id}) if c.mutable else None
                return None
            if k == "class":
                for m2, ci in self.an.class_mro(base[1][0], base[1][1]):
                    if e.attr in ci["attrs"]:
                        return ("cell", {ci["attrs"][e.attr].id})
                return None
            if k in ("cell", "cellitem"):
                return ("cellitem", base[1])
            return None
        if isinstance(e, ast.Subscript):
            base = self.ev_target_base(e.value, defw)
            self.ev(e.slice, defw, "value")
            if base and base[0] in ("cell", "cellitem"):
                return ("cellitem", base[1])
            if base and base[0] == "ext":
                return base
            return None
        if isinstance(e, ast.Call):
            if isinstance(e.func, ast.Name) and e.func.id == "type" and len(e.args) == 1 and isinstance(e.args[0], ast.Name) and e.args[0].id == self.selfname:
                return ("class", (self.key[0], self.info["cls"]))
            if isinstance(e.func, ast.Name) and e.func.id in FORBIDDEN_BUILTINS:
                raise ExtractError("store through %s() in %s.%s line %d" % (e.func.id, self.key[0], self.key[1], e.lineno))
            d = self.ev(e, defw, "base")
            return d if d and d[0] == "cell" else None
        self.ev(e, defw, "read")
        return None


# ----------------------------------------------------------------------------------------------------------------------

def _acc(rf, wr, iw, rd):
    if wr:
        return "rmw" if rf else "reset"
    if iw:
        return "idem"
    if rd or rf:
        return "ro"
    return "none"


def analyse(stage):
    """-> dict(entries=[(label, pipeline)], cells={id: dict(kind, mutable, cls, where, acc=[...])}, sites, init_sites, aliases, reach)"""
    an = Analysis(stage)
    # pre-pass: create the a<i> sub-cells before any reader is summarised (a reader met first would not know them)
    for mn, m in an.mods.items():
        infos = list(m["funcs"].items()) + [("%s.%s" % (cn, k), v) for cn, ci in m["classes"].items() for k, v in ci["methods"].items()]
        for q, info in infos:
            kf = info.setdefault("kf", norm.KeyFlow(info["node"]))
            for n in ast.walk(info["node"]):
                recv = None
                if isinstance(n, ast.Subscript) and isinstance(n.ctx, ast.Store) and kf.is_key(n.slice):
                    recv = n.value
                elif isinstance(n, ast.Call):
                    recv = kf.update_of_keys(n)
                if recv is not None:
                    w = Walker(an, m, info, (mn, info["qual"]), dict(an.default_binding((mn, info["qual"]))))
                    # local aliases `locs = sympy_locs` (also through another local alias: to a fixed point)
                    grew = True
                    while grew:
                        grew = False
                        for a in ast.walk(info["node"]):
                            if isinstance(a, ast.Assign) and len(a.targets) == 1 and isinstance(a.targets[0], ast.Name) and isinstance(a.value, (ast.Name, ast.Attribute)):
                                try:
                                    d = w.ev_target_base(a.value, set())
                                except ExtractError:
                                    d = None
                                if d and d[0] == "cell" and not set(d[1]) <= w.alias.get(a.targets[0].id, set()):
                                    w.alias.setdefault(a.targets[0].id, set()).update(d[1])
                                    grew = True
                    try:
                        base = w.ev_target_base(recv, set())
                    except ExtractError:
                        base = None
                    if base and base[0] == "cell":
                        for c in w.cell_obj(base[1]):
                            if c.cls == "dict":
                                an.new_cell(c.id + "[a<i>]", c.kind, "dict", True, c.where)
    an.sites, an._site_seen = [], set()
    entries = []
    per = []
    for label, mn, pat, pipe in ENTRIES:
        if mn not in an.mods:
            raise ExtractError("entry module %s not found" % mn)
        m = an.mods[mn]
        keys = []
        if pat.startswith("*."):
            for cn, ci in m["classes"].items():
                if pat[2:] in ci["methods"]:
                    keys.append((mn, "%s.%s" % (cn, pat[2:])))
        elif pat in m["funcs"]:
            keys.append((mn, pat))
        if not keys:
            raise ExtractError("entry point %s.%s not found" % (mn, pat))
        S = Summary()
        for k in keys:
            s = an.summary(k, an.default_binding(k))
            S.rf |= s.rf; S.wr |= s.wr; S.iw |= s.iw; S.rd |= s.rd; S.reach |= s.reach
        entries.append((label, pipe))
        per.append(S)
    cells = {}
    for cid, c in an.cells.items():
        if an.canon(cid) != cid:
            continue
        acc = []
        for S in per:
            rf, wr, iw, rd = cid in S.rf, cid in S.wr, cid in S.iw, cid in S.rd
            if cid in IMPLICIT or cid.startswith("ext:"):
                rf = rd = True
            acc.append(_acc(rf, wr, iw, rd))
        cells[cid] = dict(kind=c.kind, mutable=bool(c.mutable), cls=c.cls, where=c.where, acc=acc)
    aliases = {cid: an.canon(cid) for cid in an.cells if an.canon(cid) != cid}
    # from-import aliases: <importer>.<name> is the same object as <origin>.<name>
    for mn, m in an.mods.items():
        for nm, imp in m["imports"].items():
            if imp[0] == "name" and imp[1] in an.mods:
                src = "%s.%s" % (imp[1], imp[2])
                tgt = "%s.%s" % (mn, nm)
                if src in an.cells or src in aliases:
                    aliases[tgt] = an.canon(aliases.get(src, src))
                    if aliases[tgt] + "[a<i>]" in an.cells:
                        aliases[tgt + "[a<i>]"] = aliases[tgt] + "[a<i>]"
    return dict(entries=entries, cells=cells, sites=sorted(set(an.sites)), init_sites=an.init_sites, aliases=aliases,
                reach=[sorted("%s.%s" % k for k in S.reach) for S in per], files=an.rels)


def kinds(table):
    """(a)/(b)/(c) per (cell, entry) — mirrors ESR.MemState.kindOf"""
    out = {}
    n = len(table["entries"])
    for cid, c in table["cells"].items():
        mutated = any(a in ("reset", "rmw") for a in c["acc"])
        ks = []
        for a in c["acc"]:
            if not mutated:
                ks.append("a")
            elif a in ("ro", "idem", "rmw"):
                ks.append("c")
            else:
                ks.append("b")
        out[cid] = ks
    return out


@extract.extractor("MemState")
def gen(stage):
    tb = analyse(stage)
    t = "import ESRVerif.Model.MemState\n" + extract.header("MemState", tb["files"])
    t += "open ESR.MemState\n\n"
    t += "/-- entry points, in the column order of `rows` -/\ndef entries : List String := [%s]\n" % ", ".join(lstr(l) for l, _ in tb["entries"])
    t += "/-- columns of the calls the property speaks about (generation, Likelihood construction, the four fitting stages) -/\n"
    t += "def pipeline : List Nat := [%s]\n" % ", ".join(str(i) for i, (_, p) in enumerate(tb["entries"]) if p)
    t += "/-- columns of the single-function API (esr.fitting.fit_single) -/\ndef api : List Nat := [%s]\n\n" % ", ".join(
        str(i) for i, (_, p) in enumerate(tb["entries"]) if not p)
    t += "/-- every cell that survives between two calls, with how each entry point touches it -/\ndef rows : List Row := [\n"
    t += ",\n".join("  ⟨%s, %s, %s, [%s]⟩" % (lstr(cid), lstr(c["kind"]), "true" if c["mutable"] else "false", ", ".join("." + a for a in c["acc"]))
                    for cid, c in sorted(tb["cells"].items()))
    t += "\n  ]\n\n"
    ws = [s for s in tb["sites"] if "(first)" not in s[3]]
    rs = [s for s in tb["sites"] if "(first)" in s[3] and tb["cells"].get(s[0], {}).get("mutable")]
    t += "/-- every site that can change a cell after import -/\ndef writeSites : List Site := [\n"
    t += ",\n".join("  ⟨%s, %s, %d, %s⟩" % (lstr(c), lstr(f), ln, lstr(w)) for c, f, ln, w in ws)
    t += "\n  ]\n\n"
    t += "/-- sites that use a mutable cell before this same call has re-initialised it -/\ndef exposedReadSites : List Site := [\n"
    t += ",\n".join("  ⟨%s, %s, %d, %s⟩" % (lstr(c), lstr(f), ln, lstr(w)) for c, f, ln, w in rs)
    t += "\n  ]\n\n"
    t += "/-- import-time initialisation of process-wide cells (module level) -/\ndef importInit : List Site := [\n"
    t += ",\n".join("  ⟨%s, %s, %d, %s⟩" % (lstr(c), lstr(mn), ln, lstr(txt)) for c, mn, ln, txt, _, _ in tb["init_sites"])
    t += "\n  ]\n"
    return t + extract.footer("MemState")
