"""Small, total AST normalisations used by the DirProto extractor (C14).  Not an extractor itself (underscore prefix).

Every function here is a pure function of the AST it is given; none guesses: what is not recognised is returned
as `None` / left symbolic, and the caller (extractors/dirproto.py) then treats the construct conservatively or fails
closed.  The normalisations (each preserves Python semantics for all inputs, under the stated side conditions):

N1  boolean structure of a test: `not not a` = a, De Morgan (`not (a or b)` = `not a and not b`, `not (a and b)` =
    `not a or not b`), `not a == b` = `a != b`, `not a != b` = `a == b`, `not a is b` = `a is not b`; a test is
    flattened to a conjunction or a disjunction of literals (`nnf`).  What is known inside the `if` body / `else`
    body / after a branch that always jumps follows from that (`branch_facts`): all literals of a conjunction hold in
    the body, all negated literals of a disjunction hold in the else part.  (Short-circuit evaluation only skips
    atoms; the atoms read here - rank comparisons, os.path.isdir/exists - have no side effect the table records.)
N2  "this is rank 0" literals: `rank == 0`, `0 == rank`, `not rank`, `rank < 1`, `rank <= 0` and their negations
    `rank != 0`, `rank`, `rank > 0`, `rank >= 1`, where `rank` is a name bound by `<x>.Get_rank()` / `<x>.rank` at
    module or function level, or the call `<x>.Get_rank()` / attribute `<x>.rank` itself.  Side condition: an MPI
    rank is a non-negative int.
N3  substitution of single-assignment locals bound to pure expressions (hoisted temporaries, named constants,
    tuple / chained assignment split into single assignments) - done by the caller with `subst`, in statement
    order, only for names bound exactly once in the function and whose right-hand side mentions only such names.
N4  constant folding needed for unrolled loops: `(a, b, c)[1]` -> `b`, `len((a, b, c))` -> 3 (literal tuples/lists
    whose elements are pure).
N5  iteration over a literal: `for x in (a, b, c)`, `for x in [a, b, c]`, `for i, x in enumerate((a, b, c)[, k])`,
    `for i in range(n)` / `range(len(lit))` with n a literal int <= 64 - unrolled by the caller (`loop_bindings`
    yields one binding per iteration, in order).
"""
import ast, copy

PURE_CALLS = ("os.path.isdir", "os.path.exists", "os.path.join", "str", "len")


def unparse(n):
    return ast.unparse(n)


def is_pure(n):
    """expression without side effects other than reading names/attributes and the file-system tests we model"""
    if isinstance(n, (ast.Name, ast.Constant)):
        return True
    if isinstance(n, ast.Attribute):
        return is_pure(n.value)
    if isinstance(n, (ast.Tuple, ast.List)):
        return all(is_pure(e) for e in n.elts)
    if isinstance(n, ast.BinOp):
        return is_pure(n.left) and is_pure(n.right)
    if isinstance(n, ast.UnaryOp):
        return is_pure(n.operand)
    if isinstance(n, ast.BoolOp):
        return all(is_pure(v) for v in n.values)
    if isinstance(n, ast.Compare):
        return is_pure(n.left) and all(is_pure(c) for c in n.comparators)
    if isinstance(n, ast.IfExp):
        return is_pure(n.test) and is_pure(n.body) and is_pure(n.orelse)
    if isinstance(n, ast.Subscript):
        return is_pure(n.value) and is_pure(n.slice)
    if isinstance(n, ast.JoinedStr):
        return all(is_pure(v) for v in n.values)
    if isinstance(n, ast.FormattedValue):
        return is_pure(n.value) and (n.format_spec is None or is_pure(n.format_spec))
    if isinstance(n, ast.Call):
        return unparse(n.func) in PURE_CALLS and not n.keywords and all(is_pure(a) for a in n.args)
    return False


def names_in(n):
    return {x.id for x in ast.walk(n) if isinstance(x, ast.Name)}


def seq_elems(n):
    return list(n.elts) if isinstance(n, (ast.Tuple, ast.List)) and not any(isinstance(e, ast.Starred) for e in n.elts) else None


class _Subst(ast.NodeTransformer):
    def __init__(self, env):
        self.env = env

    def visit_Name(self, node):
        if isinstance(node.ctx, ast.Load) and node.id in self.env:
            return copy.deepcopy(self.env[node.id])
        return node

    def visit_Subscript(self, node):                     # N4
        self.generic_visit(node)
        el = seq_elems(node.value)
        if el is not None and isinstance(node.slice, ast.Constant) and isinstance(node.slice.value, int) \
                and not isinstance(node.slice.value, bool) and -len(el) <= node.slice.value < len(el):
            return el[node.slice.value]
        return node

    def visit_Call(self, node):                          # N4
        self.generic_visit(node)
        if isinstance(node.func, ast.Name) and node.func.id == "len" and len(node.args) == 1 and not node.keywords:
            el = seq_elems(node.args[0])
            if el is not None and all(is_pure(e) for e in el):
                return ast.Constant(value=len(el))
        return node


def subst(n, env):
    """copy of expression `n` with the names of `env` replaced by their (already resolved) values"""
    return ast.fix_missing_locations(_Subst(env).visit(copy.deepcopy(n)))


# ---- N1: tests as conjunctions / disjunctions of literals --------------------------------------------------------

_NEG = {ast.Eq: ast.NotEq, ast.NotEq: ast.Eq, ast.Lt: ast.GtE, ast.GtE: ast.Lt, ast.Gt: ast.LtE, ast.LtE: ast.Gt,
        ast.Is: ast.IsNot, ast.IsNot: ast.Is, ast.In: ast.NotIn, ast.NotIn: ast.In}


def nnf(test, positive=True):
    """('and'|'or', [(positive, atom), ...]) for a test that is a flat conjunction/disjunction of literals after N1,
    ('lit', [(positive, atom)]) for a single literal, None otherwise (mixed and/or nesting)"""
    if isinstance(test, ast.UnaryOp) and isinstance(test.op, ast.Not):
        return nnf(test.operand, not positive)
    if isinstance(test, ast.Compare) and len(test.ops) == 1 and not positive and type(test.ops[0]) in _NEG \
            and not isinstance(test.ops[0], (ast.Lt, ast.Gt, ast.LtE, ast.GtE)):
        # `not a == b` -> `a != b` (for ==, !=, is, in; NOT for orderings: `not a < b` is not `a >= b` for NaN)
        return ("lit", [(True, ast.Compare(left=test.left, ops=[_NEG[type(test.ops[0])]()], comparators=test.comparators))])
    if isinstance(test, ast.BoolOp):
        op = "and" if isinstance(test.op, ast.And) else "or"
        if not positive:
            op = "or" if op == "and" else "and"
        lits = []
        for v in test.values:
            sub = nnf(v, positive)
            if sub is None:
                return None
            if sub[0] not in ("lit", op):
                return None
            lits += sub[1]
        return (op, lits)
    return ("lit", [(positive, test)])


def branch_facts(test):
    """(literals known to hold when the test is true, literals known to hold when it is false)"""
    f = nnf(test)
    if f is None:
        return [], []
    kind, lits = f
    neg = [(not p, a) for p, a in lits]
    if kind == "lit":
        return lits, neg
    if kind == "and":
        return lits, []
    return [], neg


# ---- N2: rank-0 literals ------------------------------------------------------------------------------------------

def _is_rank_expr(n, rank_names):
    if isinstance(n, ast.Name):
        return n.id in rank_names
    if isinstance(n, ast.Call) and isinstance(n.func, ast.Attribute) and n.func.attr == "Get_rank" and not n.args and not n.keywords:
        return True
    if isinstance(n, ast.Attribute) and n.attr == "rank" and isinstance(n.value, (ast.Name, ast.Attribute)) \
            and unparse(n.value).split(".")[-1] in ("comm", "COMM_WORLD"):
        return True
    return False


def rank_binding_names(body):
    """names bound (once, by a plain assignment in this statement list) to `<x>.Get_rank()` or `<x>.rank`"""
    out = set()
    for st in body:
        if isinstance(st, ast.Assign) and len(st.targets) == 1:
            t, v = st.targets[0], st.value
            if isinstance(t, ast.Name) and _is_rank_expr(v, set()):
                out.add(t.id)
            if isinstance(t, ast.Tuple) and isinstance(v, ast.Tuple) and len(t.elts) == len(v.elts):
                for a, b in zip(t.elts, v.elts):
                    if isinstance(a, ast.Name) and _is_rank_expr(b, set()):
                        out.add(a.id)
    return out


def _int_const(n):
    return n.value if isinstance(n, ast.Constant) and isinstance(n.value, int) and not isinstance(n.value, bool) else None


def rank0_literal(positive, atom, rank_names):
    """True: the literal says `rank == 0`; False: it says `rank != 0`; None: it says neither"""
    if _is_rank_expr(atom, rank_names):                  # truthiness of the rank itself
        return not positive
    if isinstance(atom, ast.Compare) and len(atom.ops) == 1:
        l, op, r = atom.left, atom.ops[0], atom.comparators[0]
        if _is_rank_expr(r, rank_names) and _int_const(l) is not None:          # 0 == rank  ->  rank == 0
            flip = {ast.Lt: ast.Gt, ast.Gt: ast.Lt, ast.LtE: ast.GtE, ast.GtE: ast.LtE}
            l, r, op = r, l, flip.get(type(op), type(op))()
        if _is_rank_expr(l, rank_names) and _int_const(r) is not None:
            c = _int_const(r)
            says = None
            if isinstance(op, ast.Eq) and c == 0: says = True
            elif isinstance(op, ast.NotEq) and c == 0: says = False
            elif isinstance(op, ast.Lt) and c == 1: says = True
            elif isinstance(op, ast.LtE) and c == 0: says = True
            elif isinstance(op, ast.Gt) and c == 0: says = False
            elif isinstance(op, ast.GtE) and c == 1: says = False
            if says is not None:
                return says if positive else (not says)
    return None


def exists_literal(atom):
    """the directory expression X if the atom is `os.path.isdir(X)` / `os.path.exists(X)`, else None"""
    if isinstance(atom, ast.Call) and unparse(atom.func) in ("os.path.isdir", "os.path.exists") and len(atom.args) == 1 and not atom.keywords:
        return atom.args[0]
    return None


# ---- N5: loops over literals --------------------------------------------------------------------------------------

MAX_UNROLL = 64


def loop_bindings(target, it):
    """list of {name: expr} (one per iteration, in order) if `for target in it` iterates over a literal, else None.
    `it` must already be resolved (subst)."""
    def bind(t, v):
        if isinstance(t, ast.Name):
            return {t.id: v}
        if isinstance(t, ast.Tuple) and isinstance(v, ast.Tuple) and len(t.elts) == len(v.elts):
            d = {}
            for a, b in zip(t.elts, v.elts):
                s = bind(a, b)
                if s is None:
                    return None
                d.update(s)
            return d
        return None
    el = seq_elems(it)
    if el is not None and all(is_pure(e) for e in el):
        out = [bind(target, e) for e in el]
        return None if any(b is None for b in out) or len(out) > MAX_UNROLL else out
    if isinstance(it, ast.Call) and isinstance(it.func, ast.Name) and not it.keywords:
        if it.func.id == "enumerate" and 1 <= len(it.args) <= 2:
            el = seq_elems(it.args[0])
            k0 = 0 if len(it.args) == 1 else _int_const(it.args[1])
            if el is not None and k0 is not None and all(is_pure(e) for e in el) and len(el) <= MAX_UNROLL:
                out = [bind(target, ast.Tuple(elts=[ast.Constant(value=k0 + k), e], ctx=ast.Load())) for k, e in enumerate(el)]
                return None if any(b is None for b in out) else out
        if it.func.id == "range" and len(it.args) == 1 and _int_const(it.args[0]) is not None and 0 <= _int_const(it.args[0]) <= MAX_UNROLL:
            out = [bind(target, ast.Constant(value=k)) for k in range(_int_const(it.args[0]))]
            return None if any(b is None for b in out) else out
        if it.func.id == "zip" and it.args and all(seq_elems(a) is not None for a in it.args):
            cols = [seq_elems(a) for a in it.args]
            n = min(len(c) for c in cols)
            if n <= MAX_UNROLL and all(is_pure(e) for c in cols for e in c):
                out = [bind(target, ast.Tuple(elts=[c[k] for c in cols], ctx=ast.Load())) for k in range(n)]
                return None if any(b is None for b in out) else out
    return None
