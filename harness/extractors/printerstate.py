"""Extractor for C12 (purity): the STATE CELLS of esr/generation/custom_printer.py -> Generated/PrinterState.lean.

`print_pure` rests on the Lean model `print` being a function.  The real printer is an object that ESR keeps alive for a
whole simplifier stage, so "the same expression always prints to the same string" needs the printer to carry no state
from one print to the next.  This extractor regenerates the list of every place where such state could live:

  instance   `self.X` assigned / augmented / subscript-stored / deleted / mutated through a mutator method
             (append, extend, setdefault, update, pop, ...) in any method of a printer class, also through a local
             alias (`L = self.X`, `L = self.X.setdefault(k, [])`, `L = self.X[k]`, `L = self.X.get(k)`), also
             `type(self).X` / `self.__class__.X` / `<ClassName>.X` (class cell)
  class      names assigned in a printer class body (with whether the initialiser is a mutable display / constructor)
  module     module-level names bound by assignment; `global` rebinding or in-place mutation inside any function
  default    default argument values that are mutable displays / constructor calls
  memo       functools.lru_cache / cache / cached_property / sympy cacheit decorators on any function of the file
  funcattr   attributes stored on a function object of the file (`sstr.memo = ...`)
  base       the cells sympy's own `Printer` base class keeps on the instance (read from the installed sympy source):
             for each whether it is written while printing and, if so, whether every such write is the
             `self.X += c` directly in front of a `try:` whose `finally:` does `self.X -= c` (restored on every exit,
             including an exception escaping from the middle of a print)

For every cell: is it read while printing, written at construction (`__init__`/`__new__`, class body, import time) and
WRITTEN WHILE PRINTING (any method other than `__init__`/`__new__`, or any module-level function, counts as print time:
every `_print_*`/helper is reachable from `doprint`).

Fail closed, two ways:
  * a way of reaching state this reader does not follow (`setattr`, `self.__dict__`, `vars(self)`, `globals()`, `exec`, a
    `self.X` escaping into an unknown callee that could mutate it is NOT followed: only syntactic mutators) -> ExtractError
    for setattr/__dict__/vars/globals/exec/eval;
  * a cell of custom_printer.py that is written while printing -> ExtractError("print-time state ..."): the stateless model
    `print : SExpr -> String` no longer describes this source.  check.py then keeps the committed table (FALLBACK of
    props/c12.py): the theorems are about the stateless printer and the HISTORY correspondence of the check (one long-lived
    printer, sequences of prints and interrupted prints, every completed print compared with a fresh printer and with the
    Lean model) is the whole tie; a cache whose content can differ from a fresh print shows up there as a failing history.
"""
import ast, os
import extract
from extract import ExtractError, lstr

CP = "esr/generation/custom_printer.py"

MUTATORS = {"append", "extend", "insert", "pop", "popitem", "remove", "update", "setdefault", "add", "discard", "sort", "reverse", "clear",
            "move_to_end", "appendleft", "popleft", "extendleft", "rotate", "subtract", "difference_update", "intersection_update",
            "symmetric_difference_update", "__setitem__", "__delitem__", "__iadd__", "fill", "resize", "put", "cache_clear"}
# calls on a cell that hand back (a view of) its content: a local bound to the result may alias the cell
ALIASING = {"setdefault", "get", "pop", "__getitem__", "values", "items", "copy_ref"}
MEMO_DECORATORS = {"lru_cache", "cache", "cached_property", "cacheit", "memoize", "memoized"}
MUTABLE_CALLS = {"dict", "list", "set", "bytearray", "defaultdict", "OrderedDict", "deque", "Counter", "WeakKeyDictionary", "WeakValueDictionary"}
FORBIDDEN = {"setattr", "delattr", "vars", "globals", "exec", "eval", "__import__"}
INIT = {"__init__", "__new__", "__init_subclass__"}


def _mutable_init(v):
    if isinstance(v, (ast.Dict, ast.List, ast.Set, ast.ListComp, ast.DictComp, ast.SetComp)):
        return True
    if isinstance(v, ast.Call):
        f = v.func
        name = f.id if isinstance(f, ast.Name) else f.attr if isinstance(f, ast.Attribute) else ""
        return name in MUTABLE_CALLS
    return False


def _deco_name(d):
    if isinstance(d, ast.Call):
        d = d.func
    if isinstance(d, ast.Attribute):
        return d.attr
    if isinstance(d, ast.Name):
        return d.id
    return ""


class Cells:
    def __init__(self):
        self.c = {}          # (kind, name) -> dict

    def get(self, kind, name, mutable=False):
        d = self.c.setdefault((kind, name), dict(kind=kind, name=name, mutable=False, read=False, winit=False, wprint=False, restored=False, sites=[]))
        d["mutable"] = d["mutable"] or mutable
        return d

    def write(self, kind, name, fn, line, init, how):
        d = self.get(kind, name)
        d["winit" if init else "wprint"] = True
        d["sites"].append("%s:%d %s" % (fn, line, how))

    def read(self, kind, name, init):
        if not init:
            self.get(kind, name)["read"] = True


def _self_root(n, selfname, aliases):
    """the cell an expression is rooted at: ('instance'|'classref', attr) or None.
    self.X, self.X[...], self.X.get(...), alias, alias[...]; type(self).X / self.__class__.X"""
    while True:
        if isinstance(n, ast.Subscript):
            n = n.value
            continue
        if isinstance(n, ast.Call) and isinstance(n.func, ast.Attribute) and n.func.attr in ALIASING:
            n = n.func.value
            continue
        break
    if isinstance(n, ast.Name) and n.id in aliases:
        return aliases[n.id]
    if isinstance(n, ast.Attribute):
        v = n.value
        if isinstance(v, ast.Name) and v.id == selfname:
            return ("instance", n.attr)
        if isinstance(v, ast.Attribute) and v.attr == "__class__" and isinstance(v.value, ast.Name) and v.value.id == selfname:
            return ("classref", n.attr)
        if isinstance(v, ast.Call) and isinstance(v.func, ast.Name) and v.func.id == "type" and len(v.args) == 1 \
                and isinstance(v.args[0], ast.Name) and v.args[0].id == selfname:
            return ("classref", n.attr)
        # deeper attribute chains: self.X.y -> cell X
        return _self_root(v, selfname, aliases) if isinstance(v, (ast.Attribute, ast.Subscript, ast.Call)) else None
    return None


def scan_function(fn, qual, cells, selfname, classnames, classattrs, module_names, funcnames, owner_kind="instance"):
    """record reads/writes of state cells made by one function body (nested defs and lambdas included)"""
    init = fn.name in INIT
    # decorators / defaults
    for d in fn.decorator_list:
        if _deco_name(d) in MEMO_DECORATORS:
            cells.get("memo", "%s:cache" % qual, True)
            cells.write("memo", "%s:cache" % qual, qual, fn.lineno, False, "memo decorator @%s" % _deco_name(d))
    for a, dv in list(zip(reversed(fn.args.args), reversed(fn.args.defaults))) + \
            [(a, dv) for a, dv in zip(fn.args.kwonlyargs, fn.args.kw_defaults) if dv is not None]:
        if _mutable_init(dv):
            cells.get("default", "%s(%s)" % (qual, a.arg), True)
            cells.get("default", "%s(%s)" % (qual, a.arg))["winit"] = True
    globs = set()
    for n in ast.walk(fn):
        if isinstance(n, ast.Global):
            globs.update(n.names)
    aliases = {}

    def cell_of(root):
        """('instance'|'classref', attr) -> (kind, name) of the table"""
        kind, attr = root
        if kind == "classref":
            return ("class", attr)
        if kind in ("module", "default", "funcattr", "class"):
            return root
        return (owner_kind, attr)

    def root_of(n):
        r = _self_root(n, selfname, aliases) if selfname else (aliases.get(n.id) if isinstance(n, ast.Name) else None)
        if r is not None:
            return r
        # module globals / class names / function attributes
        base = n
        while isinstance(base, (ast.Subscript,)) or (isinstance(base, ast.Call) and isinstance(base.func, ast.Attribute) and base.func.attr in ALIASING):
            base = base.value if isinstance(base, ast.Subscript) else base.func.value
        if isinstance(base, ast.Name) and base.id in module_names:
            return ("module", base.id)
        if isinstance(base, ast.Attribute) and isinstance(base.value, ast.Name):
            if base.value.id in classnames:
                return ("class", base.attr)
            if base.value.id in funcnames:
                return ("funcattr", "%s.%s" % (base.value.id, base.attr))
        return None

    def store(target, line, how):
        if isinstance(target, (ast.Tuple, ast.List)):
            for t in target.elts:
                store(t, line, how)
            return
        if isinstance(target, ast.Starred):
            return store(target.value, line, how)
        if isinstance(target, ast.Name):
            if target.id in globs:
                cells.write("module", target.id, qual, line, False, "global " + how)
            return
        r = root_of(target)
        if r is not None:
            k, nm = cell_of(r)
            cells.write(k, nm, qual, line, init and k == owner_kind, how)

    # statements in source order (aliases are flow-insensitive after their binding: once an alias, always an alias)
    nodes = sorted([n for n in ast.walk(fn) if hasattr(n, "lineno")], key=lambda n: (n.lineno, n.col_offset))
    for n in nodes:
        if isinstance(n, ast.Call):
            f = n.func
            if isinstance(f, ast.Name) and f.id in FORBIDDEN:
                raise ExtractError("%s:%d: %s(...) can reach state this reader does not follow" % (qual, n.lineno, f.id))
        if isinstance(n, ast.Attribute) and n.attr == "__dict__":
            raise ExtractError("%s:%d: __dict__ access can reach state this reader does not follow" % (qual, n.lineno))
    for n in nodes:
        if isinstance(n, (ast.Assign, ast.AnnAssign)):
            targets = n.targets if isinstance(n, ast.Assign) else [n.target]
            val = n.value
            for t in targets:
                store(t, n.lineno, "assignment")
                if isinstance(t, ast.Name) and val is not None:
                    r = root_of(val)
                    if r is not None:
                        aliases[t.id] = r
        elif isinstance(n, ast.AugAssign):
            store(n.target, n.lineno, "augmented assignment")
            if isinstance(n.target, ast.Name) and n.target.id in aliases:
                k, nm = cell_of(aliases[n.target.id])
                cells.write(k, nm, qual, n.lineno, init and k == owner_kind, "augmented assignment through alias %s" % n.target.id)
        elif isinstance(n, ast.Delete):
            for t in n.targets:
                store(t, n.lineno, "del")
        elif isinstance(n, (ast.For, ast.comprehension)):
            store(n.target, getattr(n, "lineno", fn.lineno), "loop target")
        elif isinstance(n, ast.NamedExpr):
            r = root_of(n.value)
            if r is not None:
                aliases[n.target.id] = r
        elif isinstance(n, ast.withitem) and n.optional_vars is not None:
            store(n.optional_vars, fn.lineno, "with target")
        elif isinstance(n, ast.Call) and isinstance(n.func, ast.Attribute) and n.func.attr in MUTATORS:
            r = root_of(n.func.value)
            if r is not None:
                k, nm = cell_of(r)
                cells.write(k, nm, qual, n.lineno, init and k == owner_kind, ".%s(...)" % n.func.attr)
    # reads
    for n in nodes:
        if isinstance(n, ast.Attribute) and isinstance(n.ctx, ast.Load) and selfname and isinstance(n.value, ast.Name) and n.value.id == selfname:
            if (owner_kind, n.attr) in cells.c or ("class", n.attr) in cells.c or n.attr in classattrs:
                k = owner_kind if (owner_kind, n.attr) in cells.c else "class"
                cells.read(k, n.attr, init)
        elif isinstance(n, ast.Name) and isinstance(n.ctx, ast.Load) and n.id in module_names:
            cells.read("module", n.id, init)


def scan_module(tree, cells, rel):
    module_names, classnames, funcnames = set(), set(), set()
    for st in tree.body:
        if isinstance(st, (ast.Assign, ast.AnnAssign, ast.AugAssign)):
            for t in (st.targets if isinstance(st, ast.Assign) else [st.target]):
                for nm in ast.walk(t):
                    if isinstance(nm, ast.Name):
                        module_names.add(nm.id)
                        d = cells.get("module", nm.id, _mutable_init(getattr(st, "value", None)))
                        d["winit"] = True
        elif isinstance(st, ast.ClassDef):
            classnames.add(st.name)
        elif isinstance(st, ast.FunctionDef):
            funcnames.add(st.name)
        elif isinstance(st, (ast.Import, ast.ImportFrom, ast.Expr)):
            pass
        elif isinstance(st, (ast.If, ast.Try, ast.With, ast.For, ast.While)):
            raise ExtractError("%s:%d: module-level control flow is not read" % (rel, st.lineno))
    classattrs = set()
    for st in tree.body:
        if isinstance(st, ast.ClassDef):
            for b in st.body:
                if isinstance(b, (ast.Assign, ast.AnnAssign)):
                    for t in (b.targets if isinstance(b, ast.Assign) else [b.target]):
                        if isinstance(t, ast.Name):
                            classattrs.add(t.id)
                            d = cells.get("class", t.id, _mutable_init(b.value))
                            d["winit"] = True
                            d["sites"].append("%s:%d class body" % (st.name, b.lineno))
    # first pass over __init__ so that instance cells exist before reads are attributed
    for st in tree.body:
        if isinstance(st, ast.ClassDef):
            for b in st.body:
                if isinstance(b, (ast.FunctionDef, ast.AsyncFunctionDef)):
                    if any(_deco_name(d) in ("staticmethod",) for d in b.decorator_list) or not b.args.args:
                        selfname = None
                    else:
                        selfname = b.args.args[0].arg
                    is_cls = any(_deco_name(d) == "classmethod" for d in b.decorator_list)
                    scan_function(b, "%s.%s" % (st.name, b.name), cells, selfname, classnames, classattrs, module_names, funcnames,
                                  owner_kind="class" if is_cls else "instance")
                elif not isinstance(b, (ast.Assign, ast.AnnAssign, ast.Expr, ast.Pass)):
                    raise ExtractError("%s:%d: statement in class body not read: %s" % (rel, b.lineno, type(b).__name__))
        elif isinstance(st, ast.FunctionDef):
            scan_function(st, st.name, cells, None, classnames, classattrs, module_names, funcnames)
    # a `self.X` store whose X is a class attribute with a mutable value and no instance assignment mutates the CLASS cell
    for (kind, name), d in list(cells.c.items()):
        if kind == "instance" and name in classattrs and not d["winit"] and all("assignment" not in s or "augmented" in s for s in d["sites"]):
            c = cells.get("class", name)
            c["wprint"] = c["wprint"] or d["wprint"]
            c["read"] = c["read"] or d["read"]
            c["sites"] += d["sites"]
            del cells.c[(kind, name)]
    return classattrs


def scan_base(cells):
    """sympy's Printer base class: its instance cells and whether print-time writes are bracketed by try/finally"""
    import importlib.util
    spec = importlib.util.find_spec("sympy.printing.printer")
    if spec is None or not spec.origin:
        raise ExtractError("sympy.printing.printer not found")
    tree = ast.parse(open(spec.origin).read())
    cls = None
    for st in tree.body:
        if isinstance(st, ast.ClassDef) and st.name == "Printer":
            cls = st
    if cls is None:
        raise ExtractError("class Printer not found in sympy.printing.printer")
    base = Cells()
    for b in cls.body:
        if isinstance(b, (ast.Assign, ast.AnnAssign)):
            for t in (b.targets if isinstance(b, ast.Assign) else [b.target]):
                if isinstance(t, ast.Name):
                    base.get("class", t.id, _mutable_init(b.value))["winit"] = True
        elif isinstance(b, ast.FunctionDef):
            is_cls = any(_deco_name(d) == "classmethod" for d in b.decorator_list)
            selfname = b.args.args[0].arg if b.args.args else None
            scan_function(b, "Printer.%s" % b.name, base, selfname, {"Printer"}, set(), set(), set(), owner_kind="class" if is_cls else "instance")
    # bracketed writes: `self.X += c` immediately followed by try/finally with `self.X -= c`
    restored = {}
    for b in cls.body:
        if not isinstance(b, ast.FunctionDef) or b.name in INIT:
            continue
        for body in [n.body for n in ast.walk(b) if hasattr(n, "body") and isinstance(n.body, list)]:
            for i, st in enumerate(body):
                if isinstance(st, ast.AugAssign) and isinstance(st.op, ast.Add) and isinstance(st.target, ast.Attribute) \
                        and isinstance(st.target.value, ast.Name) and st.target.value.id == "self":
                    nm = st.target.attr
                    ok = False
                    if i + 1 < len(body) and isinstance(body[i + 1], ast.Try):
                        for f in body[i + 1].finalbody:
                            if isinstance(f, ast.AugAssign) and isinstance(f.op, ast.Sub) and ast.dump(f.target) == ast.dump(st.target) \
                                    and ast.dump(f.value) == ast.dump(st.value):
                                ok = True
                    restored.setdefault(nm, []).append(ok)
    out = []
    for (kind, name), d in sorted(base.c.items()):
        if kind != "instance":
            continue
        if d["wprint"]:
            # every print-time write must be one half of a bracket
            nwrites = len([s for s in d["sites"] if not s.split(":")[0].split(".")[-1] in INIT])
            br = restored.get(name, [])
            d["restored"] = bool(br) and all(br) and nwrites == 2 * len(br)
        out.append(d)
    return out, os.path.basename(spec.origin)


def _cell_lean(d, kind=None):
    return "  { kind := %s, name := %s, mutableValue := %s, readInPrint := %s, writtenAtInit := %s, writtenInPrint := %s, restoredInFinally := %s,\n    sites := %s }" % (
        lstr(kind or d["kind"]), lstr(d["name"]), str(bool(d["mutable"])).lower(), str(bool(d["read"])).lower(), str(bool(d["winit"])).lower(),
        str(bool(d["wprint"])).lower(), str(bool(d["restored"])).lower(), lstr("; ".join(d["sites"][:6])))


def analyse(stage):
    tree = extract._parse(stage, CP)
    cells = Cells()
    scan_module(tree, cells, CP)
    own = [d for _, d in sorted(cells.c.items())]
    base, _ = scan_base(cells)
    # does the ESR printer read a base cell while printing?
    reads = set()
    for n in ast.walk(tree):
        if isinstance(n, ast.Attribute) and isinstance(n.value, ast.Name) and n.value.id == "self":
            reads.add(n.attr)
    for d in base:
        d["read"] = d["name"] in reads
    # base cells that the ESR file itself writes are ESR's cells (already in `own` as instance cells)
    return own, base


@extract.extractor("PrinterState")
def gen(stage):
    own, base = analyse(stage)
    bad = [d for d in own if d["wprint"]]
    if bad:
        raise ExtractError("print-time state in %s: %s -- the stateless printer model no longer describes this source" % (
            CP, " | ".join("%s cell %s written at %s" % (d["kind"], d["name"], ", ".join(d["sites"][:3])) for d in bad[:4])))
    out = ["import ESRVerif.Model.PrinterState\n" + extract.header("PrinterState", [CP, "sympy/printing/printer.py (installed)"])]
    out.append("open ESR.PrinterState\n\n")
    out.append("/-- every state cell of custom_printer.py: module globals, class attributes of the printer classes, instance attributes\n"
               "stored by their methods, mutable default arguments, memo decorators, function attributes -/\n")
    out.append("def cells : List Cell := [\n" + ",\n".join(_cell_lean(d) for d in own) + "\n]\n\n")
    out.append("/-- instance cells kept by sympy's `Printer` base class (installed sympy), with how `Printer._print`/`doprint` treat them;\n"
               "`readInPrint` = read by custom_printer.py -/\n")
    out.append("def baseCells : List Cell := [\n" + ",\n".join(_cell_lean(d, "base") for d in base) + "\n]\n")
    out.append(extract.footer("PrinterState"))
    return "".join(out)
