"""C03 (driver refinement): nothing is generated for Model/Library.lean; this module only registers the functions that
model mirrors by hand (the do_sympy driver and the part of duplicate_checker.main around it), so that a change of
their source makes the quick tier run at thorough depth until the new hashes are validated (`extract.py --record`)."""
import extract

extract.MODELLED += [
    ("esr/generation/simplifier.py", None, "do_sympy"),
    ("esr/generation/duplicate_checker.py", None, "main"),
    ("esr/generation/utils.py", None, "get_unique_indexes"),
    ("esr/generation/utils.py", None, "get_match_indexes"),
    ("esr/generation/simplifier.py", None, "sympy_simplify"),
]
