"""AST normalisations for the `Subs` extractor (C17).  NOT an extractor itself (underscore prefix = not auto-loaded).

Part of the trusted translator: every rewrite below maps a function body to one with the same behaviour for all inputs
(same values, same side effects in the same order); where a rewrite is only sound under a side condition the condition is
checked syntactically and the rewrite is skipped (never guessed) when it cannot be established.  The rewrites that move
the point at which a *pure* expression is evaluated, or that turn an appending loop into a comprehension, are applied
only in functions without `try` (an exception then leaves the function in both versions, so partial local state is
unobservable).

Statement level (`normalise_function`):
  N1  docstrings / `pass` dropped
  N2  one level of helper inlining: a module-level private helper `_name(...)` or a nested closure whose body is
      straight-line (`name = expr` assignments, at most one `if c: return A`, one final `return B`) called from the
      anchored function: arguments substituted for parameters (arguments must be side-effect-free atoms, or the
      parameter is used once), temporaries substituted into the returned expression.  A private/nested helper that
      cannot be inlined raises ExtractError (never "no effect").
  N3  chained assignment `a = b = v` -> `a = v; b = a`;  tuple assignment `a, b = x, y` -> `a = x; b = y` when no
      target occurs in a right-hand side
  N4  `x = A if c else B` -> `if c: x = A` / `else: x = B`
  N5  `if c: ...; <jump>` followed by REST  ->  `if c: ...; <jump>` / `else: REST`  (jump = continue/return/break/raise);
      `continue` in tail position of a loop body dropped; an `if` left with an empty body is inverted
      (`if c: continue` + REST  ==  `if not c: REST`)
  N6  negation: `not (a == b)` <-> `a != b`, `not (a in b)` <-> `a not in b`, `not (a is b)` <-> `a is not b`,
      `not not a` -> `a` and De Morgan in test position only (truthiness and short-circuit order kept).  Ordering
      comparisons are never flipped (`not a < b` is not `a >= b` for NaN).
  N7  adjacent `if t:` blocks with the identical test merged when `t` is built from names, constants, comparisons, not /
      and / or only (no call, attribute or subscript) and the first body assigns no name of `t` and does not end in a
      jump (a callee rebinding a module global that `t` reads is not considered)
  N8  a `for` over a literal tuple/list of constants (or of tuples of constants, or of names that the body only reads)
      unrolled (<= 8 items, no break/continue/else, loop variables only read in the body and dead afterwards)
  N9  `for T in IT: X.append(E)` / `X += [E]` (optionally under one `if c:`) -> `X += [E for T in IT if c]` when X does
      not occur in E, IT, c and T is dead after the loop (loop-local call-free temporaries bound once and dead after
      the loop are substituted into E first);  `X = []` directly followed by `X += [comp]` -> `X = [comp]`
  N11 the blocks of a `try` statement (body, handlers, else, finally) are normalised with the rewrites above that are allowed
      in a function with `try`
  N10 a temporary `t = E` (E call-free apart from len/range/str/int/np.arange/np.flip, bound once, read only in the
      directly following simple statement or in the header of the directly following compound statement) inlined

Expression helpers for the extractor's symbolic evaluators: `unify` (patterns with name metavariables `MV_x` and
expression metavariables `MX_x`), `is_param_name_format` (`'a%i' % i` == `'a%d' % i` == `f'a{i}'` == `'a' + str(i)`
== `'a{}'.format(i)` for an int `i`), `subst_names`.
"""
import ast
import copy
from extract import ExtractError

MV = "MV_"     # pattern metavariable that binds a Name (by identifier)
MX = "MX_"     # pattern metavariable that binds any expression

PURE_CALLS = {"len", "range", "str", "int", "np.arange", "np.flip", "numpy.arange", "numpy.flip"}
JUMPS = (ast.Continue, ast.Return, ast.Break, ast.Raise)


# ------------------------------------------------------------------------------------------------
# small utilities
# ------------------------------------------------------------------------------------------------

def u(node):
    return ast.unparse(node)


def names_loaded(node):
    return {n.id for n in ast.walk(node) if isinstance(n, ast.Name) and isinstance(n.ctx, ast.Load)}


def names_stored(node):
    """names (re)bound or mutated through a subscript/attribute store, augmented assignment, del, for/with/comprehension
    targets anywhere inside node"""
    out = set()
    for n in ast.walk(node):
        if isinstance(n, ast.Name) and isinstance(n.ctx, (ast.Store, ast.Del)):
            out.add(n.id)
        elif isinstance(n, (ast.Subscript, ast.Attribute)) and isinstance(n.ctx, (ast.Store, ast.Del)):
            b = n
            while isinstance(b, (ast.Subscript, ast.Attribute)):
                b = b.value
            if isinstance(b, ast.Name):
                out.add(b.id)
        elif isinstance(n, ast.AugAssign):
            b = n.target
            while isinstance(b, (ast.Subscript, ast.Attribute)):
                b = b.value
            if isinstance(b, ast.Name):
                out.add(b.id)
        elif isinstance(n, ast.Call) and isinstance(n.func, ast.Attribute) and isinstance(n.func.value, ast.Name) \
                and n.func.attr in ("append", "extend", "insert", "pop", "remove", "sort", "reverse", "clear", "update",
                                    "setdefault", "popitem", "add", "discard"):
            out.add(n.func.value.id)
    return out


def names_rebound(node):
    """names bound by a Name store / del / augmented assignment inside node (not mutation through the object)"""
    out = {n.id for n in ast.walk(node) if isinstance(n, ast.Name) and isinstance(n.ctx, (ast.Store, ast.Del))}
    out |= {n.target.id for n in ast.walk(node) if isinstance(n, ast.AugAssign) and isinstance(n.target, ast.Name)}
    return out


def count_loads(node, name):
    return sum(1 for n in ast.walk(node) if isinstance(n, ast.Name) and n.id == name and isinstance(n.ctx, ast.Load))


def all_names(node):
    return {n.id for n in ast.walk(node) if isinstance(n, ast.Name)}


def has_try(node):
    return any(isinstance(n, ast.Try) or n.__class__.__name__ == "TryStar" for n in ast.walk(node))


def call_name(node):
    """dotted name of the callee of a Call, or None"""
    f = node.func
    parts = []
    while isinstance(f, ast.Attribute):
        parts.append(f.attr)
        f = f.value
    if isinstance(f, ast.Name):
        parts.append(f.id)
        return ".".join(reversed(parts))
    return None


def is_pure_expr(node):
    """call-free apart from PURE_CALLS; no comprehension, lambda, await, yield, walrus"""
    for n in ast.walk(node):
        if isinstance(n, ast.Call):
            if call_name(n) not in PURE_CALLS or n.keywords:
                return False
        elif isinstance(n, (ast.ListComp, ast.SetComp, ast.DictComp, ast.GeneratorExp, ast.Lambda, ast.Await, ast.Yield,
                            ast.YieldFrom, ast.NamedExpr, ast.Starred)):
            return False
    return True


def is_atom(node):
    """side-effect-free expression that may be duplicated: names, constants, attribute of a name, subscripts of atoms"""
    if isinstance(node, (ast.Name, ast.Constant)):
        return True
    if isinstance(node, ast.Attribute):
        return is_atom(node.value)
    if isinstance(node, ast.Subscript):
        return is_atom(node.value) and is_atom(node.slice)
    if isinstance(node, ast.UnaryOp) and isinstance(node.op, ast.USub):
        return is_atom(node.operand)
    return False


def inner_bound(node):
    """names bound by comprehensions / lambdas inside node (a substituted expression reading one of them would be captured)"""
    out = set()
    for n in ast.walk(node):
        if isinstance(n, ast.comprehension):
            out |= {x.id for x in ast.walk(n.target) if isinstance(x, ast.Name)}
        elif isinstance(n, ast.Lambda):
            out |= {a.arg for a in n.args.args + n.args.kwonlyargs + n.args.posonlyargs}
    return out


class _Subst(ast.NodeTransformer):
    def __init__(self, mapping):
        self.m = mapping

    def visit_Name(self, node):
        if isinstance(node.ctx, ast.Load) and node.id in self.m:
            return copy.deepcopy(self.m[node.id])
        return node


def subst_names(node, mapping):
    """copy of node with every *loaded* Name in mapping replaced by (a copy of) its expression"""
    return ast.fix_missing_locations(_Subst(mapping).visit(copy.deepcopy(node)))


# ------------------------------------------------------------------------------------------------
# unification
# ------------------------------------------------------------------------------------------------

def _unify(p, n, b):
    if isinstance(p, ast.Name) and p.id.startswith(MX):
        if not isinstance(n, ast.expr):
            return False
        key = ast.dump(n)
        if p.id in b:
            return b[p.id][0] == key
        b[p.id] = (key, n)
        return True
    if isinstance(p, ast.Name) and p.id.startswith(MV):
        if not isinstance(n, ast.Name):
            return False
        if p.id in b:
            return b[p.id] == n.id
        b[p.id] = n.id
        return True
    if type(p) is not type(n):
        return False
    for f in p._fields:
        if f in ("ctx", "type_comment", "kind"):
            continue
        pv, nv = getattr(p, f, None), getattr(n, f, None)
        if isinstance(pv, list):
            if not isinstance(nv, list) or len(pv) != len(nv):
                return False
            for x, y in zip(pv, nv):
                if isinstance(x, ast.AST):
                    if not isinstance(y, ast.AST) or not _unify(x, y, b):
                        return False
                elif x != y:
                    return False
        elif isinstance(pv, ast.AST):
            if not isinstance(nv, ast.AST) or not _unify(pv, nv, b):
                return False
        elif pv != nv:
            return False
    return True


_PAT_CACHE = {}


def pattern(src):
    if src not in _PAT_CACHE:
        st = ast.parse(src).body[0]
        _PAT_CACHE[src] = st.value if isinstance(st, ast.Expr) else st
    return _PAT_CACHE[src]


def unify(src, node, binds=None):
    """bindings (a new dict extending `binds`) if the pattern source matches node, else None"""
    b = dict(binds or {})
    return b if _unify(pattern(src), node, b) else None


def find_stmt(fn, alternatives, binds, what):
    """first statement anywhere in fn matching one of the pattern alternatives consistently with binds"""
    for node in ast.walk(fn):
        if isinstance(node, ast.stmt):
            for src in alternatives:
                b = unify(src, node, binds)
                if b is not None:
                    return node, b
    raise ExtractError("%s: expected statement not found: %s" % (what, alternatives[0].replace(MV, "").replace(MX, "")))


# ------------------------------------------------------------------------------------------------
# expression helpers
# ------------------------------------------------------------------------------------------------

def is_param_name_format(node, var):
    """node builds the string 'a<i>' from the int loop variable `var`"""
    for src in ("'a%i' % MV_v", "'a%d' % MV_v", "'a%i' % (MV_v,)", "'a%d' % (MV_v,)", "'a' + str(MV_v)", "'a{}'.format(MV_v)",
                "'a{0}'.format(MV_v)", "'a%s' % MV_v"):
        b = unify(src, node)
        if b is not None and b.get("MV_v") == var:
            return True
    if isinstance(node, ast.JoinedStr) and len(node.values) == 2:
        a, f = node.values
        if isinstance(a, ast.Constant) and a.value == "a" and isinstance(f, ast.FormattedValue) and f.conversion == -1 \
                and f.format_spec is None and isinstance(f.value, ast.Name) and f.value.id == var:
            return True
    return False


def negate(test):
    """an expression with the truth value of `not test` (N6)"""
    if isinstance(test, ast.UnaryOp) and isinstance(test.op, ast.Not):
        return test.operand
    if isinstance(test, ast.Compare) and len(test.ops) == 1:
        flip = {ast.Eq: ast.NotEq, ast.NotEq: ast.Eq, ast.In: ast.NotIn, ast.NotIn: ast.In, ast.Is: ast.IsNot, ast.IsNot: ast.Is}
        t = flip.get(type(test.ops[0]))
        if t is not None:
            return ast.Compare(left=test.left, ops=[t()], comparators=test.comparators)
    if isinstance(test, ast.BoolOp):
        op = ast.And() if isinstance(test.op, ast.Or) else ast.Or()
        return ast.BoolOp(op=op, values=[negate(v) for v in test.values])
    return ast.UnaryOp(op=ast.Not(), operand=test)


def canon_test(test):
    """N6 in test position (only the truth value of the result is used)"""
    if isinstance(test, ast.UnaryOp) and isinstance(test.op, ast.Not):
        return negate(canon_test(test.operand))
    if isinstance(test, ast.BoolOp):
        return ast.BoolOp(op=test.op, values=[canon_test(v) for v in test.values])
    return test


class _NotCompare(ast.NodeTransformer):
    """`not (a == b)` -> `a != b` etc. anywhere (both are bools for the same operands)"""

    def visit_UnaryOp(self, node):
        self.generic_visit(node)
        if isinstance(node.op, ast.Not) and isinstance(node.operand, ast.Compare) and len(node.operand.ops) == 1 \
                and isinstance(node.operand.ops[0], (ast.Eq, ast.NotEq, ast.In, ast.NotIn, ast.Is, ast.IsNot)):
            return negate(node.operand)
        return node


# ------------------------------------------------------------------------------------------------
# N2 helper inlining
# ------------------------------------------------------------------------------------------------

def _helper_expr(h):
    """(params, expression) of a straight-line helper, or None"""
    a = h.args
    if a.vararg or a.kwarg or a.kwonlyargs or a.posonlyargs or h.decorator_list:
        return None
    params = [x.arg for x in a.args]
    body = [s for s in h.body if not (isinstance(s, ast.Expr) and isinstance(s.value, ast.Constant)) and not isinstance(s, ast.Pass)]
    env = {}
    early = None
    for k, st in enumerate(body):
        last = k == len(body) - 1
        if isinstance(st, ast.Assign) and len(st.targets) == 1 and isinstance(st.targets[0], ast.Name) and not last:
            t = st.targets[0].id
            later = sum(1 for s2 in body[k + 1:] for n in ast.walk(s2) if isinstance(n, ast.Name) and n.id == t)
            # a temporary is substituted into its use: pure, or used exactly once (the symbolic evaluators downstream
            # accept only side-effect-free expressions, so the relative order of two such temporaries is unobservable)
            if t in params or t in env or not (is_pure_expr(st.value) or later == 1):
                return None
            env[t] = subst_names(st.value, env)
        elif isinstance(st, ast.If) and not last and early is None and not st.orelse and len(st.body) == 1 \
                and isinstance(st.body[0], ast.Return) and st.body[0].value is not None:
            early = (subst_names(st.test, env), subst_names(st.body[0].value, env))
        elif isinstance(st, ast.If) and last and early is None and len(st.body) == 1 and len(st.orelse) == 1 \
                and isinstance(st.body[0], ast.Return) and isinstance(st.orelse[0], ast.Return) \
                and st.body[0].value is not None and st.orelse[0].value is not None:
            e = ast.IfExp(test=subst_names(st.test, env), body=subst_names(st.body[0].value, env), orelse=subst_names(st.orelse[0].value, env))
            return params, a.defaults, e
        elif isinstance(st, ast.Return) and last and st.value is not None:
            e = subst_names(st.value, env)
            if early is not None:
                e = ast.IfExp(test=early[0], body=early[1], orelse=e)
            return params, a.defaults, e
        else:
            return None
    return None


def inline_helpers(fn, module):
    """N2.  Returns a copy of fn with calls of private module-level helpers / nested closures replaced by their bodies."""
    fn = copy.deepcopy(fn)
    nested = {s.name: s for s in fn.body if isinstance(s, ast.FunctionDef)}
    private = {s.name: s for s in module.body if isinstance(s, ast.FunctionDef) and s.name.startswith("_") and s.name != fn.name}
    if not nested and not any(isinstance(n, ast.Call) and isinstance(n.func, ast.Name) and n.func.id in private for n in ast.walk(fn)):
        return fn
    caller_locals = names_stored(fn) | {x.arg for x in fn.args.args}

    class Inl(ast.NodeTransformer):
        def visit_FunctionDef(self, node):
            if node is fn:
                self.generic_visit(node)
            return node                                   # bodies of nested defs are not rewritten

        def visit_Call(self, node):
            self.generic_visit(node)
            if not (isinstance(node.func, ast.Name) and (node.func.id in nested or node.func.id in private)):
                return node
            name = node.func.id
            h = nested.get(name) or private[name]
            he = _helper_expr(h)
            if he is None:
                raise ExtractError("%s: helper %s() is not straight-line, cannot inline (line %d)" % (fn.name, name, node.lineno))
            params, defaults, expr = he
            if any(isinstance(x, ast.Starred) for x in node.args) or any(k.arg is None for k in node.keywords):
                raise ExtractError("%s: call of helper %s() with * / ** (line %d)" % (fn.name, name, node.lineno))
            actual = dict(zip(params, node.args))
            if len(node.args) > len(params):
                raise ExtractError("%s: too many arguments for helper %s() (line %d)" % (fn.name, name, node.lineno))
            for k in node.keywords:
                if k.arg not in params or k.arg in actual:
                    raise ExtractError("%s: bad keyword for helper %s() (line %d)" % (fn.name, name, node.lineno))
                actual[k.arg] = k.value
            for p, d in zip(params[len(params) - len(defaults):], defaults):
                actual.setdefault(p, d)
            if set(actual) != set(params):
                raise ExtractError("%s: missing argument for helper %s() (line %d)" % (fn.name, name, node.lineno))
            uses = {p: sum(1 for n in ast.walk(expr) if isinstance(n, ast.Name) and n.id == p) for p in params}
            for p in params:
                if not is_atom(actual[p]) and uses[p] != 1:
                    raise ExtractError("%s: argument %s of helper %s() is not an atom (line %d)" % (fn.name, u(actual[p]), name, node.lineno))
            if sum(1 for p in params if not is_atom(actual[p])) > 1:
                raise ExtractError("%s: helper %s() called with several compound arguments (line %d)" % (fn.name, name, node.lineno))
            free = names_loaded(expr) - set(params)
            if name in private and (free & caller_locals):
                raise ExtractError("%s: helper %s() reads global(s) %s shadowed in the caller" % (fn.name, name, sorted(free & caller_locals)))
            comp_bound = {n.id for c in ast.walk(expr) if isinstance(c, ast.comprehension) for n in ast.walk(c.target) if isinstance(n, ast.Name)}
            if comp_bound & set().union(*[all_names(v) for v in actual.values()] or [set()]):
                raise ExtractError("%s: helper %s(): argument captured by a comprehension variable" % (fn.name, name))
            return ast.copy_location(subst_names(expr, actual), node)

    Inl().visit(fn)
    fn.body = [s for s in fn.body if not (isinstance(s, ast.FunctionDef) and s.name in nested)]
    for n in ast.walk(fn):
        if isinstance(n, ast.Name) and (n.id in nested):
            raise ExtractError("%s: nested helper %s used other than by a direct call" % (fn.name, n.id))
    return ast.fix_missing_locations(fn)


# ------------------------------------------------------------------------------------------------
# statement-level normalisation
# ------------------------------------------------------------------------------------------------

def _is_doc(st):
    return isinstance(st, ast.Pass) or (isinstance(st, ast.Expr) and isinstance(st.value, ast.Constant))


def _strip_tail_continue(block):
    """N5: `continue` in tail position of a loop body is a no-op"""
    if not block:
        return block
    last = block[-1]
    if isinstance(last, ast.Continue):
        return _strip_tail_continue(block[:-1])
    if isinstance(last, ast.If):
        body = _strip_tail_continue(last.body)
        orelse = _strip_tail_continue(last.orelse)
        if not body and not orelse:
            new = ast.If(test=last.test, body=[ast.Pass()], orelse=[])
        elif not body:
            new = ast.If(test=canon_test(negate(last.test)), body=orelse, orelse=[])
        else:
            new = ast.If(test=last.test, body=body, orelse=orelse)
        return block[:-1] + [ast.copy_location(new, last)]
    return block


def _ends_with_jump(block):
    return bool(block) and isinstance(block[-1], JUMPS)


class _Norm(object):
    def __init__(self, fn):
        self.fn = fn
        self.orig = copy.deepcopy(fn)          # untouched copy for whole-function questions
        self.no_try = not has_try(fn)

    # --- one block -------------------------------------------------------------------------------
    def block(self, stmts, in_loop=False):
        out = []
        for st in stmts:
            out.extend(self.stmt(st))
        out = [s for s in out if not _is_doc(s)]
        # N5: rest of the block after `if c: ...; jump` moves into the else branch
        k = 0
        while k < len(out):
            st = out[k]
            if isinstance(st, ast.If) and not st.orelse and _ends_with_jump(st.body) and k + 1 < len(out):
                rest = out[k + 1:]
                new = ast.copy_location(ast.If(test=st.test, body=st.body, orelse=self.block(rest)), st)
                out = out[:k] + [new]
                break
            k += 1
        if in_loop:
            out = _strip_tail_continue(out)
        out = self.merge_ifs(out)
        if self.no_try:
            out = self.unroll(out)
            out = self.loops_to_comps(out)
            out = self.inline_temps(out)
        return out

    # --- one statement -> list of statements ------------------------------------------------------
    def stmt(self, st):
        st = _NotCompare().visit(st)
        if isinstance(st, ast.FunctionDef) and st is not self.fn:
            return [st]
        if isinstance(st, ast.Assign):
            # N3 chained
            if len(st.targets) > 1 and all(isinstance(t, ast.Name) for t in st.targets):
                first = ast.copy_location(ast.Assign(targets=[st.targets[0]], value=st.value), st)
                rest = [ast.copy_location(ast.Assign(targets=[t], value=ast.Name(id=st.targets[0].id, ctx=ast.Load())), st)
                        for t in st.targets[1:]]
                return self.stmt(first) + rest
            # N3 tuple
            t = st.targets[0]
            if len(st.targets) == 1 and isinstance(t, (ast.Tuple, ast.List)) and isinstance(st.value, (ast.Tuple, ast.List)) \
                    and len(t.elts) == len(st.value.elts) and all(isinstance(e, ast.Name) for e in t.elts) \
                    and not any(isinstance(e, ast.Starred) for e in st.value.elts) and self.no_try:
                tn = {e.id for e in t.elts}
                if len(tn) == len(t.elts) and not any(tn & all_names(v) for v in st.value.elts):
                    res = []
                    for e, v in zip(t.elts, st.value.elts):
                        res += self.stmt(ast.copy_location(ast.Assign(targets=[e], value=v), st))
                    return res
            # N4
            if len(st.targets) == 1 and isinstance(st.value, ast.IfExp):
                a = ast.copy_location(ast.Assign(targets=st.targets, value=st.value.body), st)
                b = ast.copy_location(ast.Assign(targets=copy.deepcopy(st.targets), value=st.value.orelse), st)
                return self.stmt(ast.copy_location(ast.If(test=st.value.test, body=[a], orelse=[b]), st))
            return [st]
        if isinstance(st, ast.If):
            new = ast.If(test=canon_test(st.test), body=self.block(st.body), orelse=self.block(st.orelse))
            if not new.body:
                if not new.orelse:
                    new.body = [ast.Pass()]
                else:
                    new = ast.If(test=canon_test(negate(new.test)), body=new.orelse, orelse=[])
            return [ast.copy_location(new, st)]
        if isinstance(st, (ast.For, ast.While)):
            body = self.block(st.body, in_loop=True)
            orelse = self.block(st.orelse)
            new = copy.copy(st)
            new.body = body or [ast.Pass()]
            new.orelse = orelse
            if isinstance(st, ast.While):
                new.test = canon_test(st.test)
            return [new]
        if isinstance(st, ast.With):
            new = copy.copy(st)
            new.body = self.block(st.body) or [ast.Pass()]
            return [new]
        if isinstance(st, ast.Try):
            # N11: the blocks of a try statement are normalised in place (a function with a `try` only gets the rewrites that
            # keep every evaluation where it is: N1, N3 chained, N4, N5, N6, N7)
            new = copy.copy(st)
            new.body = self.block(st.body) or [ast.Pass()]
            new.handlers = []
            for h in st.handlers:
                nh = copy.copy(h)
                nh.body = self.block(h.body) or [ast.Pass()]
                new.handlers.append(nh)
            new.orelse = self.block(st.orelse)
            new.finalbody = self.block(st.finalbody)
            return [new]
        return [st]

    # --- N7 ------------------------------------------------------------------------------------------
    def merge_ifs(self, out):
        res = []
        for st in out:
            if res and isinstance(st, ast.If) and isinstance(res[-1], ast.If) and not st.orelse and not res[-1].orelse \
                    and ast.dump(st.test) == ast.dump(res[-1].test) \
                    and all(isinstance(n, (ast.Name, ast.Constant, ast.Compare, ast.BoolOp, ast.UnaryOp, ast.boolop, ast.cmpop,
                                           ast.unaryop, ast.expr_context)) for n in ast.walk(st.test)) \
                    and not (all_names(st.test) & set().union(*[names_stored(s) for s in res[-1].body])) \
                    and not _ends_with_jump(res[-1].body):
                prev = res[-1]
                res[-1] = ast.copy_location(ast.If(test=prev.test, body=self.block(prev.body + st.body), orelse=[]), prev)
            else:
                res.append(st)
        return res

    # --- N8 ------------------------------------------------------------------------------------------
    def unroll(self, out):
        res = []
        for k, st in enumerate(out):
            items = self._unroll_items(st, out[k + 1:])
            if items is None:
                res.append(st)
            else:
                for m in items:
                    for b in st.body:
                        res.extend(self.stmt(ast.copy_location(subst_names(b, m), b)))
        return res

    def _unroll_items(self, st, after):
        if not (isinstance(st, ast.For) and not st.orelse and isinstance(st.iter, (ast.Tuple, ast.List)) and 1 <= len(st.iter.elts) <= 8):
            return None
        if any(isinstance(n, (ast.Break, ast.Continue, ast.Return, ast.FunctionDef, ast.Lambda)) for b in st.body for n in ast.walk(b)):
            return None
        if isinstance(st.target, ast.Name):
            tnames = [st.target.id]
        elif isinstance(st.target, ast.Tuple) and all(isinstance(e, ast.Name) for e in st.target.elts):
            tnames = [e.id for e in st.target.elts]
        else:
            return None
        stored = set().union(*[names_rebound(b) for b in st.body])
        if set(tnames) & stored:
            return None
        if self._read_outside(st, tnames):                               # loop variable read after the loop
            return None
        items = []
        for e in st.iter.elts:
            if isinstance(st.target, ast.Name):
                vals = [e]
            elif isinstance(e, (ast.Tuple, ast.List)) and len(e.elts) == len(tnames):
                vals = list(e.elts)
            else:
                return None
            for v in vals:
                if isinstance(v, ast.Constant):
                    continue
                if isinstance(v, ast.Name) and v.id not in stored:
                    continue
                return None
            items.append(dict(zip(tnames, vals)))
        return items

    # --- N9 ------------------------------------------------------------------------------------------
    def loops_to_comps(self, out):
        res = []
        for k, st in enumerate(out):
            new = self._loop_comp(st, out[k + 1:])
            st = new or st
            # X = [] ; X += [comp]  ->  X = [comp]
            if res and isinstance(st, ast.AugAssign) and isinstance(st.op, ast.Add) and isinstance(st.target, ast.Name) \
                    and isinstance(st.value, ast.ListComp) and isinstance(res[-1], ast.Assign) and len(res[-1].targets) == 1 \
                    and isinstance(res[-1].targets[0], ast.Name) and res[-1].targets[0].id == st.target.id \
                    and isinstance(res[-1].value, ast.List) and not res[-1].value.elts \
                    and st.target.id not in all_names(st.value):
                res[-1] = ast.copy_location(ast.Assign(targets=[ast.Name(id=st.target.id, ctx=ast.Store())], value=st.value), res[-1])
                continue
            res.append(st)
        return res

    def _loop_comp(self, st, after):
        if not (isinstance(st, ast.For) and not st.orelse and len(st.body) >= 1):
            return None
        # loop-local pure temporaries (`hi = all_a[c[0]]`) are substituted into the appended element
        temps = {}
        for pre in st.body[:-1]:
            if not (isinstance(pre, ast.Assign) and len(pre.targets) == 1 and isinstance(pre.targets[0], ast.Name)
                    and is_pure_expr(pre.value) and pre.targets[0].id not in temps
                    and pre.targets[0].id not in all_names(pre.value)):
                return None
            temps[pre.targets[0].id] = subst_names(pre.value, temps)
        if temps:
            if set(temps) & (all_names(st.target) | all_names(st.iter)) or not all(self._loop_local(t) for t in temps):
                return None
        if temps and inner_bound(st.body[-1]) & set().union(*[all_names(v) for v in temps.values()]):
            return None
        inner = subst_names(st.body[-1], temps) if temps else st.body[-1]
        cond = None
        if isinstance(inner, ast.If) and not inner.orelse and len(inner.body) == 1:
            cond = inner.test
            inner = inner.body[0]
        X = E = None
        aug = False
        if isinstance(inner, ast.Expr) and isinstance(inner.value, ast.Call) and isinstance(inner.value.func, ast.Attribute) \
                and inner.value.func.attr == "append" and isinstance(inner.value.func.value, ast.Name) \
                and len(inner.value.args) == 1 and not inner.value.keywords and not isinstance(inner.value.args[0], ast.Starred):
            X, E = inner.value.func.value.id, inner.value.args[0]
        elif isinstance(inner, ast.AugAssign) and isinstance(inner.op, ast.Add) and isinstance(inner.target, ast.Name) \
                and isinstance(inner.value, ast.List) and len(inner.value.elts) == 1 and not isinstance(inner.value.elts[0], ast.Starred):
            X, E = inner.target.id, inner.value.elts[0]
            aug = True
        if X is None:
            return None
        tnames = {n.id for n in ast.walk(st.target) if isinstance(n, ast.Name)}
        if not all(isinstance(n, (ast.Name, ast.Tuple, ast.List)) for n in ast.walk(st.target) if isinstance(n, ast.expr)):
            return None
        used = all_names(E) | all_names(st.iter) | (all_names(cond) if cond is not None else set())
        if X in used or X in tnames:
            return None
        if self._read_outside(st, tnames):
            return None
        if aug and not self._is_local_list(X):
            return None
        if any(isinstance(n, (ast.Yield, ast.YieldFrom, ast.Await, ast.NamedExpr, ast.Lambda, ast.FunctionDef)) for n in ast.walk(st)):
            return None
        comp = ast.ListComp(elt=E, generators=[ast.comprehension(target=st.target, iter=st.iter, ifs=[cond] if cond is not None else [], is_async=0)])
        new = ast.AugAssign(target=ast.Name(id=X, ctx=ast.Store()), op=ast.Add(), value=comp)
        return ast.fix_missing_locations(ast.copy_location(new, st))

    def _read_outside(self, st, names):
        """may one of the loop variables be read while still holding the value this loop left in it?  Conservative: any
        read in the function that is not inside the body of a `for` / a comprehension binding that very name counts."""
        def free_loads(node, name, bound):
            n = 0
            if isinstance(node, ast.Name):
                return int(node.id == name and isinstance(node.ctx, ast.Load) and not bound)
            if isinstance(node, ast.For):
                tb = name in {x.id for x in ast.walk(node.target) if isinstance(x, ast.Name)}
                n += free_loads(node.iter, name, bound)
                n += sum(free_loads(b, name, bound or tb) for b in node.body)
                n += sum(free_loads(b, name, bound) for b in node.orelse)
                return n
            if isinstance(node, (ast.ListComp, ast.SetComp, ast.GeneratorExp, ast.DictComp)):
                tb = any(name in {x.id for x in ast.walk(g.target) if isinstance(x, ast.Name)} for g in node.generators)
                n += free_loads(node.generators[0].iter, name, bound)          # evaluated in the enclosing scope
                for c in ast.iter_child_nodes(node):
                    if isinstance(c, ast.comprehension):
                        n += sum(free_loads(x, name, bound or tb) for x in ast.iter_child_nodes(c) if x is not node.generators[0].iter)
                    else:
                        n += free_loads(c, name, bound or tb)
                return n
            return sum(free_loads(c, name, bound) for c in ast.iter_child_nodes(node))
        return any(free_loads(self.orig, n, False) > 0 for n in names)

    def _loop_local(self, t):
        """every read of t in the function comes, in the body of some `for`, after a top-level assignment to t in that
        same body (so no read can see a value left over from another iteration space or from this loop's last pass)"""
        covered = 0
        for loop in ast.walk(self.orig):
            if not isinstance(loop, ast.For):
                continue
            seen = False
            for b in loop.body:
                if seen:
                    covered += count_loads(b, t)
                elif isinstance(b, ast.Assign) and t in {n.id for tg in b.targets for n in ast.walk(tg) if isinstance(n, ast.Name)} \
                        and not count_loads(b, t):
                    seen = True
        params = {a.arg for a in self.orig.args.args}
        return t not in params and covered == count_loads(self.orig, t)

    def _is_local_list(self, X):
        """every binding of X in the function is a list display / list comprehension (so `X += [e]` is list.extend)"""
        vals = [n.value for n in ast.walk(self.orig) if isinstance(n, ast.Assign) and any(isinstance(t, ast.Name) and t.id == X for t in n.targets)]
        binds = sum(1 for n in ast.walk(self.orig) if isinstance(n, ast.Name) and n.id == X and isinstance(n.ctx, (ast.Store, ast.Del)))
        binds -= sum(1 for n in ast.walk(self.orig) if isinstance(n, ast.AugAssign) and isinstance(n.target, ast.Name) and n.target.id == X
                     and isinstance(n.op, ast.Add))
        params = {a.arg for a in self.orig.args.args}
        return bool(vals) and binds == len(vals) and X not in params and all(isinstance(v, (ast.List, ast.ListComp)) for v in vals)

    # --- N10 -----------------------------------------------------------------------------------------
    def inline_temps(self, out):
        bind_count = {}
        for n in ast.walk(self.orig):
            if isinstance(n, ast.Name) and isinstance(n.ctx, (ast.Store, ast.Del)):
                bind_count[n.id] = bind_count.get(n.id, 0) + 1
        params = {a.arg for a in self.orig.args.args}
        load_count = {}
        for n in ast.walk(self.orig):
            if isinstance(n, ast.Name) and isinstance(n.ctx, ast.Load):
                load_count[n.id] = load_count.get(n.id, 0) + 1
        res = list(out)
        k = 0
        while k + 1 < len(res):
            st, nxt = res[k], res[k + 1]
            if isinstance(st, ast.Assign) and len(st.targets) == 1 and isinstance(st.targets[0], ast.Name):
                t = st.targets[0].id
                if bind_count.get(t, 0) == 1 and t not in params and is_pure_expr(st.value) and t not in all_names(st.value):
                    if isinstance(nxt, (ast.Assign, ast.AugAssign, ast.Expr, ast.Return)):
                        scope = [nxt]
                    elif isinstance(nxt, ast.With):
                        scope = [i.context_expr for i in nxt.items]
                    elif isinstance(nxt, ast.For):
                        scope = [nxt.iter]
                    elif isinstance(nxt, ast.If):
                        scope = [nxt.test]
                    else:
                        scope = []
                    uses = sum(1 for s in scope for n in ast.walk(s) if isinstance(n, ast.Name) and n.id == t and isinstance(n.ctx, ast.Load))
                    stored_in_scope = set().union(*[names_stored(s) for s in scope]) if scope else set()
                    captured = set().union(*[inner_bound(s) for s in scope]) if scope else set()
                    if uses >= 1 and uses == load_count.get(t, 0) and not (all_names(st.value) & (stored_in_scope | captured)):
                        m = {t: st.value}
                        if isinstance(nxt, (ast.Assign, ast.AugAssign, ast.Expr, ast.Return)):
                            new = subst_names(nxt, m)
                        elif isinstance(nxt, ast.With):
                            new = copy.copy(nxt)
                            new.items = [ast.withitem(context_expr=subst_names(i.context_expr, m), optional_vars=i.optional_vars) for i in nxt.items]
                        elif isinstance(nxt, ast.For):
                            new = copy.copy(nxt)
                            new.iter = subst_names(nxt.iter, m)
                        else:
                            new = copy.copy(nxt)
                            new.test = subst_names(nxt.test, m)
                        res[k:k + 2] = [ast.copy_location(new, nxt)]
                        k = max(k - 1, 0)
                        continue
            k += 1
        return res


def normalise_function(fn, module):
    """N1-N10.  Returns a normalised deep copy of the FunctionDef (line numbers of surviving nodes kept)."""
    fn = inline_helpers(fn, module)
    nz = _Norm(fn)
    fn.body = nz.block(fn.body) or [ast.Pass()]
    return ast.fix_missing_locations(fn)
