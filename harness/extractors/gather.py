"""Generated/Gather.lean: the index arithmetic of the scatter/gather steps of `simplifier.make_changes` and
`simplifier.check_results`, as small terms (`ESR.Gather.Ix`, `PStep`, see lean/ESRVerif/Model/GatherSyntax.lean) that
the model `ESR.Gather.makeChanges` / `flaggedIndices` interprets and that `Props/C13b.lean` compares with the shape
its theorems are proved for.

A tiny symbolic execution of the function body (straight-line assignments, tuple assignments, `+=`, the
`if len(i) == 0: … else: …` case split on a `split_idx` result, `if rank == 0:` blocks around a gather/bcast pair)
gives, at the statements that matter, the value of each index variable as a term over
`total` (`len(all_fun)` of the global list / `nfun`), `rank`, `size`, `localLen` (length of the rank's own block):

make_changes  : count   = what each rank sends to `comm.gather(start_idx)`
                steps   = what rank 0 does to the gathered list (`[0] + …`, `np.cumsum`, `[k:]`)
                cmpBase = `imin` of `str_fun[i] != all_fun[imin+i]`
                useShift= `k` in `j = chidx[i] + start_idx[i+k]`
check_results : sliceLo/sliceHi = the gathered bounds of `all_fun[imin[i]:imax[i]]` that is scattered
                offset  = `imin` of `to_change.append([i+imin, all_fun[i]])`
Anything it cannot read is an ExtractError (fail closed).  Values it cannot express are poisoned and only raise when used.
"""
import ast
import extract
from extract import ExtractError

FILE = "esr/generation/simplifier.py"
POISON = ("poison",)
ARITH = {ast.Add: "add", ast.Sub: "sub", ast.Mult: "mul"}


def _is_call(e, *names):
    """e is a call of NAME or MODULE.NAME for one of names"""
    if not isinstance(e, ast.Call):
        return False
    f = e.func
    nm = f.id if isinstance(f, ast.Name) else f.attr if isinstance(f, ast.Attribute) else None
    return nm in names


def _comm(e, op):
    return (isinstance(e, ast.Call) and isinstance(e.func, ast.Attribute) and isinstance(e.func.value, ast.Name)
            and e.func.value.id == "comm" and e.func.attr == op)


def _root0(e):
    for kw in e.keywords:
        if kw.arg == "root":
            return isinstance(kw.value, ast.Constant) and kw.value.value == 0
    return len(e.args) < 2 or (isinstance(e.args[1], ast.Constant) and e.args[1].value == 0)


def _const_int(e):
    if isinstance(e, ast.Constant) and isinstance(e.value, int) and not isinstance(e.value, bool):
        return e.value
    if isinstance(e, ast.UnaryOp) and isinstance(e.op, ast.USub) and isinstance(e.operand, ast.Constant) and isinstance(e.operand.value, int):
        return -e.operand.value
    return None


def _is_ix(t):
    return isinstance(t, tuple) and t and t[0] in ("total", "rank", "size", "localLen", "lit", "add", "sub", "mul", "splitLo", "splitHi", "ifSplitEmpty")


class Exec(object):
    def __init__(self, fn, env, lens, seeded):
        self.fn = fn
        self.env = dict(env)          # name -> term | ("split", n, r, p) | ("gath", ix, steps) | ("rank0", v) | ("block",) | POISON
        self.lens = dict(lens)        # list name -> term of its len()
        self.seeded = set(seeded)     # names whose meaning is fixed by the hand model; only trivially reassigned
        self.slices = {}              # list name -> (lo term, hi term) of `[X[lo[i]:hi[i]] for i in range(size)]` on rank 0
        self.rank0 = False

    # ---- expressions ----
    def expr(self, e):
        if isinstance(e, ast.Name):
            return self.env.get(e.id, POISON)
        c = _const_int(e)
        if c is not None:
            return ("lit", c)
        if isinstance(e, ast.BinOp) and type(e.op) in ARITH:
            # list concatenation `[0] + gathered` (rank 0)
            if isinstance(e.op, ast.Add) and isinstance(e.left, ast.List) and len(e.left.elts) == 1 and _const_int(e.left.elts[0]) is not None:
                g = self.expr(e.right)
                if g[0] == "gath" and _const_int(e.left.elts[0]) >= 0:
                    return ("gath", g[1], g[2] + (("prepend", _const_int(e.left.elts[0])),))
                return POISON
            a, b = self.expr(e.left), self.expr(e.right)
            if _is_ix(a) and _is_ix(b):
                return (ARITH[type(e.op)], a, b)
            return POISON
        if _is_call(e, "len") and len(e.args) == 1 and isinstance(e.args[0], ast.Name):
            nm = e.args[0].id
            if self.env.get(nm, (None,))[0] == "block":
                return ("localLen",)
            return self.lens.get(nm, POISON)
        if _is_call(e, "atleast_1d", "array", "squeeze", "asarray") and e.args:
            return self.expr(e.args[0])          # shape-only wrappers (dtype keyword ignored)
        if _is_call(e, "cumsum") and len(e.args) == 1:
            g = self.expr(e.args[0])
            return ("gath", g[1], g[2] + (("cumsum",),)) if g[0] == "gath" else POISON
        if _is_call(e, "split_idx") and len(e.args) == 3:
            a = [self.expr(x) for x in e.args]
            return ("split",) + tuple(a) if all(_is_ix(x) for x in a) else POISON
        if isinstance(e, ast.Subscript):
            v = self.expr(e.value)
            if v[0] == "split":
                k = _const_int(e.slice)
                if k == 0:
                    return ("splitLo",) + v[1:]
                if k == -1:
                    return ("splitHi",) + v[1:]
                return POISON
            if v[0] == "gath" and isinstance(e.slice, ast.Slice) and e.slice.upper is None and e.slice.step is None and e.slice.lower is not None:
                k = _const_int(e.slice.lower)
                if k is not None and k >= 0:
                    return ("gath", v[1], v[2] + (("dropFirst", k),))
            return POISON
        if _comm(e, "gather") and e.args and _root0(e):
            v = self.expr(e.args[0])
            return ("rank0", ("gath", v, ())) if _is_ix(v) else POISON
        if _comm(e, "bcast") and e.args and _root0(e):
            v = self.expr(e.args[0])
            return v[1] if v[0] == "rank0" else POISON
        if _comm(e, "scatter") and e.args and _root0(e) and isinstance(e.args[0], ast.Name) and e.args[0].id in self.slices:
            return ("block",) + self.slices[e.args[0].id]
        # rank 0: `[X[lo[i]:hi[i]] for i in range(size)]`
        if isinstance(e, ast.ListComp) and len(e.generators) == 1 and not e.generators[0].ifs and isinstance(e.elt, ast.Subscript) \
                and isinstance(e.elt.slice, ast.Slice) and isinstance(e.elt.value, ast.Name):
            g = e.generators[0]
            sl = e.elt.slice
            if (isinstance(g.target, ast.Name) and _is_call(g.iter, "range") and len(g.iter.args) == 1 and self.expr(g.iter.args[0]) == ("size",)
                    and sl.step is None and all(isinstance(b, ast.Subscript) and isinstance(b.slice, ast.Name) and b.slice.id == g.target.id
                                                for b in (sl.lower, sl.upper))):
                lo, hi = self.expr(sl.lower.value), self.expr(sl.upper.value)
                if lo[0] == "gath" and hi[0] == "gath" and not lo[2] and not hi[2]:
                    return ("slices", lo[1], hi[1])
            return POISON
        return POISON

    # ---- statements ----
    def assign(self, name, val, node=None):
        if name in self.seeded:
            ok = node is not None and ((isinstance(node, ast.Constant) and node.value is None) or
                                       (_is_call(node, "len") and len(node.args) == 1 and isinstance(node.args[0], ast.Name)) or
                                       (_comm(node, "bcast") and node.args and isinstance(node.args[0], ast.Name) and node.args[0].id == name))
            if not ok:
                raise ExtractError("%s: `%s` is reassigned (line %d); the model reads it as the length of the scattered list" % (
                    self.fn.name, name, getattr(node, "lineno", 0)))
            return
        self.slices.pop(name, None)
        if val[0] == "slices":
            self.slices[name] = val[1:]
            val = POISON
        self.env[name] = val

    def split_test(self, t):
        """`len(V) == 0` etc. on a split_idx result: returns (split term, True if the THEN branch is the empty case)"""
        if isinstance(t, ast.Compare) and len(t.ops) == 1 and _is_call(t.left, "len") and len(t.left.args) == 1:
            v = self.expr(t.left.args[0])
            k = _const_int(t.comparators[0])
            if v[0] == "split" and k is not None:
                op = type(t.ops[0])
                if (op, k) in ((ast.Eq, 0), (ast.Lt, 1), (ast.LtE, 0)):
                    return v, True
                if (op, k) in ((ast.Gt, 0), (ast.NotEq, 0), (ast.GtE, 1)):
                    return v, False
        return None

    def run(self, body, stop=None):
        """execute statements until (not including) the statement `stop`; returns True if stop was reached"""
        for st in body:
            if st is stop:
                return True
            if isinstance(st, ast.Assign) and len(st.targets) == 1:
                tg = st.targets[0]
                if isinstance(tg, ast.Name):
                    self.assign(tg.id, self.expr(st.value), st.value)
                elif isinstance(tg, (ast.Tuple, ast.List)) and all(isinstance(x, ast.Name) for x in tg.elts):
                    names = [x.id for x in tg.elts]
                    if isinstance(st.value, (ast.Tuple, ast.List)) and len(st.value.elts) == len(names):
                        vals = [self.expr(x) for x in st.value.elts]
                        for nm, v, nd in zip(names, vals, st.value.elts):
                            self.assign(nm, v, nd)
                    else:
                        v = self.expr(st.value)
                        if v[0] == "split" and len(names) == 2:
                            self.assign(names[0], ("splitLo",) + v[1:])
                            self.assign(names[1], ("splitHi",) + v[1:])
                        else:
                            for nm in names:
                                self.assign(nm, POISON)
                else:
                    for n in ast.walk(tg):
                        if isinstance(n, ast.Name) and isinstance(n.ctx, ast.Store):
                            self.assign(n.id, POISON)
            elif isinstance(st, ast.AugAssign) and isinstance(st.target, ast.Name):
                a, b = self.env.get(st.target.id, POISON), self.expr(st.value)
                self.assign(st.target.id, (ARITH[type(st.op)], a, b) if type(st.op) in ARITH and _is_ix(a) and _is_ix(b) else POISON)
            elif isinstance(st, ast.If):
                sp = self.split_test(st.test)
                is_rank0 = (isinstance(st.test, ast.Compare) and len(st.test.ops) == 1 and isinstance(st.test.ops[0], ast.Eq)
                            and isinstance(st.test.left, ast.Name) and st.test.left.id == "rank" and _const_int(st.test.comparators[0]) == 0)
                a, b = self.fork(), self.fork()
                if is_rank0:
                    for k, v in list(a.env.items()):
                        if v[0] == "rank0":
                            a.env[k] = v[1]
                ra = a.run(st.body, stop)
                rb = b.run(st.orelse, stop)
                if ra or rb:
                    raise ExtractError("%s: the statement looked for sits under a condition (line %d)" % (self.fn.name, st.lineno))
                for nm in set(a.env) | set(b.env):
                    va, vb = a.env.get(nm, POISON), b.env.get(nm, POISON)
                    if is_rank0 and vb == ("rank0", va):
                        self.env[nm] = vb                      # untouched rank-0 value
                    elif va == vb:
                        self.env[nm] = va
                    elif is_rank0:
                        self.env[nm] = ("rank0", va)           # only usable through `comm.bcast(…, root=0)`
                    elif sp is not None and _is_ix(va) and _is_ix(vb):
                        emp, non = (va, vb) if sp[1] else (vb, va)
                        self.env[nm] = ("ifSplitEmpty",) + sp[0][1:] + (emp, non)
                    else:
                        self.env[nm] = POISON
                self.slices.update(a.slices)
            elif isinstance(st, (ast.For, ast.While, ast.Try, ast.With)):
                # not interpreted: everything assigned inside is unknown afterwards
                for n in ast.walk(st):
                    if isinstance(n, ast.Name) and isinstance(n.ctx, ast.Store):
                        if n.id in self.seeded:
                            raise ExtractError("%s: `%s` assigned inside a loop (line %d)" % (self.fn.name, n.id, st.lineno))
                        self.env[n.id] = POISON
                if any(s is stop for s in ast.walk(st)):
                    raise ExtractError("%s: the statement looked for sits inside a compound statement (line %d)" % (self.fn.name, st.lineno))
            elif isinstance(st, ast.Delete):
                for t in st.targets:
                    if isinstance(t, ast.Name):
                        self.env[t.id] = POISON
        return False

    def fork(self):
        x = Exec(self.fn, self.env, self.lens, self.seeded)
        x.slices = dict(self.slices)
        return x


def _need_ix(t, what):
    if not _is_ix(t):
        raise ExtractError("%s is not an expression over len/rank/size/split_idx that the extractor can read (%r)" % (what, t[0] if t else t))
    return t


def _stores(node, name):
    return any(isinstance(n, ast.Name) and n.id == name and isinstance(n.ctx, (ast.Store, ast.Del)) for n in ast.walk(node))


def _plus_loopvar(e, var):
    """e == var + X or X + var -> X"""
    if isinstance(e, ast.BinOp) and isinstance(e.op, ast.Add):
        if isinstance(e.left, ast.Name) and e.left.id == var:
            return e.right
        if isinstance(e.right, ast.Name) and e.right.id == var:
            return e.left
    return None


def read_make_changes(fn):
    params = [a.arg for a in fn.args.args]
    if len(params) != 6:
        raise ExtractError("make_changes: expected 6 parameters, found %d" % len(params))
    all_fun, all_sym, all_inv, str_fun, sym_fun, inv_fun = params
    ex = Exec(fn, {"rank": ("rank",), "size": ("size",)}, {all_fun: ("total",), str_fun: ("localLen",)}, [])
    # the final update loop: `for i in range(size): j = chidx[i] + start_idx[...]`
    loops = [st for st in fn.body if isinstance(st, ast.For) and _is_call(st.iter, "range") and len(st.iter.args) == 1
             and isinstance(st.iter.args[0], ast.Name) and st.iter.args[0].id == "size" and isinstance(st.target, ast.Name)]
    if len(loops) != 1:
        raise ExtractError("make_changes: expected exactly one top-level `for … in range(size)` update loop, found %d" % len(loops))
    loop = loops[0]
    for p in params[:3]:
        for st in fn.body:
            if st is loop:
                break
            if _stores(st, p) or any(isinstance(n, ast.Subscript) and isinstance(n.ctx, ast.Store) and isinstance(n.value, ast.Name) and n.value.id == p
                                     for n in ast.walk(st)):
                raise ExtractError("make_changes: `%s` is modified before the update loop (line %d)" % (p, st.lineno))
    ex.run(fn.body, stop=loop)
    # chidx comprehension
    comps = []
    for st in fn.body:
        if st is loop:
            break
        if isinstance(st, ast.Assign) and isinstance(st.value, ast.ListComp) and len(st.value.generators) == 1 and len(st.value.generators[0].ifs) == 1:
            g = st.value.generators[0]
            c = g.ifs[0]
            if isinstance(c, ast.Compare) and len(c.ops) == 1 and isinstance(c.ops[0], ast.NotEq):
                comps.append((st, g, c))
    if len(comps) != 1:
        raise ExtractError("make_changes: expected one `[i for i in range(len(str_fun)) if str_fun[i] != all_fun[imin+i]]`, found %d candidates" % len(comps))
    st, g, c = comps[0]
    var = g.target.id if isinstance(g.target, ast.Name) else None
    ok = (var and isinstance(st.value.elt, ast.Name) and st.value.elt.id == var and _is_call(g.iter, "range") and len(g.iter.args) == 1
          and _is_call(g.iter.args[0], "len") and isinstance(g.iter.args[0].args[0], ast.Name) and g.iter.args[0].args[0].id == str_fun)
    sides = [c.left, c.comparators[0]]
    loc = [s for s in sides if isinstance(s, ast.Subscript) and isinstance(s.value, ast.Name) and s.value.id == str_fun
           and isinstance(s.slice, ast.Name) and s.slice.id == var]
    glob = [s for s in sides if isinstance(s, ast.Subscript) and isinstance(s.value, ast.Name) and s.value.id == all_fun]
    if not ok or len(loc) != 1 or len(glob) != 1:
        raise ExtractError("make_changes: changed-index comprehension has an unrecognised shape (line %d)" % st.lineno)
    base = _plus_loopvar(glob[0].slice, var)
    if base is None:
        raise ExtractError("make_changes: `all_fun[…]` in the changed-index comprehension is not `loop variable + offset` (line %d)" % st.lineno)
    chname = st.targets[0].id if isinstance(st.targets[0], ast.Name) else None
    # the comprehension is evaluated with the environment at that statement
    ex2 = Exec(fn, {"rank": ("rank",), "size": ("size",)}, {all_fun: ("total",), str_fun: ("localLen",)}, [])
    ex2.run(fn.body, stop=st)
    cmp_base = _need_ix(ex2.expr(base), "make_changes: offset in `all_fun[offset+i]`")
    # changes lists `[X[c] for c in chidx]`
    changes = {}
    for s2 in fn.body:
        if s2 is loop:
            break
        if isinstance(s2, ast.Assign) and isinstance(s2.targets[0], ast.Name) and isinstance(s2.value, ast.ListComp) and s2 is not st:
            gg = s2.value.generators[0]
            el = s2.value.elt
            if (len(s2.value.generators) == 1 and not gg.ifs and isinstance(gg.iter, ast.Name) and gg.iter.id == chname and isinstance(gg.target, ast.Name)
                    and isinstance(el, ast.Subscript) and isinstance(el.value, ast.Name) and isinstance(el.slice, ast.Name) and el.slice.id == gg.target.id):
                changes[s2.targets[0].id] = el.value.id
    # update loop
    i = loop.target.id
    if not loop.body or not isinstance(loop.body[0], ast.Assign) or not isinstance(loop.body[0].targets[0], ast.Name):
        raise ExtractError("make_changes: update loop does not start with `j = chidx[i] + start_idx[i]` (line %d)" % loop.lineno)
    jst = loop.body[0]
    j = jst.targets[0].id
    v = jst.value
    if not (isinstance(v, ast.BinOp) and isinstance(v.op, ast.Add) and all(isinstance(s, ast.Subscript) and isinstance(s.value, ast.Name) for s in (v.left, v.right))):
        raise ExtractError("make_changes: `%s = …` is not a sum of two subscripts (line %d)" % (j, jst.lineno))
    parts = {s.value.id: s for s in (v.left, v.right)}
    if chname not in parts or len(parts) != 2:
        raise ExtractError("make_changes: `%s = …` does not add an offset to `%s[i]` (line %d)" % (j, chname, jst.lineno))
    if not (isinstance(parts[chname].slice, ast.Name) and parts[chname].slice.id == i):
        raise ExtractError("make_changes: `%s[…]` is not indexed by the rank loop variable (line %d)" % (chname, jst.lineno))
    sname = [k for k in parts if k != chname][0]
    sidx = parts[sname].slice
    if isinstance(sidx, ast.Name) and sidx.id == i:
        shift = 0
    else:
        x = _plus_loopvar(sidx, i)
        shift = _const_int(x) if x is not None else None
        if shift is None or shift < 0:
            raise ExtractError("make_changes: index of `%s` in the update loop is not `i` or `i + k` (line %d)" % (sname, jst.lineno))
    sv = ex.env.get(sname, POISON)
    if sv[0] != "gath":
        raise ExtractError("make_changes: `%s` is not a gathered-and-broadcast list of per-rank counts (%s)" % (sname, sv[0]))
    count = _need_ix(sv[1], "make_changes: per-rank value gathered into `%s`" % sname)
    # inner loop: `for k in range(len(X_changes[i])): all_*[j[k]] = X_changes[i][k]`
    inner = [s for s in loop.body[1:] if isinstance(s, ast.For)]
    if len(inner) != 1 or len(loop.body) != 2 or not isinstance(inner[0].target, ast.Name):
        raise ExtractError("make_changes: update loop body is not `j = …` followed by one inner loop (line %d)" % loop.lineno)
    k = inner[0].target.id
    it = inner[0].iter
    okit = (_is_call(it, "range") and len(it.args) == 1 and _is_call(it.args[0], "len") and isinstance(it.args[0].args[0], ast.Subscript)
            and isinstance(it.args[0].args[0].value, ast.Name) and it.args[0].args[0].value.id in changes
            and isinstance(it.args[0].args[0].slice, ast.Name) and it.args[0].args[0].slice.id == i)
    if not okit:
        raise ExtractError("make_changes: inner loop does not run over `range(len(<changes>[i]))` (line %d)" % inner[0].lineno)
    written = {}
    for n in ast.walk(inner[0]):
        if isinstance(n, ast.Assign):
            tg = n.targets[0]
            if not (isinstance(tg, ast.Subscript) and isinstance(tg.value, ast.Name) and tg.value.id in params[:3]
                    and isinstance(tg.slice, ast.Subscript) and isinstance(tg.slice.value, ast.Name) and tg.slice.value.id == j
                    and isinstance(tg.slice.slice, ast.Name) and tg.slice.slice.id == k):
                raise ExtractError("make_changes: assignment in the update loop is not `all_*[j[k]] = …` (line %d)" % n.lineno)
            val = n.value
            if isinstance(val, ast.Constant) and val.value is None:
                continue
            if isinstance(val, ast.Call) and isinstance(val.func, ast.Attribute) and val.func.attr == "copy" and not val.args:
                val = val.func.value
            if not (isinstance(val, ast.Subscript) and isinstance(val.value, ast.Subscript) and isinstance(val.value.value, ast.Name)
                    and isinstance(val.value.slice, ast.Name) and val.value.slice.id == i and isinstance(val.slice, ast.Name) and val.slice.id == k):
                raise ExtractError("make_changes: value written in the update loop is not `<changes>[i][k]` (line %d)" % n.lineno)
            written[tg.value.id] = changes.get(val.value.value.id)
    want = {all_fun: str_fun, all_sym: sym_fun, all_inv: inv_fun}
    if written != want:
        raise ExtractError("make_changes: update loop writes %r, expected %r" % (written, want))
    return dict(count=count, cmpBase=cmp_base, steps=list(sv[2]), useShift=shift)


def read_check_results(fn):
    # `to_change.append([i + imin, all_fun[i]])`
    hits = []
    for loop in fn.body:
        if not isinstance(loop, ast.For):
            continue
        for n in ast.walk(loop):
            if (isinstance(n, ast.Call) and isinstance(n.func, ast.Attribute) and n.func.attr == "append" and len(n.args) == 1
                    and isinstance(n.args[0], (ast.List, ast.Tuple)) and len(n.args[0].elts) == 2):
                hits.append((loop, n))
    if len(hits) != 1:
        raise ExtractError("check_results: expected one `to_change.append([i+imin, all_fun[i]])` in a top-level loop, found %d" % len(hits))
    loop, call = hits[0]
    lst = call.func.value.id if isinstance(call.func.value, ast.Name) else None
    var = loop.target.id if isinstance(loop.target, ast.Name) else None
    it = loop.iter
    if not (var and _is_call(it, "range") and len(it.args) == 1 and _is_call(it.args[0], "len") and isinstance(it.args[0].args[0], ast.Name)):
        raise ExtractError("check_results: flagging loop is not `for i in range(len(all_fun))` (line %d)" % loop.lineno)
    blockname = it.args[0].args[0].id
    el0, el1 = call.args[0].elts
    off = _plus_loopvar(el0, var)
    if off is None:
        raise ExtractError("check_results: first component of the flagged entry is not `i + offset` (line %d)" % call.lineno)
    if not (isinstance(el1, ast.Subscript) and isinstance(el1.value, ast.Name) and el1.value.id == blockname and isinstance(el1.slice, ast.Name) and el1.slice.id == var):
        raise ExtractError("check_results: second component of the flagged entry is not `%s[i]` (line %d)" % (blockname, call.lineno))
    for nm in [n.id for n in ast.walk(off) if isinstance(n, ast.Name)]:
        if _stores(loop, nm):
            raise ExtractError("check_results: `%s` is assigned inside the flagging loop" % nm)
    ex = Exec(fn, {"rank": ("rank",), "size": ("size",), "nfun": ("total",)}, {}, ["nfun"])
    if not ex.run(fn.body, stop=loop):
        raise ExtractError("check_results: flagging loop not reached")
    blk = ex.env.get(blockname, POISON)
    if blk[0] != "block":
        raise ExtractError("check_results: `%s` is not this rank's block `comm.scatter([%s[imin[i]:imax[i]] for i in range(size)])` (%s)" % (blockname, blockname, blk[0]))
    lo = _need_ix(blk[1], "check_results: lower slice bound gathered from the ranks")
    hi = _need_ix(blk[2], "check_results: upper slice bound gathered from the ranks")
    offset = _need_ix(ex.expr(off), "check_results: offset added to the local flagged index")
    # after the loop: gather at rank 0, chain, map through shufidx
    after = fn.body[fn.body.index(loop) + 1:]
    src = "\n".join(ast.unparse(s) for s in after)
    need = ["%s = comm.gather(%s, root=0)" % (lst, lst), "%s = list(itertools.chain(*%s))" % (lst, lst), "r[0] = shufidx[r[0]]"]
    for s in need:
        if s not in src:
            raise ExtractError("check_results: `%s` not found after the flagging loop" % s)
    return dict(sliceLo=lo, sliceHi=hi, offset=offset)


def lean_ix(t):
    k = t[0]
    if k in ("total", "rank", "size", "localLen"):
        return "." + k
    if k == "lit":
        return "(.lit %s)" % (("(%d)" % t[1]) if t[1] < 0 else str(t[1]))
    return "(.%s %s)" % (k, " ".join(lean_ix(x) for x in t[1:]))


def lean_step(s):
    return ".cumsum" if s[0] == "cumsum" else "(.%s %d)" % (s[0], s[1])


@extract.extractor("Gather")
def gen(stage):
    tree = extract._parse(stage, FILE)
    mc = read_make_changes(extract.find_def(tree, "make_changes"))
    cr = read_check_results(extract.find_def(tree, "check_results"))
    t = "import ESRVerif.Model.GatherSyntax\n" + extract.header("Gather", [FILE])
    t += "open ESR.Gather\n\n"
    t += ("/-- `make_changes`: per-rank count sent to the gather, base of `all_fun[imin+i]`, rank 0's treatment of the gathered counts,\n"
          "and the index used in `j = chidx[i] + start_idx[i + useShift]` -/\n"
          "def makeChanges : MakeChangesDesc where\n  count := %s\n  cmpBase := %s\n  steps := [%s]\n  useShift := %d\n\n" % (
              lean_ix(mc["count"]), lean_ix(mc["cmpBase"]), ", ".join(lean_step(s) for s in mc["steps"]), mc["useShift"]))
    t += ("/-- `check_results`: bounds of the slice scattered to each rank and the offset added to a local flagged index -/\n"
          "def checkResults : CheckResultsDesc where\n  sliceLo := %s\n  sliceHi := %s\n  offset := %s\n" % (
              lean_ix(cr["sliceLo"]), lean_ix(cr["sliceHi"]), lean_ix(cr["offset"])))
    t += extract.footer("Gather")
    return t
