"""Generated/Gather.lean: the index arithmetic of the scatter/gather steps of `simplifier.make_changes` and
`simplifier.check_results`, as small terms (`ESR.Gather.Ix`, `PStep`, see lean/ESRVerif/Model/GatherSyntax.lean) that
the model `ESR.Gather.makeChanges` / `flaggedIndices` interprets and that `Props/C13b.lean` compares with the shape
its theorems are proved for.

The two functions are first normalised (`_norm_c13.normalise`: one level of helper inlining, conditional expression ->
if/else, chained assignment, append loops -> comprehensions, negated tests, `chain.from_iterable`) and then read by a small
abstract interpreter.  It knows

  index terms  over `total` (`len(all_fun)` of the global list / `nfun`), `rank`, `size`, `localLen` (length of the rank's own
               block), integer literals, `+ - *`, `split_idx(n, r, p)[0]`, `[-1]` (= `[1]`), and the case split every use site
               makes on the emptiness of a `split_idx` result (`len(v) == 0`, `not v`, `v == []`, ... either polarity, as a
               statement or as a conditional expression);
  per-rank data `comm.gather(x, root=0)` / `comm.bcast(…, root=0)` / `comm.allgather(x)` of an index term (a list indexed by
               rank; rank 0's `[0] + …`, `np.cumsum(…)`, `….cumsum()` on an ndarray, `…[k:]` are recorded as steps) or of a
               local list; `comm.scatter` of `[X[lo[i]:hi[i]] for i in range(size)]` (or `for a, b in zip(lo, hi)`);
  make_changes  the changed-index list `[i for i in range(len(str_fun)) if str_fun[i] != all_fun[base+i]]` (also over
               `enumerate(str_fun)`), the selections `[X[c] for c in chidx]` (also written directly with the same filter), and
               the update loop: a loop over the ranks (`range(size)`, `enumerate`/`zip` of gathered lists) whose inner loops
               (`range(len(<changes>[i]))`, `enumerate`, `zip`) write `all_*[chidx[i][k] + start_idx[i + shift]] =
               <changes>[i][k]`, through any local aliases; `None if v is None else v.copy()` in any spelling is the value v;
  check_results the flagging loop `for i in range(len(block))` / `enumerate(block)` appending `[i + offset, block[i]]`, the
               gather at rank 0, the flattening (`itertools.chain(*…)`, nested comprehension, `sum(…, [])`) and the mapping of
               the first components through the shuffle index list (loop or comprehension).

and produces
make_changes  : count   = what each rank sends to the gather of per-rank counts
                steps   = what rank 0 does to the gathered list (`[0] + …`, `np.cumsum`, `[k:]`)
                cmpBase = `imin` of `str_fun[i] != all_fun[imin+i]`
                useShift= `k` in `j = chidx[i] + start_idx[i+k]`
check_results : sliceLo/sliceHi = the gathered bounds of `all_fun[imin[i]:imax[i]]` that is scattered
                offset  = `imin` of `to_change.append([i+imin, all_fun[i]])`
Anything it cannot read is an ExtractError (fail closed).  Values it cannot express are poisoned and only raise when used;
a statement that can only be there to mutate (`x[i] = …`, `x.sort()`, `f(x)` as a statement) poisons what it touches.
"""
import ast
import extract
from extract import ExtractError
from extractors import _norm_c13 as norm

FILE = "esr/generation/simplifier.py"
POISON = ("poison",)
ARITH = {ast.Add: "add", ast.Sub: "sub", ast.Mult: "mul"}
IX_HEADS = ("total", "rank", "size", "localLen", "lit", "add", "sub", "mul", "splitLo", "splitHi", "ifSplitEmpty")
ARRAY_WRAPPERS = ("atleast_1d", "array", "squeeze", "asarray")
NO_EFFECT_CALLS = ("print", "collect", "Barrier", "barrier", "flush")
LOCAL_LISTS = ("chidx", "sel", "flagged")


def _is_call(e, *names):
    """e is a call of NAME or MODULE.NAME for one of names"""
    if not isinstance(e, ast.Call):
        return False
    f = e.func
    nm = f.id if isinstance(f, ast.Name) else f.attr if isinstance(f, ast.Attribute) else None
    return nm in names


def _comm(e, op):
    return (isinstance(e, ast.Call) and isinstance(e.func, ast.Attribute) and isinstance(e.func.value, ast.Name)
            and e.func.value.id == "comm" and e.func.attr == op)


def _root0(e):
    for kw in e.keywords:
        if kw.arg == "root":
            return isinstance(kw.value, ast.Constant) and kw.value.value == 0
    return len(e.args) < 2 or (isinstance(e.args[1], ast.Constant) and e.args[1].value == 0)


def _const_int(e):
    if isinstance(e, ast.Constant) and isinstance(e.value, int) and not isinstance(e.value, bool):
        return e.value
    if isinstance(e, ast.UnaryOp) and isinstance(e.op, ast.USub) and isinstance(e.operand, ast.Constant) and isinstance(e.operand.value, int) \
            and not isinstance(e.operand.value, bool):
        return -e.operand.value
    return None


def _single_nonneg(e):
    """k for the literal `[k]` / `(k,)` with an integer k >= 0"""
    if isinstance(e, (ast.List, ast.Tuple)) and len(e.elts) == 1:
        k = _const_int(e.elts[0])
        if k is not None and k >= 0:
            return k
    return None


def _is_ix(t):
    return isinstance(t, tuple) and bool(t) and t[0] in IX_HEADS


def _chv(v):
    """the changed-index list a local list value is aligned with"""
    if v[0] == "chidx":
        return v
    if v[0] == "sel":
        return v[2]
    return None


def _rank0_test(t):
    """True: the THEN branch runs on rank 0 only; False: the ELSE branch does; None: not a test on `rank`"""
    if isinstance(t, ast.Name) and t.id == "rank":
        return False
    if isinstance(t, ast.UnaryOp) and isinstance(t.op, ast.Not) and isinstance(t.operand, ast.Name) and t.operand.id == "rank":
        return True
    if isinstance(t, ast.Compare) and len(t.ops) == 1 and isinstance(t.left, ast.Name) and t.left.id == "rank":
        k, op = _const_int(t.comparators[0]), type(t.ops[0])
        if (op, k) in ((ast.Eq, 0), (ast.Lt, 1), (ast.LtE, 0)):
            return True
        if (op, k) in ((ast.NotEq, 0), (ast.Gt, 0), (ast.GtE, 1)):
            return False
    return None


class Exec(object):
    def __init__(self, fn, env, lens, seeded, mc=None):
        self.fn = fn
        self.env = dict(env)          # name -> abstract value (see module docstring) | POISON
        self.lens = dict(lens)        # list name -> term of its len()
        self.seeded = set(seeded)     # names whose meaning is fixed by the hand model; only trivially reassigned
        self.slices = {}              # list name -> (lo term, hi term, source list name) of `[X[lo[i]:hi[i]] for i in range(size)]` on rank 0
        self.arrays = set()           # names known to hold an ndarray
        self.mc = mc                  # make_changes: dict(all_fun=name, str_fun=name, local=[names of the three local lists])
        self.dead = False             # a return/raise was executed on this path
        self.none_means = None        # inside `if v is None:`: the value v
        self.not_none = None          # inside `if v is not None:`: the value v
        self.npos = [0]               # inner-loop counter (shared with forks)

    # ---- expressions ----
    def split_test(self, t):
        """emptiness test on a split_idx result: (split term, True if the test HOLDS for the empty result), else None"""
        if isinstance(t, ast.UnaryOp) and isinstance(t.op, ast.Not):
            r = self.split_test(t.operand)
            return (r[0], not r[1]) if r else None
        if isinstance(t, ast.Compare) and len(t.ops) == 1:
            op, rhs = type(t.ops[0]), t.comparators[0]
            lv = self.expr(t.left)
            if lv[0] == "splitLen":                            # len(v) <op> k
                k = _const_int(rhs)
                if k is not None:
                    if (op, k) in ((ast.Eq, 0), (ast.Lt, 1), (ast.LtE, 0)):
                        return lv[1], True
                    if (op, k) in ((ast.Gt, 0), (ast.NotEq, 0), (ast.GtE, 1)):
                        return lv[1], False
                return None
            if lv[0] == "split" and isinstance(rhs, ast.List) and not rhs.elts and op in (ast.Eq, ast.NotEq):
                return lv, op is ast.Eq
            return None
        v = self.expr(t) if isinstance(t, (ast.Name, ast.Call)) else POISON
        if v[0] == "splitTest":                                # a name holding such a test
            return v[1], v[2]
        if v[0] in ("split", "splitLen"):                      # a list is true iff it is non-empty; so is its length
            return (v if v[0] == "split" else v[1]), False
        return None

    def length(self, v):
        """abstract length of a list value: ("size", d) = size + d entries, ("chlen", chidx value) = as many as that rank's changes"""
        if v[0] == "pr":
            return ("size", 0)
        if v[0] == "gath":
            d = 0
            for s in v[2]:
                d += 1 if s[0] == "prepend" else -s[1] if s[0] == "dropFirst" else 0
                if d < 0:
                    return None
            return ("size", d)
        if v[0] == "prAt" and _chv(v[1]) is not None:
            return ("chlen", _chv(v[1]))
        if v[0] == "shifted":
            return ("chlen", v[1])
        return None

    def iter_value(self, it, pid=None):
        """(abstract length, abstract element) of iterating over the expression `it`, or None"""
        if _is_call(it, "range") and isinstance(it.func, ast.Name) and len(it.args) == 1 and not it.keywords:
            n = self.expr(it.args[0])
            if n == ("size",):
                return ("size", 0), ("rankvar", 0)
            if n[0] == "lenof" and n[1][0] == "chlen" and pid is not None:
                return n[1], ("posvar", n[1][1], pid)
            return None
        if _is_call(it, "enumerate") and isinstance(it.func, ast.Name) and len(it.args) == 1 and not it.keywords:
            r = self.iter_value(it.args[0], pid)
            if not r:
                return None
            ln, el = r
            if ln == ("size", 0):
                return ln, ("tuple", ("rankvar", 0), el)
            if ln[0] == "chlen" and pid is not None:
                return ln, ("tuple", ("posvar", ln[1], pid), el)
            return None
        if _is_call(it, "zip") and isinstance(it.func, ast.Name) and it.args and not it.keywords:
            rs = [self.iter_value(a, pid) for a in it.args]
            if any(r is None for r in rs):
                return None
            lens = [r[0] for r in rs]
            if all(l[0] == "size" for l in lens) and min(l[1] for l in lens) == 0:
                ln = ("size", 0)                       # zip stops at the shortest: `size` entries
            elif all(l == lens[0] for l in lens) and lens[0][0] == "chlen":
                ln = lens[0]
            else:
                return None
            return ln, ("tuple",) + tuple(r[1] for r in rs)
        v = self.expr(it)
        ln = self.length(v)
        if ln is None:
            return None
        if v[0] == "pr":
            return ln, ("prAt", v[1])
        if v[0] == "gath":
            return ln, ("gathAt", v, 0)
        if v[0] in ("prAt", "shifted") and pid is not None:
            return ln, ("elem", v, pid)
        return None

    def bind(self, target, val):
        if isinstance(target, ast.Name):
            self.assign(target.id, val)
            return
        if isinstance(target, (ast.Tuple, ast.List)) and val[0] == "tuple" and len(val) - 1 == len(target.elts):
            for t, v in zip(target.elts, val[1:]):
                self.bind(t, v)
            return
        for n in ast.walk(target):
            if isinstance(n, ast.Name):
                self.assign(n.id, POISON)

    def comprehension(self, e):
        g = e.generators[0]
        # rank 0: `[X[lo[i]:hi[i]] for i in range(size)]` / `[X[a:b] for a, b in zip(lo, hi)]`
        if len(e.generators) == 1 and not g.ifs and isinstance(e.elt, ast.Subscript) and isinstance(e.elt.slice, ast.Slice) \
                and isinstance(e.elt.value, ast.Name) and e.elt.slice.step is None and e.elt.slice.lower is not None and e.elt.slice.upper is not None:
            sl = e.elt.slice
            lo = hi = None
            if isinstance(g.target, ast.Name) and _is_call(g.iter, "range") and len(g.iter.args) == 1 and self.expr(g.iter.args[0]) == ("size",) \
                    and all(isinstance(b, ast.Subscript) and isinstance(b.slice, ast.Name) and b.slice.id == g.target.id for b in (sl.lower, sl.upper)):
                lo, hi = self.expr(sl.lower.value), self.expr(sl.upper.value)
            elif isinstance(g.target, (ast.Tuple, ast.List)) and len(g.target.elts) == 2 and all(isinstance(x, ast.Name) for x in g.target.elts) \
                    and _is_call(g.iter, "zip") and isinstance(g.iter.func, ast.Name) and len(g.iter.args) == 2 and not g.iter.keywords \
                    and g.target.elts[0].id != g.target.elts[1].id \
                    and isinstance(sl.lower, ast.Name) and sl.lower.id == g.target.elts[0].id and isinstance(sl.upper, ast.Name) and sl.upper.id == g.target.elts[1].id:
                lo, hi = self.expr(g.iter.args[0]), self.expr(g.iter.args[1])
            if lo is not None and lo[0] == "gath" and hi[0] == "gath" and not lo[2] and not hi[2]:
                return ("slices", lo[1], hi[1], e.elt.value.id)
            return POISON
        # flattening `[y for x in X for y in x]`
        if len(e.generators) == 2 and not g.ifs and not e.generators[1].ifs and isinstance(g.target, ast.Name) and isinstance(e.generators[1].target, ast.Name) \
                and isinstance(e.generators[1].iter, ast.Name) and e.generators[1].iter.id == g.target.id and isinstance(e.elt, ast.Name) \
                and e.elt.id == e.generators[1].target.id and e.elt.id != g.target.id:
            v = self.expr(g.iter)
            return ("flat", v[1]) if v[0] == "pr" else POISON
        if len(e.generators) != 1:
            return POISON
        # `[[S[a], b] for a, b in L]` on the flattened list
        if not g.ifs and isinstance(g.target, (ast.Tuple, ast.List)) and len(g.target.elts) == 2 and all(isinstance(x, ast.Name) for x in g.target.elts) \
                and isinstance(e.elt, ast.List) and len(e.elt.elts) == 2:
            a, b = g.target.elts[0].id, g.target.elts[1].id
            x0, x1 = e.elt.elts
            v = self.expr(g.iter)
            if (a != b and v[0] == "flat" and isinstance(x1, ast.Name) and x1.id == b and isinstance(x0, ast.Subscript) and isinstance(x0.value, ast.Name)
                    and x0.value.id not in (a, b) and isinstance(x0.slice, ast.Name) and x0.slice.id == a):
                return ("mapped", v, x0.value.id)
            return POISON
        if self.mc is None:
            return POISON
        return self.mc_comprehension(e, g)

    def mc_comprehension(self, e, g):
        """make_changes: changed-index list and the selections of the local lists"""
        mc = self.mc
        # `[X[c] for c in chidx]` / `[c for c in chidx]`
        if not g.ifs and isinstance(g.target, ast.Name) and isinstance(g.iter, ast.Name):
            ch = self.expr(g.iter)
            if ch[0] != "chidx":
                return POISON
            c = g.target.id
            if isinstance(e.elt, ast.Name) and e.elt.id == c:
                return ch
            if isinstance(e.elt, ast.Subscript) and isinstance(e.elt.value, ast.Name) and e.elt.value.id in mc["local"] and e.elt.value.id != c \
                    and isinstance(e.elt.slice, ast.Name) and e.elt.slice.id == c and self.env.get(e.elt.value.id) == ("lparam", e.elt.value.id):
                return ("sel", e.elt.value.id, ch)
            return POISON
        # `… for i in range(len(str_fun)) if str_fun[i] != all_fun[base+i]` / `… for i, f in enumerate(str_fun) if f != all_fun[base+i]`
        if len(g.ifs) != 1:
            return POISON
        var, alias = None, None
        if isinstance(g.target, ast.Name) and _is_call(g.iter, "range") and isinstance(g.iter.func, ast.Name) and len(g.iter.args) == 1 \
                and not g.iter.keywords and self.expr(g.iter.args[0]) == ("localLen",):
            var = g.target.id
        elif isinstance(g.target, (ast.Tuple, ast.List)) and len(g.target.elts) == 2 and all(isinstance(x, ast.Name) for x in g.target.elts) \
                and _is_call(g.iter, "enumerate") and isinstance(g.iter.func, ast.Name) and len(g.iter.args) == 1 and not g.iter.keywords \
                and isinstance(g.iter.args[0], ast.Name) and g.iter.args[0].id == mc["str_fun"] and self.env.get(mc["str_fun"]) == ("lparam", mc["str_fun"]):
            var, alias = g.target.elts[0].id, g.target.elts[1].id
            if var == alias:
                return POISON
        if var is None or var in self.mc["local"] or var == mc["all_fun"] or alias in (mc["all_fun"],) + tuple(mc["local"]):
            return POISON
        for nm in mc["local"] + [mc["all_fun"]]:
            if self.env.get(nm) != ("lparam", nm):
                return POISON

        def is_local(x, lst):
            if alias is not None and lst == mc["str_fun"] and isinstance(x, ast.Name) and x.id == alias:
                return True
            return (isinstance(x, ast.Subscript) and isinstance(x.value, ast.Name) and x.value.id == lst and isinstance(x.slice, ast.Name)
                    and x.slice.id == var)
        c = g.ifs[0]
        if not (isinstance(c, ast.Compare) and len(c.ops) == 1 and isinstance(c.ops[0], ast.NotEq)):
            return POISON
        sides = [c.left, c.comparators[0]]
        loc = [s for s in sides if is_local(s, mc["str_fun"])]
        glob = [s for s in sides if isinstance(s, ast.Subscript) and isinstance(s.value, ast.Name) and s.value.id == mc["all_fun"]]
        if len(loc) != 1 or len(glob) != 1:
            return POISON
        idx = glob[0].slice
        if isinstance(idx, ast.Name) and idx.id == var:
            base = ("lit", 0)
        else:
            b = _plus_loopvar(idx, var)
            if b is None or var in norm.names(b) or (alias is not None and alias in norm.names(b)):
                return POISON
            base = self.expr(b)
        if not _is_ix(base):
            return POISON
        ch = ("chidx", base)
        if isinstance(e.elt, ast.Name) and e.elt.id == var:
            return ch
        for lst in mc["local"]:
            if is_local(e.elt, lst):
                return ("sel", lst, ch)
        return POISON

    def expr(self, e):
        if isinstance(e, ast.Name):
            return self.env.get(e.id, POISON)
        c = _const_int(e)
        if c is not None:
            return ("lit", c)
        if isinstance(e, ast.Constant) and e.value is None:
            return self.none_means if self.none_means is not None else ("none",)
        if isinstance(e, ast.List) and not e.elts:
            return ("emptylist",)
        if isinstance(e, ast.Tuple) and e.elts and not any(isinstance(x, ast.Starred) for x in e.elts):
            return ("tuple",) + tuple(self.expr(x) for x in e.elts)
        if isinstance(e, ast.Compare) or (isinstance(e, ast.UnaryOp) and isinstance(e.op, ast.Not)):
            sp = self.split_test(e)
            return ("splitTest", sp[0], sp[1]) if sp is not None else POISON
        if isinstance(e, ast.IfExp):
            sp = self.split_test(e.test)
            a, b = self.expr(e.body), self.expr(e.orelse)
            if sp is not None and _is_ix(a) and _is_ix(b):
                emp, non = (a, b) if sp[1] else (b, a)
                return ("ifSplitEmpty",) + sp[0][1:] + (emp, non)
            return POISON
        if isinstance(e, ast.BinOp) and type(e.op) in ARITH:
            # list concatenation `[0] + gathered` (rank 0)
            if isinstance(e.op, ast.Add) and isinstance(e.left, ast.List) and len(e.left.elts) == 1 and _const_int(e.left.elts[0]) is not None:
                g = self.expr(e.right)
                if g[0] == "gath" and _const_int(e.left.elts[0]) >= 0:
                    return ("gath", g[1], g[2] + (("prepend", _const_int(e.left.elts[0])),))
                return POISON
            a, b = self.expr(e.left), self.expr(e.right)
            if _is_ix(a) and _is_ix(b):
                return (ARITH[type(e.op)], a, b)
            if isinstance(e.op, ast.Add):
                for x, y in ((a, b), (b, a)):
                    if x[0] == "rankvar" and y[0] == "lit" and x[1] + y[1] >= 0:
                        return ("rankvar", x[1] + y[1])
                    # numpy: list + np.int64 adds elementwise
                    if x[0] == "prAt" and x[1][0] == "chidx" and y[0] == "gathAt":
                        return ("shifted", x[1], y[1], y[2])
                    if x[0] == "elem" and x[1][0] == "prAt" and x[1][1][0] == "chidx" and y[0] == "gathAt":
                        return ("elem", ("shifted", x[1][1], y[1], y[2]), x[2])
            return POISON
        if _is_call(e, "len") and isinstance(e.func, ast.Name) and len(e.args) == 1 and not e.keywords:
            if isinstance(e.args[0], ast.Name):
                nm = e.args[0].id
                v = self.env.get(nm, (None,))
                if v[0] == "block":
                    return ("localLen",)
                if v[0] == "split":
                    return ("splitLen", v)
                if v == ("lparam", nm) or nm not in self.env:
                    return self.lens.get(nm, POISON)
            ln = self.length(self.expr(e.args[0]))
            if ln == ("size", 0):
                return ("size",)
            return ("lenof", ln) if ln is not None else POISON
        if _is_call(e, *ARRAY_WRAPPERS) and e.args:
            return self.expr(e.args[0])          # shape-only wrappers (dtype keyword ignored)
        if _is_call(e, "cumsum"):
            arg = None
            if len(e.args) == 1 and not (isinstance(e.func, ast.Attribute) and not (isinstance(e.func.value, ast.Name) and e.func.value.id in ("np", "numpy"))):
                arg = e.args[0]                                       # np.cumsum(x)
            elif not e.args and isinstance(e.func, ast.Attribute) and self.is_array(e.func.value):
                arg = e.func.value                                    # x.cumsum() on an ndarray
            if arg is not None:
                g = self.expr(arg)
                return ("gath", g[1], g[2] + (("cumsum",),)) if g[0] == "gath" else POISON
            return POISON
        # `np.concatenate(([0], x))`, `np.append([0], x)`, `np.insert(x, 0, 0)`: a leading constant
        pre = None
        if _is_call(e, "concatenate") and len(e.args) == 1 and not e.keywords and isinstance(e.args[0], (ast.Tuple, ast.List)) and len(e.args[0].elts) == 2:
            pre = e.args[0].elts
        elif _is_call(e, "append") and isinstance(e.func, ast.Attribute) and isinstance(e.func.value, ast.Name) and e.func.value.id in ("np", "numpy") \
                and len(e.args) == 2 and not e.keywords:
            pre = e.args
        if pre is not None:
            k = _single_nonneg(pre[0])
            g = self.expr(pre[1]) if k is not None else POISON
            return ("gath", g[1], g[2] + (("prepend", k),)) if g[0] == "gath" else POISON
        if _is_call(e, "insert") and isinstance(e.func, ast.Attribute) and isinstance(e.func.value, ast.Name) and e.func.value.id in ("np", "numpy") \
                and len(e.args) == 3 and not e.keywords and _const_int(e.args[1]) == 0 and (_const_int(e.args[2]) is not None and _const_int(e.args[2]) >= 0):
            g = self.expr(e.args[0])
            return ("gath", g[1], g[2] + (("prepend", _const_int(e.args[2])),)) if g[0] == "gath" else POISON
        if _is_call(e, "copy") and isinstance(e.func, ast.Attribute) and not e.args and not e.keywords:
            v = self.expr(e.func.value)
            return v if v[0] == "elem" and self.not_none == v else POISON      # `.copy()` only where the value is known not to be None
        if _is_call(e, "split_idx") and len(e.args) == 3 and not e.keywords:
            a = [self.expr(x) for x in e.args]
            return ("split",) + tuple(a) if all(_is_ix(x) for x in a) else POISON
        if _is_call(e, "list") and isinstance(e.func, ast.Name) and len(e.args) == 1 and _is_call(e.args[0], "chain") \
                and len(e.args[0].args) == 1 and isinstance(e.args[0].args[0], ast.Starred) and not e.args[0].keywords:
            v = self.expr(e.args[0].args[0].value)
            return ("flat", v[1]) if v[0] == "pr" else POISON
        if _is_call(e, "sum") and isinstance(e.func, ast.Name) and len(e.args) == 2 and isinstance(e.args[1], ast.List) and not e.args[1].elts:
            v = self.expr(e.args[0])
            return ("flat", v[1]) if v[0] == "pr" else POISON
        if isinstance(e, ast.Subscript):
            v = self.expr(e.value)
            if isinstance(e.slice, ast.Slice):
                if v[0] == "gath" and e.slice.upper is None and e.slice.step is None and e.slice.lower is not None:
                    k = _const_int(e.slice.lower)
                    if k is not None and k >= 0:
                        return ("gath", v[1], v[2] + (("dropFirst", k),))
                return POISON
            if v[0] == "split":
                k = _const_int(e.slice)
                if k == 0:
                    return ("splitLo",) + v[1:]
                if k in (-1, 1):                 # a non-empty result is `[first, last]`
                    return ("splitHi",) + v[1:]
                return POISON
            if v[0] == "tuple":
                k = _const_int(e.slice)
                return v[1 + k] if k is not None and 0 <= k < len(v) - 1 else POISON
            ix = self.expr(e.slice)
            if v[0] == "gath" and ix[0] == "rankvar":
                return ("gathAt", v, ix[1])
            if v[0] == "pr" and ix == ("rankvar", 0) and _chv(v[1]) is not None:
                return ("prAt", v[1])
            if v[0] in ("prAt", "shifted") and ix[0] == "posvar" and self.length(v) == ("chlen", ix[1]):
                return ("elem", v, ix[2])
            return POISON
        if _comm(e, "gather") and e.args and _root0(e):
            v = self.expr(e.args[0])
            if _is_ix(v):
                return ("rank0", ("gath", v, ()))
            return ("rank0", ("pr", v)) if v[0] in LOCAL_LISTS else POISON
        if _comm(e, "allgather") and len(e.args) == 1 and not e.keywords:
            v = self.expr(e.args[0])
            if _is_ix(v):
                return ("gath", v, ())
            return ("pr", v) if v[0] in LOCAL_LISTS else POISON
        if _comm(e, "bcast") and e.args and _root0(e):
            v = self.expr(e.args[0])
            return v[1] if v[0] == "rank0" else POISON
        if _comm(e, "scatter") and e.args and _root0(e) and isinstance(e.args[0], ast.Name) and e.args[0].id in self.slices:
            return ("block",) + self.slices[e.args[0].id]
        if isinstance(e, ast.ListComp):
            return self.comprehension(e)
        return POISON

    def is_array(self, e):
        return (isinstance(e, ast.Name) and e.id in self.arrays) or _is_call(e, "array", "asarray", "atleast_1d", "cumsum")

    # ---- statements ----
    def assign(self, name, val, node=None):
        if name in self.seeded:
            ok = node is not None and ((isinstance(node, ast.Constant) and node.value is None) or
                                       (_is_call(node, "len") and len(node.args) == 1 and isinstance(node.args[0], ast.Name)) or
                                       (_comm(node, "bcast") and node.args and isinstance(node.args[0], ast.Name) and node.args[0].id == name))
            if not ok:
                raise ExtractError("%s: `%s` is reassigned (line %d); the model reads it as the length of the scattered list" % (
                    self.fn.name, name, getattr(node, "lineno", 0)))
            return
        self.slices.pop(name, None)
        self.arrays.discard(name)
        if node is not None and self.is_array(node):
            self.arrays.add(name)
        if val[0] == "slices":
            self.slices[name] = val[1:]
            val = POISON
        self.env[name] = val

    def poison_mutated(self, e):
        """an expression statement is only there for its effect: unless it is a print / gc.collect / Barrier, whatever it
        mentions may have been mutated and is unknown afterwards"""
        v = e.value if isinstance(e, ast.Expr) else e
        if isinstance(v, ast.Constant) or _is_call(v, *NO_EFFECT_CALLS):
            return
        for n in ast.walk(v):
            if isinstance(n, ast.Name) and n.id in self.env and n.id not in ("rank", "size"):
                if n.id in self.seeded:
                    raise ExtractError("%s: `%s` is used in a statement made for its effect (line %d)" % (self.fn.name, n.id, e.lineno))
                if self.env[n.id][0] == "lparam":
                    raise ExtractError("%s: the parameter `%s` is used in a statement made for its effect (line %d)" % (self.fn.name, self.env[n.id][1], e.lineno))
                self.assign(n.id, POISON)

    def run(self, body, stop=None):
        """execute statements until (not including) the statement `stop`; returns True if stop was reached"""
        for st in body:
            if st is stop:
                return True
            if self.dead:
                if stop is not None and any(s is stop for s in ast.walk(st)):
                    raise ExtractError("%s: the statement looked for follows an unconditional return (line %d)" % (self.fn.name, st.lineno))
                continue
            if isinstance(st, ast.Assign) and len(st.targets) == 1:
                tg = st.targets[0]
                if isinstance(tg, ast.Name):
                    self.assign(tg.id, self.expr(st.value), st.value)
                elif isinstance(tg, (ast.Tuple, ast.List)) and all(isinstance(x, ast.Name) for x in tg.elts):
                    names = [x.id for x in tg.elts]
                    if isinstance(st.value, (ast.Tuple, ast.List)) and len(st.value.elts) == len(names):
                        vals = [self.expr(x) for x in st.value.elts]
                        for nm, v, nd in zip(names, vals, st.value.elts):
                            self.assign(nm, v, nd)
                    else:
                        v = self.expr(st.value)
                        if v[0] == "split" and len(names) == 2:
                            self.assign(names[0], ("splitLo",) + v[1:])
                            self.assign(names[1], ("splitHi",) + v[1:])
                        elif v[0] == "tuple" and len(v) - 1 == len(names):
                            for nm, x in zip(names, v[1:]):
                                self.assign(nm, x)
                        else:
                            for nm in names:
                                self.assign(nm, POISON)
                else:
                    self.store_into(tg, st)
            elif isinstance(st, ast.Assign):
                for tg in st.targets:
                    self.store_into(tg, st)
            elif isinstance(st, ast.AugAssign) and isinstance(st.target, ast.Name):
                a, b = self.env.get(st.target.id, POISON), self.expr(st.value)
                self.assign(st.target.id, (ARITH[type(st.op)], a, b) if type(st.op) in ARITH and _is_ix(a) and _is_ix(b) else POISON)
            elif isinstance(st, (ast.AugAssign, ast.AnnAssign)):
                self.store_into(st.target, st)
            elif isinstance(st, ast.If):
                self.run_if(st, stop)
            elif isinstance(st, ast.For) and self.map_loop(st):
                pass
            elif isinstance(st, (ast.For, ast.While, ast.Try, ast.With)):
                # not interpreted: everything assigned or possibly mutated inside is unknown afterwards
                for n in ast.walk(st):
                    if isinstance(n, ast.Name) and isinstance(n.ctx, (ast.Store, ast.Del)):
                        if n.id in self.seeded:
                            raise ExtractError("%s: `%s` assigned inside a loop (line %d)" % (self.fn.name, n.id, st.lineno))
                        self.assign(n.id, POISON)
                    elif isinstance(n, (ast.Subscript, ast.Attribute)) and isinstance(n.ctx, (ast.Store, ast.Del)):
                        self.store_into(n, st)
                    elif isinstance(n, ast.Expr):
                        self.poison_mutated(n)
                if isinstance(st, ast.For) and isinstance(st.iter, ast.Name) and isinstance(st.target, ast.Name):
                    # `for r in L: r[0] = …` changes the entries of L
                    if any(isinstance(n, (ast.Subscript, ast.Attribute)) and isinstance(n.ctx, (ast.Store, ast.Del)) and isinstance(n.value, ast.Name)
                           and n.value.id == st.target.id and not (isinstance(n, ast.Subscript) and _const_int(n.slice) not in (None, 0, -2))
                           for n in ast.walk(st)):
                        self.assign(st.iter.id, POISON)
                if stop is not None and any(s is stop for s in ast.walk(st)):
                    raise ExtractError("%s: the statement looked for sits inside a compound statement (line %d)" % (self.fn.name, st.lineno))
            elif isinstance(st, ast.Delete):
                for t in st.targets:
                    if isinstance(t, ast.Name):
                        if t.id in self.seeded:
                            raise ExtractError("%s: `%s` deleted (line %d)" % (self.fn.name, t.id, st.lineno))
                        self.assign(t.id, POISON)
                    else:
                        self.store_into(t, st)
            elif isinstance(st, ast.Expr):
                self.poison_mutated(st)
            elif isinstance(st, (ast.Return, ast.Raise)):
                self.dead = True
            elif isinstance(st, (ast.Pass, ast.Import, ast.ImportFrom, ast.Assert)):
                pass
            elif isinstance(st, (ast.Global, ast.Nonlocal, ast.FunctionDef, ast.ClassDef, ast.Break, ast.Continue)):
                raise ExtractError("%s: %s statement (line %d) is outside the fragment the extractor reads" % (self.fn.name, type(st).__name__, st.lineno))
            else:
                raise ExtractError("%s: unrecognised statement %s (line %d)" % (self.fn.name, type(st).__name__, st.lineno))
        return False

    def store_into(self, tg, st):
        """`x[i] = …`, `x.a = …`, `del x[i]`: x is unknown afterwards; tuple / starred targets: every part"""
        if isinstance(tg, (ast.Tuple, ast.List)):
            for x in tg.elts:
                self.store_into(x, st)
            return
        if isinstance(tg, ast.Starred):
            return self.store_into(tg.value, st)
        t = tg
        while isinstance(t, (ast.Subscript, ast.Attribute)):
            t = t.value
        if not isinstance(t, ast.Name):
            return
        if t.id in self.seeded:
            raise ExtractError("%s: `%s` is modified (line %d)" % (self.fn.name, t.id, st.lineno))
        if t is not tg and self.env.get(t.id, POISON)[0] == "lparam":
            raise ExtractError("%s: the parameter `%s` is modified through `%s` (line %d)" % (self.fn.name, self.env[t.id][1], t.id, st.lineno))
        if t is tg or t.id in self.env:
            self.assign(t.id, POISON)

    def run_if(self, st, stop):
        sp = self.split_test(st.test)
        r0 = _rank0_test(st.test)
        a, b = self.fork(), self.fork()
        on0 = a if r0 else b if r0 is False else None
        if on0 is not None:
            for k, v in list(on0.env.items()):
                if v[0] == "rank0":
                    on0.env[k] = v[1]
        ra = a.run(st.body, stop)
        rb = b.run(st.orelse, stop)
        if ra or rb:
            raise ExtractError("%s: the statement looked for sits under a condition (line %d)" % (self.fn.name, st.lineno))
        if a.dead and b.dead:
            self.dead = True
            return
        if a.dead or b.dead:
            if on0 is not None:
                raise ExtractError("%s: return/raise under a condition on `rank` (line %d)" % (self.fn.name, st.lineno))
            live = b if a.dead else a
            self.env, self.slices, self.arrays = live.env, live.slices, live.arrays
            return
        if r0 is False:
            a, b = b, a                                        # a: rank 0, b: the other ranks
        def merge(va, vb):
            if on0 is not None and vb == ("rank0", va):
                return vb                                      # untouched rank-0 value
            if va == vb:
                return va
            if on0 is not None:
                return ("rank0", va)                           # only usable through `comm.bcast(…, root=0)`
            if sp is not None and _is_ix(va) and _is_ix(vb):
                emp, non = (va, vb) if sp[1] else (vb, va)
                return ("ifSplitEmpty",) + sp[0][1:] + (emp, non)
            if va[0] == "tuple" and vb[0] == "tuple" and len(va) == len(vb):
                return ("tuple",) + tuple(merge(x, y) for x, y in zip(va[1:], vb[1:]))
            return POISON
        for nm in set(a.env) | set(b.env):
            self.env[nm] = merge(a.env.get(nm, POISON), b.env.get(nm, POISON))
        if on0 is not None:
            self.slices.update(a.slices)
        else:
            self.slices = {k: v for k, v in a.slices.items() if b.slices.get(k) == v}
        self.arrays = a.arrays & b.arrays if on0 is None else a.arrays

    def map_loop(self, st):
        """rank 0: `for r in L: r[0] = S[r[0]]` on the flattened list of flagged entries"""
        if not (isinstance(st.iter, ast.Name) and isinstance(st.target, ast.Name) and not st.orelse and len(st.body) == 1):
            return False
        v = self.env.get(st.iter.id, POISON)
        s = st.body[0]
        r = st.target.id
        if v[0] != "flat" or not (isinstance(s, ast.Assign) and len(s.targets) == 1):
            return False
        first = lambda x: isinstance(x, ast.Subscript) and isinstance(x.value, ast.Name) and x.value.id == r and _const_int(x.slice) == 0
        if first(s.targets[0]) and isinstance(s.value, ast.Subscript) and isinstance(s.value.value, ast.Name) and s.value.value.id not in (r, st.iter.id) \
                and first(s.value.slice):
            self.assign(st.iter.id, ("mapped", v, s.value.value.id))
            self.assign(r, POISON)
            return True
        return False

    def fork(self):
        x = Exec(self.fn, self.env, self.lens, self.seeded, self.mc)
        x.slices = dict(self.slices)
        x.arrays = set(self.arrays)
        x.none_means, x.not_none, x.npos = self.none_means, self.not_none, self.npos
        return x

    # ---- make_changes: the update loop ----
    def none_test(self, t):
        """`X is None` / `X is not None` on a per-item value: (value, True if the test says "is None")"""
        if isinstance(t, ast.Compare) and len(t.ops) == 1 and isinstance(t.ops[0], (ast.Is, ast.IsNot)) \
                and isinstance(t.comparators[0], ast.Constant) and t.comparators[0].value is None:
            v = self.expr(t.left)
            if v[0] == "elem":
                return v, isinstance(t.ops[0], ast.Is)
        return None

    def update_body(self, body, writes, depth, targets):
        for st in body:
            if isinstance(st, ast.Assign) and len(st.targets) == 1 and isinstance(st.targets[0], ast.Name):
                if st.targets[0].id in targets:
                    raise ExtractError("make_changes: `%s` is rebound inside the update loop (line %d)" % (st.targets[0].id, st.lineno))
                self.assign(st.targets[0].id, self.expr(st.value), st.value)
            elif isinstance(st, ast.Assign) and len(st.targets) == 1 and isinstance(st.targets[0], (ast.Tuple, ast.List)) \
                    and all(isinstance(x, ast.Name) and x.id not in targets for x in st.targets[0].elts):
                self.bind(st.targets[0], self.expr(st.value))
            elif isinstance(st, ast.Assign) and len(st.targets) == 1 and isinstance(st.targets[0], ast.Subscript) \
                    and isinstance(st.targets[0].value, ast.Name) and st.targets[0].value.id in targets and not isinstance(st.targets[0].slice, ast.Slice):
                lst = st.targets[0].value.id
                if self.env.get(lst) != ("lparam", lst):
                    raise ExtractError("make_changes: `%s` is not the parameter any more (line %d)" % (lst, st.lineno))
                val, idx = self.expr(st.value), self.expr(st.targets[0].slice)
                if not (idx[0] == "elem" and idx[1][0] == "shifted"):
                    raise ExtractError("make_changes: index written in the update loop is not `chidx[i][k] + start_idx[i + shift]` (line %d)" % st.lineno)
                if not (val[0] == "elem" and val[1][0] == "prAt" and val[1][1][0] == "sel" and val[2] == idx[2] and val[1][1][2] == idx[1][1]):
                    raise ExtractError("make_changes: value written in the update loop is not `<changes>[i][k]` of the same rank and position (line %d)" % st.lineno)
                if lst in writes:
                    raise ExtractError("make_changes: `%s` is written twice in the update loop (line %d)" % (lst, st.lineno))
                writes[lst] = (idx[1], val[1][1][1])
            elif isinstance(st, ast.If) and self.none_test(st.test) is not None:
                v, isnone = self.none_test(st.test)
                a, b = self.fork(), self.fork()
                wa, wb = {}, {}
                (a if isnone else b).none_means = v
                (b if isnone else a).not_none = v
                a.update_body(st.body, wa, depth, targets)
                b.update_body(st.orelse, wb, depth, targets)
                if wa != wb:
                    raise ExtractError("make_changes: the two branches of `if … is None` do not write the same entries (line %d)" % st.lineno)
                for k in wa:
                    if k in writes:
                        raise ExtractError("make_changes: `%s` is written twice in the update loop (line %d)" % (k, st.lineno))
                writes.update(wa)
                for nm in set(a.env) | set(b.env):
                    self.env[nm] = a.env.get(nm, POISON) if a.env.get(nm, POISON) == b.env.get(nm, POISON) else POISON
            elif isinstance(st, ast.For) and depth == 0 and not st.orelse:
                self.npos[0] += 1
                it = self.iter_value(st.iter, pid=self.npos[0])
                if it is None or it[0][0] != "chlen":
                    raise ExtractError("make_changes: inner loop does not run over the changes of rank i (`range(len(<changes>[i]))`, enumerate, zip) (line %d)" % st.lineno)
                for nm in norm.stored_names(st):
                    if nm in targets:
                        raise ExtractError("make_changes: `%s` is rebound inside the update loop (line %d)" % (nm, st.lineno))
                    self.assign(nm, POISON)
                self.bind(st.target, it[1])
                self.update_body(st.body, writes, 1, targets)
                for nm in norm.stored_names(st):
                    self.assign(nm, POISON)
            elif isinstance(st, ast.Expr) and _is_call(st.value, "print") and isinstance(st.value.func, ast.Name):
                pass
            elif isinstance(st, ast.Pass):
                pass
            else:
                raise ExtractError("make_changes: statement in the update loop that the extractor cannot read (%s, line %d)" % (type(st).__name__, st.lineno))

    def update_loop(self, loop, targets):
        if loop.orelse:
            raise ExtractError("make_changes: update loop has an else clause (line %d)" % loop.lineno)
        it = self.iter_value(loop.iter)
        if it is None or it[0] != ("size", 0):
            raise ExtractError("make_changes: the update loop does not run over the ranks (`range(size)`, or the gathered lists) (line %d)" % loop.lineno)
        for nm in norm.stored_names(loop):
            if nm in targets:
                raise ExtractError("make_changes: `%s` is rebound inside the update loop (line %d)" % (nm, loop.lineno))
            self.assign(nm, POISON)                          # nothing is carried from one iteration to the next
        self.bind(loop.target, it[1])
        writes = {}
        self.update_body(loop.body, writes, 0, targets)
        return writes


def _need_ix(t, what):
    if not _is_ix(t):
        raise ExtractError("%s is not an expression over len/rank/size/split_idx that the extractor can read (%r)" % (what, t[0] if t else t))
    return t


def _stores(node, name):
    return any(isinstance(n, ast.Name) and n.id == name and isinstance(n.ctx, (ast.Store, ast.Del)) for n in ast.walk(node))


def _touches(node, name):
    """node rebinds `name`, stores into it, or calls a method on it / passes it to a call in statement position"""
    for n in ast.walk(node):
        if isinstance(n, ast.Name) and n.id == name and isinstance(n.ctx, (ast.Store, ast.Del)):
            return True
        if isinstance(n, (ast.Subscript, ast.Attribute)) and isinstance(n.ctx, (ast.Store, ast.Del)):
            t = n
            while isinstance(t, (ast.Subscript, ast.Attribute)):
                t = t.value
            if isinstance(t, ast.Name) and t.id == name:
                return True
        if isinstance(n, ast.Expr) and isinstance(n.value, ast.Call) and not _is_call(n.value, *NO_EFFECT_CALLS):
            if any(isinstance(m, ast.Name) and m.id == name for m in ast.walk(n.value)):
                return True
    return False


def _plus_loopvar(e, var):
    """e == var + X or X + var -> X"""
    if isinstance(e, ast.BinOp) and isinstance(e.op, ast.Add):
        if isinstance(e.left, ast.Name) and e.left.id == var:
            return e.right
        if isinstance(e.right, ast.Name) and e.right.id == var:
            return e.left
    return None


def read_make_changes(fn, module=None):
    fn = norm.normalise(fn, module)
    params = [a.arg for a in fn.args.args]
    if len(params) != 6 or len(set(params)) != 6 or fn.args.vararg or fn.args.kwarg or fn.args.kwonlyargs:
        raise ExtractError("make_changes: expected 6 parameters, found %d" % len(params))
    all_fun, all_sym, all_inv, str_fun, sym_fun, inv_fun = params
    targets = params[:3]
    # the update loop: the one top-level statement that touches the three global lists
    touching = [st for st in fn.body if not isinstance(st, ast.Return) and any(_touches(st, p) for p in params)]
    if len(touching) != 1 or not isinstance(touching[0], ast.For):
        raise ExtractError("make_changes: expected exactly one top-level loop that writes the global lists (and nothing else that modifies a parameter), found %d statement(s)%s" % (
            len(touching), "".join(" line %d" % s.lineno for s in touching[:4])))
    loop = touching[0]
    rets = [n for n in ast.walk(fn) if isinstance(n, ast.Return)]
    last = fn.body[-1]
    if len(rets) != 1 or last is not rets[0] or not (isinstance(last.value, ast.Tuple) and [getattr(x, "id", None) for x in last.value.elts] == targets):
        raise ExtractError("make_changes: does not end with its only `return all_fun, all_sym, all_inv_subs`")
    if any(isinstance(n, (ast.Global, ast.Nonlocal)) for n in ast.walk(fn)):
        raise ExtractError("make_changes: global statement")
    env = {"rank": ("rank",), "size": ("size",)}
    env.update({p: ("lparam", p) for p in params})
    ex = Exec(fn, env, {all_fun: ("total",), str_fun: ("localLen",)}, [], mc=dict(all_fun=all_fun, str_fun=str_fun, local=[str_fun, sym_fun, inv_fun]))
    if not ex.run(fn.body, stop=loop):
        raise ExtractError("make_changes: update loop not reached")
    if ex.dead:
        raise ExtractError("make_changes: return before the update loop")
    writes = ex.update_loop(loop, targets)
    want = {all_fun: str_fun, all_sym: sym_fun, all_inv: inv_fun}
    got = {k: v[1] for k, v in writes.items()}
    if got != want:
        raise ExtractError("make_changes: update loop writes %r, expected %r" % (got, want))
    idxs = {v[0] for v in writes.values()}
    if len(idxs) != 1:
        raise ExtractError("make_changes: the three lists are not written at the same index")
    _, ch, gath, shift = idxs.pop()
    count = _need_ix(gath[1], "make_changes: per-rank value gathered into the offsets list")
    cmp_base = _need_ix(ch[1], "make_changes: offset in `all_fun[offset+i]`")
    for st in fn.body[fn.body.index(loop) + 1:-1]:
        if not (isinstance(st, ast.Expr) and _is_call(st.value, *NO_EFFECT_CALLS)) and not isinstance(st, ast.Pass):
            raise ExtractError("make_changes: statement between the update loop and the return (line %d)" % st.lineno)
    return dict(count=count, cmpBase=cmp_base, steps=list(gath[2]), useShift=shift)


def read_check_results(fn, module=None):
    fn = norm.normalise(fn, module)
    # the flagging loop appends `[i + imin, all_fun[i]]`
    hits = []
    for loop in fn.body:
        if not isinstance(loop, ast.For):
            continue
        for n in ast.walk(loop):
            ap = norm._append_of(n) if isinstance(n, (ast.Expr, ast.AugAssign)) else None
            if ap and isinstance(ap[1], ast.List) and len(ap[1].elts) == 2:
                hits.append((loop, ap, n))
    if len(hits) != 1:
        raise ExtractError("check_results: expected one `to_change.append([i+imin, all_fun[i]])` in a top-level loop, found %d" % len(hits))
    loop, (lst, entry), app = hits[0]
    it = loop.iter
    var = alias = blockname = None
    if isinstance(loop.target, ast.Name) and _is_call(it, "range") and isinstance(it.func, ast.Name) and len(it.args) == 1 and not it.keywords \
            and _is_call(it.args[0], "len") and isinstance(it.args[0].func, ast.Name) and len(it.args[0].args) == 1 and isinstance(it.args[0].args[0], ast.Name):
        var, blockname = loop.target.id, it.args[0].args[0].id
    elif isinstance(loop.target, (ast.Tuple, ast.List)) and len(loop.target.elts) == 2 and all(isinstance(x, ast.Name) for x in loop.target.elts) \
            and _is_call(it, "enumerate") and isinstance(it.func, ast.Name) and len(it.args) == 1 and not it.keywords and isinstance(it.args[0], ast.Name):
        var, alias, blockname = loop.target.elts[0].id, loop.target.elts[1].id, it.args[0].id
    if var is None or var == alias:
        raise ExtractError("check_results: flagging loop is not `for i in range(len(all_fun))` / `for i, f in enumerate(all_fun)` (line %d)" % loop.lineno)
    if loop.orelse:
        raise ExtractError("check_results: flagging loop has an else clause")
    el0, el1 = entry.elts
    off = _plus_loopvar(el0, var)
    if off is None:
        raise ExtractError("check_results: first component of the flagged entry is not `i + offset` (line %d)" % app.lineno)
    if not ((isinstance(el1, ast.Subscript) and isinstance(el1.value, ast.Name) and el1.value.id == blockname and isinstance(el1.slice, ast.Name) and el1.slice.id == var)
            or (alias is not None and isinstance(el1, ast.Name) and el1.id == alias)):
        raise ExtractError("check_results: second component of the flagged entry is not `%s[i]` (line %d)" % (blockname, app.lineno))
    body_wo_target = ast.Module(body=loop.body, type_ignores=[])
    for nm in set(n.id for n in ast.walk(off) if isinstance(n, ast.Name)) | {var, blockname} | ({alias} if alias else set()):
        if _stores(body_wo_target, nm):
            raise ExtractError("check_results: `%s` is assigned inside the flagging loop" % nm)
    inside = {id(m) for m in ast.walk(app)}
    for n in ast.walk(body_wo_target):
        if id(n) in inside or any(m is app for m in ast.walk(n)):
            continue
        if _touches(n, lst):
            raise ExtractError("check_results: `%s` is modified a second time inside the flagging loop (line %d)" % (lst, getattr(n, "lineno", 0)))
    ex = Exec(fn, {"rank": ("rank",), "size": ("size",), "nfun": ("total",)}, {}, ["nfun"])
    if not ex.run(fn.body, stop=loop):
        raise ExtractError("check_results: flagging loop not reached")
    if ex.dead:
        raise ExtractError("check_results: return before the flagging loop")
    blk = ex.env.get(blockname, POISON)
    if blk[0] != "block":
        raise ExtractError("check_results: `%s` is not this rank's block `comm.scatter([%s[imin[i]:imax[i]] for i in range(size)])` (%s)" % (blockname, blockname, blk[0]))
    lo = _need_ix(blk[1], "check_results: lower slice bound gathered from the ranks")
    hi = _need_ix(blk[2], "check_results: upper slice bound gathered from the ranks")
    offset = _need_ix(ex.expr(off), "check_results: offset added to the local flagged index")
    if ex.env.get(lst, POISON) != ("emptylist",):
        raise ExtractError("check_results: `%s` is not an empty list when the flagging loop starts" % lst)
    # after the loop: gather at rank 0, chain, map through the shuffle indices
    for n in ast.walk(loop):
        if isinstance(n, ast.Name) and isinstance(n.ctx, (ast.Store, ast.Del)):
            ex.assign(n.id, POISON)
    ex.assign(lst, ("flagged", offset))
    ex.run(fn.body[fn.body.index(loop) + 1:])
    fin = ex.env.get(lst, POISON)
    if not (fin[0] == "rank0" and fin[1][0] == "mapped" and fin[1][1] == ("flat", ("flagged", offset))):
        raise ExtractError("check_results: after the flagging loop `%s` is not gathered at rank 0, chained and mapped once through the shuffle indices (`r[0] = shufidx[r[0]]`)" % lst)
    shuf, src = fin[1][2], blk[3]
    perm = [n for n in ast.walk(fn) if isinstance(n, ast.Assign) and len(n.targets) == 1 and isinstance(n.targets[0], ast.Name) and n.targets[0].id == src
            and isinstance(n.value, ast.ListComp) and len(n.value.generators) == 1 and not n.value.generators[0].ifs
            and isinstance(n.value.generators[0].iter, ast.Name) and n.value.generators[0].iter.id == shuf and isinstance(n.value.generators[0].target, ast.Name)
            and isinstance(n.value.elt, ast.Subscript) and isinstance(n.value.elt.slice, ast.Name) and n.value.elt.slice.id == n.value.generators[0].target.id]
    if not perm:
        raise ExtractError("check_results: `%s`, through which the flagged indices are mapped, is not the list the scattered `%s` was permuted with" % (shuf, src))
    return dict(sliceLo=lo, sliceHi=hi, offset=offset)


def lean_ix(t):
    k = t[0]
    if k in ("total", "rank", "size", "localLen"):
        return "." + k
    if k == "lit":
        return "(.lit %s)" % (("(%d)" % t[1]) if t[1] < 0 else str(t[1]))
    return "(.%s %s)" % (k, " ".join(lean_ix(x) for x in t[1:]))


def lean_step(s):
    return ".cumsum" if s[0] == "cumsum" else "(.%s %d)" % (s[0], s[1])


@extract.extractor("Gather")
def gen(stage):
    tree = extract._parse(stage, FILE)
    mc = read_make_changes(extract.find_def(tree, "make_changes"), tree)
    cr = read_check_results(extract.find_def(tree, "check_results"), tree)
    t = "import ESRVerif.Model.GatherSyntax\n" + extract.header("Gather", [FILE])
    t += "open ESR.Gather\n\n"
    t += ("/-- `make_changes`: per-rank count sent to the gather, base of `all_fun[imin+i]`, rank 0's treatment of the gathered counts,\n"
          "and the index used in `j = chidx[i] + start_idx[i + useShift]` -/\n"
          "def makeChanges : MakeChangesDesc where\n  count := %s\n  cmpBase := %s\n  steps := [%s]\n  useShift := %d\n\n" % (
              lean_ix(mc["count"]), lean_ix(mc["cmpBase"]), ", ".join(lean_step(s) for s in mc["steps"]), mc["useShift"]))
    t += ("/-- `check_results`: bounds of the slice scattered to each rank and the offset added to a local flagged index -/\n"
          "def checkResults : CheckResultsDesc where\n  sliceLo := %s\n  sliceHi := %s\n  offset := %s\n" % (
              lean_ix(cr["sliceLo"]), lean_ix(cr["sliceHi"]), lean_ix(cr["offset"])))
    t += extract.footer("Gather")
    return t
