"""Generated/Optim.lean: the sign/branch table of test_all.optimise_fun, the reparametrisation of chi2_fcn,
the comparison operators and constants of the selection loop and of the back-transformation.

Everything is re-read from the staged source with `ast`; a statement shape that is not recognised raises
ExtractError (fail closed: Generated/Optim.lean then lacks the definitions and Model/Props do not build).
Result-variable names (`res_pp`, ...) are NOT matched by name: a result is identified by the minimize call
that assigned it, so renaming them is harmless.
"""
import ast, struct, fractions
import extract
from extract import ExtractError, lstr, llist

REL = "esr/fitting/test_all.py"

extract.MODELLED += [
    (REL, None, "chi2_fcn"),
    (REL, None, "optimise_fun"),
]

U = ast.unparse


def _err(node, msg):
    raise ExtractError("%s:%s: %s: %s" % (REL, getattr(node, "lineno", "?"), msg, U(node)[:90].replace("\n", " | ")))


def _strip(stmts):
    """drop docstrings / bare prints (no effect on the modelled state)"""
    out = []
    for s in stmts:
        if isinstance(s, ast.Expr) and isinstance(s.value, ast.Constant):
            continue
        if isinstance(s, ast.Expr) and isinstance(s.value, ast.Call) and isinstance(s.value.func, ast.Name) and s.value.func.id == "print":
            continue
        if isinstance(s, ast.Pass):
            continue
        out.append(s)
    return out


CMP = {ast.Lt: "lt", ast.LtE: "le", ast.Gt: "gt", ast.GtE: "ge", ast.Eq: "eq", ast.NotEq: "ne"}


def _cmp(node):
    if not (isinstance(node, ast.Compare) and len(node.ops) == 1 and type(node.ops[0]) in CMP):
        _err(node, "comparison not recognised")
    return node.left, CMP[type(node.ops[0])], node.comparators[0]


def _num(node):
    """numeric literal (with optional unary minus) -> python number"""
    if isinstance(node, ast.UnaryOp) and isinstance(node.op, ast.USub):
        return -_num(node.operand)
    if isinstance(node, ast.UnaryOp) and isinstance(node.op, ast.UAdd):
        return _num(node.operand)
    if isinstance(node, ast.Constant) and isinstance(node.value, (int, float)) and not isinstance(node.value, bool):
        return node.value
    _err(node, "numeric literal expected")


def _const(v):
    """python number -> Lean `Const` literal (exact bits + exact rational)"""
    f = float(v)
    bits = struct.unpack("<Q", struct.pack("<d", f))[0]
    fr = fractions.Fraction(f)
    return "⟨%d, %d, %d, %s⟩" % (bits, fr.numerator, fr.denominator, lstr(repr(v)))


def _natlit(node, what):
    v = _num(node)
    if float(v) != int(v) or int(v) < 0:
        _err(node, "%s is not a natural number" % what)
    return int(v)


# ----------------------------------------------------------------------------------------------------------------
# chi2_fcn
# ----------------------------------------------------------------------------------------------------------------

def _is_xi(node):
    return isinstance(node, ast.Subscript) and U(node) == "x[i]"


def _pexpr(node):
    """x[i] | B ** x[i] | -B ** x[i]  ->  (pow, base, negated)"""
    if _is_xi(node):
        return (False, 0, False)
    neg = False
    n = node
    if isinstance(n, ast.UnaryOp) and isinstance(n.op, ast.USub):
        neg = True
        n = n.operand
    if isinstance(n, ast.BinOp) and isinstance(n.op, ast.Pow) and _is_xi(n.right):
        return (True, _natlit(n.left, "base of the reparametrisation"), neg)
    _err(node, "chi2_fcn: parameter expression not recognised")


def chi2_table(tree):
    fn = extract.find_def(tree, "chi2_fcn")
    if [a.arg for a in fn.args.args] != ["x", "likelihood", "eq_numpy", "integrated", "signs"]:
        _err(fn, "chi2_fcn: signature changed")
    body = _strip(fn.body)
    if len(body) != 2 or not isinstance(body[0], ast.If) or not isinstance(body[1], ast.Return):
        _err(fn, "chi2_fcn: body is not `if signs is None ... ; return ...`")
    top = body[0]
    if U(top.test) != "signs is None" or len(top.body) != 1 or U(top.body[0]) != "p = x":
        _err(top, "chi2_fcn: `if signs is None: p = x` not found")
    if U(body[1].value) != "likelihood.negloglike(p, eq_numpy, integrated=integrated)":
        _err(body[1], "chi2_fcn: return is not likelihood.negloglike(p, eq_numpy, integrated=integrated)")
    els = _strip(top.orelse)
    if len(els) != 2 or U(els[0]) != "p = [None] * len(signs)" or not isinstance(els[1], ast.For):
        _err(top, "chi2_fcn: else-branch shape")
    loop = els[1]
    if U(loop.target) != "i" or U(loop.iter) != "range(len(signs))" or len(_strip(loop.body)) != 1 or loop.orelse:
        _err(loop, "chi2_fcn: loop header/body")
    node = _strip(loop.body)[0]
    rows = []
    while True:
        if not isinstance(node, ast.If):
            _err(node, "chi2_fcn: if-chain expected")
        t = U(node.test)
        if t == "signs[i] is None":
            label = "lin"
        elif t == "signs[i] == '+'":
            label = "pos"
        elif t == "signs[i] == '-'":
            label = "neg"
        else:
            _err(node.test, "chi2_fcn: sign test not recognised")
        b = _strip(node.body)
        if len(b) != 1 or not (isinstance(b[0], ast.Assign) and len(b[0].targets) == 1 and U(b[0].targets[0]) == "p[i]"):
            _err(node, "chi2_fcn: branch body is not `p[i] = ...`")
        rows.append((label,) + _pexpr(b[0].value) + (node.lineno,))
        o = _strip(node.orelse)
        if len(o) == 1 and isinstance(o[0], ast.If):
            node = o[0]
            continue
        if len(o) == 1 and isinstance(o[0], ast.Raise):
            break
        _err(node, "chi2_fcn: chain must end in `else: raise`")
    if sorted(r[0] for r in rows) != ["lin", "neg", "pos"]:
        _err(fn, "chi2_fcn: labels None/'+'/'-' must each appear once")
    return rows


# ----------------------------------------------------------------------------------------------------------------
# optimise_fun
# ----------------------------------------------------------------------------------------------------------------

def _minimize_call(stmt):
    """`NAME = minimize(chi2_fcn, inpt, args=(likelihood, eq_numpy, integrated, SIGNS), method='BFGS'[, options=...])`
    -> (NAME, signs) with signs None or list of 'pos'/'neg'/'lin'"""
    if not (isinstance(stmt, ast.Assign) and len(stmt.targets) == 1 and isinstance(stmt.targets[0], ast.Name)
            and isinstance(stmt.value, ast.Call) and U(stmt.value.func) == "minimize"):
        return None
    c = stmt.value
    if len(c.args) != 2 or U(c.args[0]) != "chi2_fcn" or U(c.args[1]) != "inpt":
        _err(stmt, "minimize: positional arguments are not (chi2_fcn, inpt)")
    kw = {k.arg: k.value for k in c.keywords}
    if set(kw) - {"args", "method", "options"} or "args" not in kw:
        _err(stmt, "minimize: unexpected keywords")
    if "method" in kw and U(kw["method"]) != "'BFGS'":
        _err(stmt, "minimize: method is not BFGS")
    a = kw["args"]
    if not (isinstance(a, ast.Tuple) and len(a.elts) == 4 and [U(e) for e in a.elts[:3]] == ["likelihood", "eq_numpy", "integrated"]):
        _err(stmt, "minimize: args tuple is not (likelihood, eq_numpy, integrated, signs)")
    s = a.elts[3]
    if isinstance(s, ast.Constant) and s.value is None:
        signs = None
    elif isinstance(s, ast.List):
        signs = []
        for e in s.elts:
            if isinstance(e, ast.Constant) and e.value in ("+", "-", None):
                signs.append({"+": "pos", "-": "neg", None: "lin"}[e.value])
            else:
                _err(stmt, "minimize: sign entry not '+', '-' or None")
    else:
        _err(stmt, "minimize: signs argument is not a literal")
    return stmt.targets[0].id, signs


def _fun_of(node, names):
    """`NAME['fun']` -> index of the call that assigned NAME"""
    if isinstance(node, ast.Subscript) and isinstance(node.value, ast.Name) and isinstance(node.slice, ast.Constant) \
            and node.slice.value == "fun" and node.value.id in names:
        return names.index(node.value.id)
    _err(node, "expected <minimize result>['fun']")


def _row_body(stmts, names):
    """`res = NAME` and `mult_arr[k] = -1` statements -> (resCall, mult[0..1])"""
    res = None
    mult = [1, 1]
    for s in _strip(stmts):
        if isinstance(s, ast.Assign) and len(s.targets) == 1 and U(s.targets[0]) == "res" and isinstance(s.value, ast.Name):
            if s.value.id not in names or res is not None:
                _err(s, "branch: `res = <result of a minimize call of this iteration>` expected once")
            res = names.index(s.value.id)
        elif isinstance(s, ast.Assign) and len(s.targets) == 1 and isinstance(s.targets[0], ast.Subscript) \
                and U(s.targets[0].value) == "mult_arr":
            k = _natlit(s.targets[0].slice, "mult_arr index")
            v = _num(s.value)
            if k > 1 or v not in (1, -1):
                _err(s, "branch: mult_arr index must be 0/1 and the value +1/-1")
            mult[k] = int(v)
        else:
            _err(s, "branch: statement not recognised")
    if res is None:
        _err(stmts[0], "branch: no `res = ...`")
    return res, mult


def _row(choose, rb):
    return "⟨%d, %d, %s⟩" % (choose, rb[0], llist([("(%d)" % m) for m in rb[1]]))


def _flag_value(e, nclass, lo):
    """value of the initial `flag_three = <e>` on the arm (nclass, log_opt): e is a Boolean combination of True/False,
    `log_opt` and comparisons of `nparam` with integer literals; for the arm `many` (nparam > 2) the value must not depend
    on nparam (checked on every nparam from 3 to the largest literal + 3).  Anything else: ExtractError (fail closed)."""
    lits = [abs(int(n.value)) for n in ast.walk(e) if isinstance(n, ast.Constant) and isinstance(n.value, int) and not isinstance(n.value, bool)]
    ns = {"one": [1], "two": [2], "many": list(range(3, max(lits + [0]) + 4))}[nclass]

    def ev(n, nparam):
        if isinstance(n, ast.Constant) and isinstance(n.value, bool):
            return n.value
        if isinstance(n, ast.Name) and n.id == "log_opt":
            return bool(lo)
        if isinstance(n, ast.UnaryOp) and isinstance(n.op, ast.Not):
            return not ev(n.operand, nparam)
        if isinstance(n, ast.BoolOp):
            vals = [ev(v, nparam) for v in n.values]
            return all(vals) if isinstance(n.op, ast.And) else any(vals)
        if isinstance(n, ast.Compare) and len(n.ops) == 1:
            def num(q):
                if isinstance(q, ast.Name) and q.id == "nparam":
                    return nparam
                if isinstance(q, ast.Constant) and isinstance(q.value, int) and not isinstance(q.value, bool):
                    return q.value
                _err(n, "initial flag_three: comparison operand not `nparam` / integer literal")
            a, b = num(n.left), num(n.comparators[0])
            op = type(n.ops[0])
            table = {ast.Lt: a < b, ast.LtE: a <= b, ast.Gt: a > b, ast.GtE: a >= b, ast.Eq: a == b, ast.NotEq: a != b}
            if op not in table:
                _err(n, "initial flag_three: comparison operator not recognised")
            return table[op]
        _err(n, "initial flag_three: expression not a Boolean combination of log_opt / nparam comparisons")
    vals = set(ev(e, k) for k in ns)
    if len(vals) != 1:
        _err(e, "initial flag_three depends on nparam within the arm `nparam > 2`")
    return vals.pop()


def _branch(stmts, pre_flag):
    """one arm of the nparam/log_opt chain -> dict(flag, calls, sel)"""
    stmts = _strip(stmts)
    flag = pre_flag
    names, calls = [], []
    sel = None
    reset = False
    k = 0
    while k < len(stmts):
        s = stmts[k]
        k += 1
        if isinstance(s, ast.Assign) and U(s.targets[0]) == "flag_three":
            if U(s.value) != "True":
                _err(s, "flag_three assigned something other than True inside the loop")
            flag = True
            continue
        if isinstance(s, ast.Assign) and U(s.targets[0]) == "inpt":
            if names:
                _err(s, "inpt re-drawn between minimize calls")
            continue
        mc = _minimize_call(s)
        if mc is not None:
            if sel is not None:
                _err(s, "minimize call after the selection")
            names.append(mc[0]); calls.append(mc[1])
            continue
        if isinstance(s, ast.Assign) and U(s.targets[0]) == "mult_arr":
            if U(s.value) != "np.ones(max_param)":
                _err(s, "mult_arr reset is not np.ones(max_param)")
            reset = True
            continue
        if isinstance(s, ast.Assign) and U(s.targets[0]) == "choose":
            v = s.value
            if not (isinstance(v, ast.Call) and U(v.func) == "np.argmin" and len(v.args) == 1 and isinstance(v.args[0], ast.List) and not v.keywords):
                _err(s, "choose is not np.argmin([...])")
            order = [_fun_of(e, names) for e in v.args[0].elts]
            # the if-chain over choose must follow (after the mult_arr reset)
            rest = stmts[k:]
            if len(rest) == 2 and isinstance(rest[0], ast.Assign) and U(rest[0].targets[0]) == "mult_arr":
                if U(rest[0].value) != "np.ones(max_param)":
                    _err(rest[0], "mult_arr reset is not np.ones(max_param)")
                reset = True
                rest = rest[1:]
            if not (len(rest) == 1 and isinstance(rest[0], ast.If)):
                _err(s, "an if-chain over `choose` must follow np.argmin")
            if not reset:
                _err(s, "mult_arr is not reset to ones before the branch selection (state would leak between iterations)")
            node = rest[0]
            cases = []
            while True:
                l, op, r = _cmp(node.test)
                if U(l) != "choose" or op != "eq":
                    _err(node.test, "branch test is not `choose == k`")
                c = _natlit(r, "choose value")
                if c in [x[0] for x in cases]:
                    _err(node.test, "duplicate choose value")
                cases.append((c, _row_body(node.body, names), node.lineno))
                o = _strip(node.orelse)
                if len(o) == 1 and isinstance(o[0], ast.If):
                    node = o[0]; continue
                if not o:
                    _err(node, "choose chain has no else branch")
                fb = _row_body(node.orelse, names)
                break
            sel = ("argmin", order, cases, fb)
            k = len(stmts)
            continue
        if isinstance(s, ast.If) and names and sel is None and U(s.test) != "":
            # guard chain comparing results directly (1-parameter case)
            if not reset:
                _err(s, "mult_arr is not reset to ones before the branch selection (state would leak between iterations)")
            node = s
            guards = []
            while True:
                l, op, r = _cmp(node.test)
                guards.append((_fun_of(l, names), op, _fun_of(r, names), _row_body(node.body, names), node.lineno))
                o = _strip(node.orelse)
                if len(o) == 1 and isinstance(o[0], ast.If):
                    node = o[0]; continue
                if not o:
                    _err(node, "guard chain has no else branch")
                eb = _row_body(node.orelse, names)
                break
            sel = ("guards", guards, eb)
            if k != len(stmts):
                _err(stmts[k], "statement after the branch selection")
            continue
        _err(s, "statement not recognised in an optimisation branch")
    if sel is None:
        if names != ["res"] or len(calls) != 1:
            _err(stmts[0], "branch without selection must assign exactly `res = minimize(...)`")
        sel = ("single",)
    return dict(flag=flag, calls=calls, sel=sel, line=stmts[0].lineno)


def _sig_default(fn, name):
    args = fn.args.args
    d = fn.args.defaults
    off = len(args) - len(d)
    for k, a in enumerate(args):
        if a.arg == name:
            if k < off:
                raise ExtractError("optimise_fun: %s has no default" % name)
            return d[k - off]
    raise ExtractError("optimise_fun: argument %s not found" % name)


def _back(stmt_if, big_holder):
    """`if chi2_min CMP BIG: if flag_three: params = pad(x) else: params = pad(B**x) [* mult_arr_best]` -> spec"""
    l, op, r = _cmp(stmt_if.test)
    if U(l) != "chi2_min":
        _err(stmt_if.test, "final test is not on chi2_min")
    big = _num(r)
    b = _strip(stmt_if.body)
    if not b or not isinstance(b[0], ast.If) or U(b[0].test) != "flag_three":
        _err(stmt_if, "back-transformation: `if flag_three:` expected")
    inner = b[0]
    tb, eb = _strip(inner.body), _strip(inner.orelse)
    if len(tb) != 1 or U(tb[0]) != "params = np.pad(np.array(best.x), (0, max_param - len(best.x)))":
        _err(inner, "back-transformation (linear): not np.pad(np.array(best.x), (0, max_param - len(best.x)))")
    if len(eb) != 1 or not (isinstance(eb[0], ast.Assign) and U(eb[0].targets[0]) == "params"):
        _err(inner, "back-transformation (log): `params = ...` expected")
    v = eb[0].value
    uses_mult = False
    if isinstance(v, ast.BinOp) and isinstance(v.op, ast.Mult):
        if U(v.right) == "mult_arr_best":
            v = v.left; uses_mult = True
        elif U(v.left) == "mult_arr_best":
            v = v.right; uses_mult = True
        else:
            _err(eb[0], "back-transformation (log): multiplier is not mult_arr_best")
    if not (isinstance(v, ast.Call) and U(v.func) == "np.pad" and len(v.args) == 2 and U(v.args[1]) == "(0, max_param - len(best.x))"):
        _err(eb[0], "back-transformation (log): np.pad(..., (0, max_param - len(best.x))) expected")
    p = v.args[0]
    if not (isinstance(p, ast.BinOp) and isinstance(p.op, ast.Pow) and U(p.right) == "np.array(best.x)"):
        _err(eb[0], "back-transformation (log): BASE ** np.array(best.x) expected")
    base = _natlit(p.left, "base of the back-transformation")
    return dict(cmp=op, big=big, base=base, mult=uses_mult, rest=b[1:], line=stmt_if.lineno)


def optimise_table(tree):
    fn = extract.find_def(tree, "optimise_fun")
    out = {}
    for nm in ("Niter_params", "Nconv_params"):
        try:
            v = ast.literal_eval(_sig_default(fn, nm))
            assert isinstance(v, list) and all(isinstance(q, int) for q in v) and v
        except ExtractError:
            raise
        except Exception:
            raise ExtractError("optimise_fun: default of %s is not a list of ints" % nm)
        out[nm] = v
    out["max_param"] = _natlit(_sig_default(fn, "max_param"), "default max_param")
    for nm in ("log_opt", "test_success"):
        if U(_sig_default(fn, nm)) not in ("True", "False"):
            raise ExtractError("optimise_fun: default of %s not a bool" % nm)
        out[nm] = U(_sig_default(fn, nm)) == "True"
    body = _strip(fn.body)
    # Niter / Nconv polynomial and their guard
    srcs = [U(s) for s in body]
    for nm in ("Niter", "Nconv"):
        want = "%s = int(np.sum(nparam ** np.arange(len(%s_params)) * np.array(%s_params)))" % (nm, nm, nm)
        if want not in srcs:
            raise ExtractError("optimise_fun: `%s` not found" % want)
    guard = [s for s in body if isinstance(s, ast.If) and "Nconv" in U(s.test)]
    if len(guard) != 1 or U(guard[0].test) != "Nconv <= 0 or Niter <= 0 or Nconv > Niter" or \
            not (len(guard[0].body) == 1 and isinstance(guard[0].body[0], ast.Raise) and U(guard[0].body[0].exc).startswith("ValueError")):
        raise ExtractError("optimise_fun: Niter/Nconv guard `if Nconv <= 0 or Niter <= 0 or Nconv > Niter: raise ValueError` not found")
    if "nparam = simplifier.count_params([fcn_i], max_param)[0]" not in srcs or "params = np.zeros(max_param)" not in srcs:
        raise ExtractError("optimise_fun: nparam/params initialisation changed")
    tr = [s for s in body if isinstance(s, ast.Try)]
    if len(tr) != 1:
        raise ExtractError("optimise_fun: expected one try block")
    tr = tr[0]
    if not isinstance(body[-1], ast.Return) or U(body[-1].value) != "(chi2_i, params)":
        raise ExtractError("optimise_fun: final `return chi2_i, params` changed")
    tb = _strip(tr.body)
    tsrc = [U(s) for s in tb]
    for want in ("mult_arr = np.ones(max_param)", "count_lowest = 0", "inf_count = 0", "chi2_min = np.inf", "chi2_i = chi2_min"):
        if tsrc.count(want) != 1:
            raise ExtractError("optimise_fun: `%s` expected exactly once at the top level of the try block" % want)
    finit = [s for s in tb if isinstance(s, ast.Assign) and len(s.targets) == 1 and U(s.targets[0]) == "flag_three"]
    if len(finit) != 1:
        raise ExtractError("optimise_fun: `flag_three = <expr>` expected exactly once at the top level of the try block")
    flag_init = lambda nclass, lo: _flag_value(finit[0].value, nclass, lo)
    loops = [s for s in tb if isinstance(s, ast.For)]
    if len(loops) != 1 or U(loops[0].target) != "j" or U(loops[0].iter) != "range(Niter)" or loops[0].orelse:
        raise ExtractError("optimise_fun: `for j in range(Niter)` not found")
    loop = loops[0]
    li = tb.index(loop)
    if tsrc.index("chi2_min = np.inf") > li or tsrc.index("count_lowest = 0") > li or tsrc.index("inf_count = 0") > li or tb.index(finit[0]) > li:
        raise ExtractError("optimise_fun: loop state must be initialised before the loop")
    # pre-loop flag_three for nparam > 2
    pre_many = False
    for s in tb[:li]:
        if isinstance(s, ast.If) and any(U(q) == "flag_three = True" for q in ast.walk(s) if isinstance(q, ast.Assign)):
            if U(s.test) != "nparam > 2" or len(_strip(s.body)) != 1 or s.orelse:
                _err(s, "pre-loop flag_three assignment not recognised")
            pre_many = True
    # ---- loop body
    lb = _strip(loop.body)
    if len(lb) != 8:
        _err(loop, "loop body must be the branch chain followed by 7 bookkeeping statements (found %d)" % len(lb))
    chain = lb[0]
    if not (isinstance(chain, ast.If) and U(chain.test) == "nparam > 2"):
        _err(chain, "branch chain must start with `if nparam > 2`")
    o = _strip(chain.orelse)
    if not (len(o) == 1 and isinstance(o[0], ast.If) and U(o[0].test) == "nparam == 2"):
        _err(chain, "second arm must be `elif nparam == 2`")
    two = o[0]
    one = _strip(two.orelse)
    tw = _strip(two.body)
    if not (len(tw) == 1 and isinstance(tw[0], ast.If) and U(tw[0].test) == "log_opt" and tw[0].orelse):
        _err(two, "2-parameter arm must be `if log_opt: ... else: ...`")
    if not (len(one) == 1 and isinstance(one[0], ast.If) and U(one[0].test) == "log_opt" and one[0].orelse):
        _err(two, "1-parameter arm must be `if log_opt: ... else: ...`")
    # flag_three per (arm, log_opt): its initial value (a Boolean expression over log_opt / nparam, evaluated for the arm),
    # or-ed with the `flag_three = True` statements on the arm's path (pre-loop `if nparam > 2`, inside the arm)
    branches = [
        ("many", True, _branch(chain.body, pre_many or flag_init("many", True))),
        ("many", False, _branch(chain.body, pre_many or flag_init("many", False))),
        ("two", True, _branch(tw[0].body, flag_init("two", True))), ("two", False, _branch(tw[0].orelse, flag_init("two", False))),
        ("one", True, _branch(one[0].body, flag_init("one", True))), ("one", False, _branch(one[0].orelse, flag_init("one", False))),
    ]
    out["branches"] = branches
    # ---- bookkeeping statements
    s1, s2, s3, s4, s5, s6, s7 = lb[1:]
    def only(s, *bodies):
        if not isinstance(s, ast.If) or s.orelse or [U(q) for q in _strip(s.body)] != list(bodies):
            _err(s, "loop bookkeeping statement changed (expected body %r)" % (bodies,))
    if U(s1.test) != "test_success and (not res.success)":
        _err(s1, "test_success skip changed")
    only(s1, "continue")
    if U(s2.test) != "np.isinf(res['fun'])":
        _err(s2, "inf counting test changed")
    only(s2, "inf_count += 1")
    if not (isinstance(s3.test, ast.BoolOp) and isinstance(s3.test.op, ast.And) and len(s3.test.values) == 2 and U(s3.test.values[1]) == "np.isinf(chi2_min)"):
        _err(s3, "inf-limit test changed")
    l, op, r = _cmp(s3.test.values[0])
    if U(l) != "inf_count":
        _err(s3, "inf-limit test changed")
    out["infCmp"], out["infLimit"] = op, _natlit(r, "inf limit")
    only(s3, "break")
    l, op, r = _cmp(s4.test)
    if U(l) != "res['fun'] - chi2_min":
        _err(s4, "reset test changed")
    out["resetCmp"], out["resetThr"] = op, _num(r)
    b4 = _strip(s4.body)
    if s4.orelse or len(b4) != 1 or not (isinstance(b4[0], ast.Assign) and U(b4[0].targets[0]) == "count_lowest"):
        _err(s4, "reset body changed")
    out["resetTo"] = _natlit(b4[0].value, "count_lowest reset value")
    l, op, r = _cmp(s5.test)
    if U(l) != "abs(res['fun'] - chi2_min)":
        _err(s5, "window test changed")
    out["windowCmp"], out["window"] = op, _num(r)
    only(s5, "count_lowest += 1")
    l, op, r = _cmp(s6.test)
    if U(l) != "res['fun']" or U(r) != "chi2_min":
        _err(s6, "keep test changed")
    out["keepCmp"] = op
    only(s6, "best = res", "mult_arr_best = mult_arr", "chi2_min = res['fun']")
    l, op, r = _cmp(s7.test)
    if U(l) != "count_lowest" or U(r) != "Nconv":
        _err(s7, "convergence test changed")
    out["convCmp"] = op
    only(s7, "break")
    # ---- after the loop
    after = tb[li + 1:]
    if len(after) != 2 or not isinstance(after[0], ast.If) or U(after[1]) != "chi2_i = chi2_min":
        raise ExtractError("optimise_fun: statements after the loop changed")
    fin = _back(after[0], None)
    if fin["rest"]:
        _err(after[0], "extra statements in the final block")
    o = _strip(after[0].orelse)
    if o and not (len(o) == 1 and isinstance(o[0], ast.If) and not _strip(o[0].body) and not _strip(o[0].orelse)):
        _err(after[0], "else-branch of the final block does more than print")
    out["final"] = fin
    # ---- handlers
    hs = {U(h.type): h for h in tr.handlers}
    if list(hs) != ["NameError", "simplifier.TimeoutException", "Exception"]:
        raise ExtractError("optimise_fun: handlers changed: %r" % list(hs))
    hb = _strip(hs["NameError"].body)
    if len(hb) != 1 or not isinstance(hb[0], ast.Raise):
        raise ExtractError("optimise_fun: NameError handler no longer re-raises")
    hb = _strip(hs["Exception"].body)
    if len(hb) != 1 or U(hb[0]) != "return (np.nan, params)":
        raise ExtractError("optimise_fun: generic handler no longer returns (nan, params)")
    hb = _strip(hs["simplifier.TimeoutException"].body)
    if len(hb) != 1 or not isinstance(hb[0], ast.Try) or len(hb[0].handlers) != 1 or U(hb[0].handlers[0].type) != "Exception":
        raise ExtractError("optimise_fun: timeout handler shape changed")
    reset = ["chi2_i = np.nan", "params[:] = 0.0"]
    if [U(q) for q in _strip(hb[0].handlers[0].body)] != reset:
        raise ExtractError("optimise_fun: timeout handler inner except changed")
    tt = _strip(hb[0].body)
    if len(tt) != 1 or not isinstance(tt[0], ast.If) or [U(q) for q in _strip(tt[0].orelse)] != reset:
        raise ExtractError("optimise_fun: timeout handler body changed")
    tout = _back(tt[0], None)
    if [U(q) for q in tout["rest"]] != ["chi2_i = chi2_min"]:
        raise ExtractError("optimise_fun: timeout handler does not set chi2_i = chi2_min")
    out["tout"] = tout
    return out


def _signs_lean(s):
    if s is None:
        return "none"
    return "(some %s)" % llist(["." + q for q in s])


def _sel_lean(sel):
    if sel[0] == "single":
        return ".single"
    if sel[0] == "argmin":
        _, order, cases, fb = sel
        return ".argmin %s %s %s" % (llist(map(str, order)), llist([_row(c, rb) for c, rb, _ in cases]), _row(0, fb))
    _, guards, eb = sel
    gs = ["⟨%d, .%s, %d, %s⟩" % (l, op, r, _row(k, rb)) for k, (l, op, r, rb, _) in enumerate(guards)]
    return ".guards %s %s" % (llist(gs), _row(len(guards), eb))


@extract.extractor("Optim")
def gen(stage):
    tree = extract._parse(stage, REL)
    chi = chi2_table(tree)
    ot = optimise_table(tree)
    t = extract.header("Optim", [REL + ":chi2_fcn", REL + ":optimise_fun"])
    t += ("/-- entry of the `signs` list handed to chi2_fcn: None, '+', '-' -/\n"
          "inductive Sign where | lin | pos | neg deriving Repr, DecidableEq\n"
          "inductive Cmp where | lt | le | gt | ge | eq | ne deriving Repr, DecidableEq\n"
          "/-- the arm of the `nparam > 2 / nparam == 2 / else` chain -/\n"
          "inductive NClass where | one | two | many deriving Repr, DecidableEq\n\n"
          "/-- a float literal of the source: IEEE bits, exact rational value, source text -/\n"
          "structure Const where\n  bits : UInt64\n  num : Int\n  den : Nat\n  text : String\n  deriving Repr, DecidableEq\n\n"
          "/-- chi2_fcn: `p[i] = x[i]` (pow = false) or `p[i] = ± base ** x[i]` for one sign label -/\n"
          "structure Reparam where\n  label : Sign\n  pow : Bool\n  base : Nat\n  negated : Bool\n  deriving Repr, DecidableEq\n\n")
    t += "def reparam : List Reparam := [\n"
    for k, (l, p, b, n, ln) in enumerate(chi):
        t += "  ⟨.%s, %s, %d, %s⟩%s -- test_all.py:%d\n" % (l, str(p).lower(), b, str(n).lower(), "," if k + 1 < len(chi) else "", ln)
    t += "  ]\n\n"
    t += ("/-- what a branch does after its minimize calls: `choose` value (or guard index), index (source order within the\n"
          "    iteration) of the minimize call whose result is assigned to `res`, and `mult_arr[0..1]` afterwards -/\n"
          "structure Row where\n  choose : Nat\n  resCall : Nat\n  mult : List Int\n  deriving Repr, DecidableEq\n\n"
          "/-- `if lhs['fun'] op rhs['fun']: row` (call indices) -/\n"
          "structure Guard where\n  lhs : Nat\n  op : Cmp\n  rhs : Nat\n  row : Row\n  deriving Repr, DecidableEq\n\n"
          "inductive Selector where\n"
          "  | single                                                     -- `res = minimize(...)`\n"
          "  | argmin (order : List Nat) (cases : List Row) (fallback : Row) -- `choose = np.argmin([...])`, `if choose == k`, `else`\n"
          "  | guards (gs : List Guard) (els : Row)                        -- `if a['fun'] < b['fun'] ... elif ... else`\n"
          "  deriving Repr, DecidableEq\n\n"
          "structure Branch where\n  nclass : NClass\n  logOpt : Bool\n  flagThree : Bool\n"
          "  calls : List (Option (List Sign))   -- `signs` argument of each minimize call, source order\n"
          "  sel : Selector\n  deriving Repr, DecidableEq\n\n")
    t += "def branches : List Branch := [\n"
    bl = []
    for nc, lo, b in ot["branches"]:
        bl.append("  -- test_all.py:%d\n  ⟨.%s, %s, %s, %s,\n    %s⟩" % (b["line"], nc, str(lo).lower(), str(b["flag"]).lower(),
                                                                         llist(map(_signs_lean, b["calls"])), _sel_lean(b["sel"])))
    t += ",\n".join(bl) + "\n  ]\n\n"
    f, to = ot["final"], ot["tout"]
    t += ("structure BackSpec where\n  cmp : Cmp          -- `chi2_min cmp big` guards the back-transformation\n  big : Const\n"
          "  base : Nat         -- `base ** best.x` when flag_three is false\n  usesMult : Bool    -- `* mult_arr_best`\n  deriving Repr, DecidableEq\n\n")
    t += "def finalBack : BackSpec := ⟨.%s, %s, %d, %s⟩ -- test_all.py:%d\n" % (f["cmp"], _const(f["big"]), f["base"], str(f["mult"]).lower(), f["line"])
    t += "def timeoutBack : BackSpec := ⟨.%s, %s, %d, %s⟩ -- test_all.py:%d\n\n" % (to["cmp"], _const(to["big"]), to["base"], str(to["mult"]).lower(), to["line"])
    t += ("structure LoopSpec where\n"
          "  infCmp : Cmp       -- `inf_count infCmp infLimit and isinf(chi2_min)`: break\n  infLimit : Nat\n"
          "  resetCmp : Cmp     -- `fun - chi2_min resetCmp resetThr`: count_lowest = resetTo\n  resetThr : Const\n  resetTo : Nat\n"
          "  windowCmp : Cmp    -- `abs(fun - chi2_min) windowCmp window`: count_lowest += 1\n  window : Const\n"
          "  keepCmp : Cmp      -- `fun keepCmp chi2_min`: keep this iterate\n"
          "  convCmp : Cmp      -- `count_lowest convCmp Nconv`: break\n  deriving Repr, DecidableEq\n\n")
    t += "def loopSpec : LoopSpec := ⟨.%s, %d, .%s, %s, %d, .%s, %s, .%s, .%s⟩\n\n" % (
        ot["infCmp"], ot["infLimit"], ot["resetCmp"], _const(ot["resetThr"]), ot["resetTo"],
        ot["windowCmp"], _const(ot["window"]), ot["keepCmp"], ot["convCmp"])
    t += "/-- defaults of the signature; N = P[0] + P[1]*nparam + P[2]*nparam^2 + ... (int(np.sum(nparam ** arange(len P) * P))) -/\n"
    t += "def niterDefault : List Int := %s\n" % llist(["(%d)" % q for q in ot["Niter_params"]])
    t += "def nconvDefault : List Int := %s\n" % llist(["(%d)" % q for q in ot["Nconv_params"]])
    t += "def maxParamDefault : Nat := %d\n" % ot["max_param"]
    t += "def logOptDefault : Bool := %s\n" % str(ot["log_opt"]).lower()
    t += "def testSuccessDefault : Bool := %s\n" % str(ot["test_success"]).lower()
    t += extract.footer("Optim")
    return t
