"""Symbolic reading of a small straight-line Python function (used by extractors/single.py for fit_single.single_function).

The function body is *executed symbolically*, once per truth assignment of the conditions it branches on, and every
returned value is rendered in a normal form that does not mention local variable names.  The table is therefore the
same for two sources that differ only by the rewrites below (each preserves Python semantics for all inputs; this
module is part of the trusted translator):

  N1  renamed locals, hoisted temporaries, values bound to `_`: a local name is replaced by the value it holds;
  N2  tuple assignment <-> separate statements, chained assignment `a = b = v`, unpacking of a call result
      (`p, q = f()` makes p = f()[0], q = f()[1]), constant subscripts / slices of a tuple built in the function;
  N3  `x = a if c else b` <-> `if c: x = a` / `else: x = b`; early returns <-> result variable (`r = (a, b)`,
      `if c: r = r + (p,)` / `r += (p,)`, `return r`): only the value returned on each path counts;
  N4  `not`, `and`, `or` (short-circuit), `bool(c)` of branch conditions that are parameters of the function or
      attributes of parameters (the path key is the truth value of the atom itself; hence guard inversion,
      De Morgan and double negation of such conditions);
  N5  `import m as g; g.f(...)` <-> `from m import f; f(...)` <-> a local alias `h = g.f; h(...)`: a callee is named
      by the module it is imported from;
  N6  one level of helper inlining: a function of the same module, or a closure defined in the function, whose body
      is straight-line (assignments, if, return) is entered with its arguments bound to its parameters;
  N7  `print(...)`, `pass`, docstrings and comments have no value (calls made inside print arguments are still
      recorded in the call order);
  N8  string formatting style, call layout (positional vs keyword spelling is NOT normalised: arguments are not part
      of the table).

NOT normalised on purpose (floating point): the association and order of a sum (`a + (b + c)` is rendered with its
parentheses, `b + a` stays `b + a`).

Everything else fails closed with ExtractError: loops, try/with/assert/del/global, star-unpacking, augmented
assignment other than `+=`, a branch condition that is not a parameter (attribute), a same-module helper that cannot be
inlined (loops, recursion, a second level of helpers), `return` missing on a path, an imported or module-level name that
the module binds a second time (assignment, second import/def, `global`, `import *`).
"""
import ast
import builtins
from extract import ExtractError

MAX_PATHS = 64


class _Need(Exception):
    def __init__(self, atom):
        self.atom = atom


class _Return(Exception):
    def __init__(self, value):
        self.value = value


def module_imports(tree):
    """local name -> fully qualified object it is bound to by a module-level import"""
    imp = {}
    for n in tree.body:
        if isinstance(n, ast.ImportFrom):
            if n.level:
                raise ExtractError("relative import at line %d not supported" % n.lineno)
            for a in n.names:
                imp[a.asname or a.name] = "%s.%s" % (n.module, a.name)
        elif isinstance(n, ast.Import):
            for a in n.names:
                if a.asname:
                    imp[a.asname] = a.name
                else:
                    imp[a.name.split(".")[0]] = a.name.split(".")[0]
    return imp


# ---- values -------------------------------------------------------------------------------------------------------
# ("global", qualified name) | ("param", name) | ("attr", value, name) | ("call", callee text, ordinal key)
# ("proj", value, index text) | ("sum", left, right) | ("tuple", [values]) | ("const", repr) | ("opaque", text)
# ("func", FunctionDef)  a same-module / nested helper

def render(v, counts=None):
    k = v[0]
    if k in ("global", "param", "const", "opaque"):
        return v[1]
    if k == "attr":
        return "%s.%s" % (_atomic(v[1], counts), v[2])
    if k == "call":
        n = (counts or {}).get(v[1], 1)
        return "%s%s()" % (v[1], "@%d" % v[2] if n > 1 else "")
    if k == "proj":
        b = v[1]
        if b[0] == "call":
            n = (counts or {}).get(b[1], 1)
            return "%s%s[%s]" % (b[1], "@%d" % b[2] if n > 1 else "", v[2])
        return "%s[%s]" % (_atomic(b, counts), v[2])
    if k == "sum":
        r = v[2]
        rs = render(r, counts)
        if r[0] == "sum":
            rs = "(%s)" % rs
        return "%s + %s" % (render(v[1], counts), rs)
    if k == "tuple":
        return "(%s)" % ", ".join(render(e, counts) for e in v[1]) if len(v[1]) != 1 else "(%s,)" % render(v[1][0], counts)
    if k == "func":
        return "<def %s>" % v[1].name
    raise ExtractError("unrenderable value %r" % (v,))


def _atomic(v, counts):
    s = render(v, counts)
    return "(%s)" % s if v[0] in ("sum", "opaque") else s


def sum_terms(v):
    """terms of a left-nested sum ((a + b) + c) -> [a, b, c]; a right operand that is itself a sum stays one term"""
    if v[0] == "sum":
        return sum_terms(v[1]) + [v[2]]
    return [v]


class Reader(object):
    """symbolic execution of `fn` (a FunctionDef of module `tree`)"""

    def __init__(self, tree, fn, skip_calls=("print",), strict=lambda name: True):
        self.tree, self.fn, self.strict = tree, fn, strict
        self.imports = module_imports(tree)
        self.moddefs = {n.name: n for n in tree.body if isinstance(n, ast.FunctionDef)}
        # a name is what its import / def says only if nothing else in the module binds it
        bound, defs = [], [n.name for n in tree.body if isinstance(n, (ast.FunctionDef, ast.AsyncFunctionDef, ast.ClassDef))]
        for n in tree.body:
            if not isinstance(n, (ast.FunctionDef, ast.AsyncFunctionDef, ast.ClassDef, ast.Import, ast.ImportFrom)):
                bound += [x.id for x in ast.walk(n) if isinstance(x, ast.Name) and isinstance(x.ctx, (ast.Store, ast.Del))]
                bound += [a.asname or a.name.split(".")[0] for x in ast.walk(n) if isinstance(x, (ast.Import, ast.ImportFrom)) for a in x.names]
        bound += [x for g in ast.walk(tree) if isinstance(g, (ast.Global, ast.Nonlocal)) for x in g.names]
        nimp = [a.asname or a.name.split(".")[0] for n in tree.body if isinstance(n, (ast.Import, ast.ImportFrom)) for a in n.names]
        amb = sorted(k for k in set(nimp) | set(defs) if k in bound or (nimp + defs).count(k) > 1)
        if any(isinstance(x, ast.ImportFrom) and any(a.name == "*" for a in x.names) for x in ast.walk(tree)):
            amb.append("*")
        if amb:
            raise ExtractError("module-level name(s) bound more than once (import/def/assignment/global): %s" % ", ".join(amb))
        self.skip = set(skip_calls)
        self.where = fn.name

    # ---- driver ------------------------------------------------------------------------------------------------
    def paths(self):
        """-> (atoms in order of first use, [(assignment dict, returned value, calls in execution order, counts)])"""
        atoms, done, todo = [], [], [{}]
        while todo:
            asg = todo.pop(0)
            if len(done) + len(todo) > MAX_PATHS:
                raise ExtractError("%s: more than %d paths" % (self.where, MAX_PATHS))
            self.asg, self.calls, self.counts, self.depth = asg, [], {}, 0
            env = {}
            a = self.fn.args
            if a.vararg or a.kwarg or a.posonlyargs:
                raise ExtractError("%s: *args/**kwargs/positional-only parameters not supported" % self.where)
            for p in a.args + a.kwonlyargs:
                env[p.arg] = ("param", p.arg)
            try:
                self.block(self.fn.body, env)
                raise ExtractError("%s: a path ends without `return` (conditions %r)" % (self.where, asg))
            except _Need as n:
                if n.atom not in atoms:
                    atoms.append(n.atom)
                todo.append(dict(asg, **{n.atom: True}))
                todo.append(dict(asg, **{n.atom: False}))
                continue
            except _Return as r:
                done.append((asg, r.value, list(self.calls), dict(self.counts)))
        return atoms, done

    # ---- statements --------------------------------------------------------------------------------------------
    def block(self, body, env):
        for st in body:
            self.stmt(st, env)

    def stmt(self, st, env):
        if isinstance(st, ast.Expr):
            if isinstance(st.value, ast.Constant):
                return                                                    # docstring
            if isinstance(st.value, ast.Call):
                self.expr(st.value, env)
                return
            raise ExtractError("%s line %d: expression statement not recognised: %s" % (self.where, st.lineno, ast.unparse(st)))
        if isinstance(st, ast.Pass):
            return
        if isinstance(st, ast.Assign):
            v = self.expr(st.value, env)
            for t in st.targets:
                self.bind(t, v, env)
            return
        if isinstance(st, ast.AnnAssign) and st.value is not None and isinstance(st.target, ast.Name):
            env[st.target.id] = self.expr(st.value, env)
            return
        if isinstance(st, ast.AugAssign) and isinstance(st.op, ast.Add) and isinstance(st.target, ast.Name):
            if st.target.id not in env:
                raise ExtractError("%s line %d: `%s +=` before assignment" % (self.where, st.lineno, st.target.id))
            cur, v = env[st.target.id], self.expr(st.value, env)
            if cur[0] != "tuple" or v[0] != "tuple":
                # `x += y` mutates lists / arrays in place (aliases see it): only the immutable tuple case is read
                raise ExtractError("%s line %d: `+=` on a value that is not a tuple built in the function" % (self.where, st.lineno))
            env[st.target.id] = self.add(cur, v)
            return
        if isinstance(st, ast.If):
            if self.cond(st.test, env):
                self.block(st.body, env)
            else:
                self.block(st.orelse, env)
            return
        if isinstance(st, ast.Return):
            raise _Return(self.expr(st.value, env) if st.value is not None else ("const", "None"))
        if isinstance(st, ast.FunctionDef):
            if st.decorator_list:
                raise ExtractError("%s line %d: decorated closure not supported" % (self.where, st.lineno))
            env[st.name] = ("func", st)
            return
        raise ExtractError("%s line %d: statement not recognised: %s" % (self.where, st.lineno, type(st).__name__))

    def bind(self, target, v, env):
        if isinstance(target, ast.Name):
            env[target.id] = v
            return
        if isinstance(target, (ast.Tuple, ast.List)):
            if any(isinstance(e, ast.Starred) for e in target.elts):
                raise ExtractError("%s line %d: star-unpacking not supported" % (self.where, target.lineno))
            if v[0] == "tuple":
                if len(v[1]) != len(target.elts):
                    raise ExtractError("%s line %d: unpacking %d values into %d targets" % (self.where, target.lineno, len(v[1]), len(target.elts)))
                for e, x in zip(target.elts, v[1]):
                    self.bind(e, x, env)
                return
            for i, e in enumerate(target.elts):
                self.bind(e, ("proj", v, str(i)), env)
            return
        raise ExtractError("%s line %d: assignment target not recognised: %s" % (self.where, target.lineno, ast.unparse(target)))

    # ---- conditions --------------------------------------------------------------------------------------------
    def cond(self, e, env):
        if isinstance(e, ast.UnaryOp) and isinstance(e.op, ast.Not):
            return not self.cond(e.operand, env)
        if isinstance(e, ast.BoolOp):
            if isinstance(e.op, ast.And):
                return all(self.cond(x, env) for x in e.values)           # short-circuit like Python
            return any(self.cond(x, env) for x in e.values)
        if isinstance(e, ast.Constant) and isinstance(e.value, bool):
            return e.value
        if isinstance(e, ast.Call) and isinstance(e.func, ast.Name) and e.func.id == "bool" and e.func.id not in env \
                and len(e.args) == 1 and not e.keywords:
            return self.cond(e.args[0], env)
        v = self.expr(e, env)
        if v[0] == "const" and v[1] in ("True", "False"):
            return v[1] == "True"
        base = v
        while base[0] == "attr":
            base = base[1]
        if v[0] not in ("param", "attr") or base[0] != "param":
            raise ExtractError("%s line %d: branch condition is not a parameter of the function: %s" % (self.where, e.lineno, ast.unparse(e)))
        atom = render(v)
        if atom not in self.asg:
            raise _Need(atom)
        return self.asg[atom]

    # ---- expressions -------------------------------------------------------------------------------------------
    def add(self, a, b):
        if a[0] == "tuple" and b[0] == "tuple":
            return ("tuple", a[1] + b[1])
        if a[0] == "tuple" or b[0] == "tuple":
            raise ExtractError("%s: tuple + non-tuple" % self.where)
        return ("sum", a, b)

    def opaque(self, e, env):
        """an expression the reader does not interpret: its text with local names replaced by what they hold.  Calls in it
        are executed (recorded, in the order ast visits them) -- except inside a comprehension / lambda, whose body runs
        an unknown number of times: there a call of a routine listed in `strict` fails closed, other calls stay text."""
        reader = self
        bound = set()
        for n in ast.walk(e):
            if isinstance(n, ast.comprehension):
                bound |= {x.id for x in ast.walk(n.target) if isinstance(x, ast.Name)}
            if isinstance(n, ast.Lambda):
                bound |= {a.arg for a in n.args.args + n.args.kwonlyargs}
            if isinstance(n, (ast.NamedExpr, ast.Await, ast.Yield, ast.YieldFrom)):
                raise ExtractError("%s line %d: %s not supported" % (self.where, e.lineno, type(n).__name__))
        env2 = {k: v for k, v in env.items() if k not in bound}

        class Sub(ast.NodeTransformer):
            scoped = 0

            def visit_scope(self, node):
                self.scoped += 1
                try:
                    return self.generic_visit(node)
                finally:
                    self.scoped -= 1
            visit_ListComp = visit_SetComp = visit_DictComp = visit_GeneratorExp = visit_Lambda = visit_scope

            def visit_Call(self, node):
                if self.scoped:
                    try:
                        nm = render(reader.expr(node.func, env2))
                    except ExtractError:
                        nm = None
                    if nm is None or reader.strict(nm):
                        raise ExtractError("%s line %d: call of %s inside a comprehension/lambda" % (reader.where, node.lineno, ast.unparse(node.func)))
                    return self.generic_visit(node)
                return ast.Name(id=render(reader.expr(node, env2), None), ctx=ast.Load())

            def visit_Name(self, node):
                if node.id in env2 and isinstance(node.ctx, ast.Load):
                    return ast.Name(id=_atomic(env2[node.id], None), ctx=ast.Load())
                return node

        return ("opaque", ast.unparse(Sub().visit(ast.parse(ast.unparse(e), mode="eval").body)))

    def expr(self, e, env):
        if isinstance(e, ast.Name):
            if e.id in env:
                return env[e.id]
            if e.id in self.moddefs:
                return ("func", self.moddefs[e.id])
            if e.id in self.imports:
                return ("global", self.imports[e.id])
            if hasattr(builtins, e.id):
                return ("global", e.id)
            raise ExtractError("%s line %d: name %s is neither a local, a parameter, an import nor a builtin" % (self.where, e.lineno, e.id))
        if isinstance(e, ast.Constant):
            return ("const", repr(e.value))
        if isinstance(e, ast.Attribute):
            b = self.expr(e.value, env)
            if b[0] == "global":
                return ("global", "%s.%s" % (b[1], e.attr))
            return ("attr", b, e.attr)
        if isinstance(e, ast.Tuple):
            if any(isinstance(x, ast.Starred) for x in e.elts):
                raise ExtractError("%s line %d: starred tuple element" % (self.where, e.lineno))
            return ("tuple", [self.expr(x, env) for x in e.elts])
        if isinstance(e, ast.BinOp) and isinstance(e.op, ast.Add):
            a = self.expr(e.left, env)
            b = self.expr(e.right, env)
            return self.add(a, b)
        if isinstance(e, ast.IfExp):
            return self.expr(e.body, env) if self.cond(e.test, env) else self.expr(e.orelse, env)
        if isinstance(e, ast.Subscript):
            b = self.expr(e.value, env)
            s = e.slice
            if isinstance(s, ast.Constant) and isinstance(s.value, int) and not isinstance(s.value, bool):
                if b[0] == "tuple":
                    if not -len(b[1]) <= s.value < len(b[1]):
                        raise ExtractError("%s line %d: tuple index out of range" % (self.where, e.lineno))
                    return b[1][s.value]
                if s.value >= 0:
                    return ("proj", b, str(s.value))
            if isinstance(s, ast.Slice) and b[0] == "tuple" and all(
                    x is None or (isinstance(x, ast.Constant) and isinstance(x.value, int)) for x in (s.lower, s.upper, s.step)):
                return ("tuple", b[1][slice(*(None if x is None else x.value for x in (s.lower, s.upper, s.step)))])
            return self.opaque(e, env)
        if isinstance(e, ast.Call):
            return self.call(e, env)
        if isinstance(e, ast.NamedExpr):
            raise ExtractError("%s line %d: walrus not supported" % (self.where, e.lineno))
        return self.opaque(e, env)

    def call(self, e, env):
        f = self.expr(e.func, env)
        if any(isinstance(a, ast.Starred) for a in e.args) or any(k.arg is None for k in e.keywords):
            if f[0] == "func":
                raise ExtractError("%s line %d: */** arguments to a helper" % (self.where, e.lineno))
        args = [self.expr(a.value if isinstance(a, ast.Starred) else a, env) for a in e.args]
        kws = [(k.arg, self.expr(k.value, env)) for k in e.keywords]
        if f[0] == "func":
            return self.inline(f[1], args, kws, e, env)
        name = render(f)
        if name in self.skip:
            return ("const", "None")
        k = self.counts.get(name, 0)
        self.counts[name] = k + 1
        self.calls.append(name)
        return ("call", name, k)

    def inline(self, d, args, kws, e, outer):
        if self.depth >= 1:
            raise ExtractError("%s line %d: helper %s called from a helper (only one level is inlined)" % (self.where, e.lineno, d.name))
        if d is self.fn:
            raise ExtractError("%s line %d: recursion" % (self.where, e.lineno))
        a = d.args
        if a.vararg or a.kwarg or a.posonlyargs or d.decorator_list:
            raise ExtractError("%s line %d: helper %s has */** parameters or decorators" % (self.where, e.lineno, d.name))
        names = [p.arg for p in a.args]
        if len(args) > len(names):
            raise ExtractError("%s line %d: too many arguments for helper %s" % (self.where, e.lineno, d.name))
        closure = self.moddefs.get(d.name) is not d
        env = {}
        for n, v in zip(names, args):
            env[n] = v
        for n, v in kws:
            if n in env or n not in names + [p.arg for p in a.kwonlyargs]:
                raise ExtractError("%s line %d: bad keyword %s for helper %s" % (self.where, e.lineno, n, d.name))
            env[n] = v
        defaults = dict(zip(names[len(names) - len(a.defaults):], a.defaults))
        defaults.update({p.arg: dv for p, dv in zip(a.kwonlyargs, a.kw_defaults) if dv is not None})
        for n in names + [p.arg for p in a.kwonlyargs]:
            if n not in env:
                if n not in defaults or not isinstance(defaults[n], ast.Constant):
                    raise ExtractError("%s line %d: helper %s: parameter %s has no (constant) default" % (self.where, e.lineno, d.name, n))
                env[n] = ("const", repr(defaults[n].value))
        # a module-level helper does not see the caller's locals; a closure reads them as they are at call time and
        # must not assign any of them (a name assigned in the closure is local to it from its first line)
        if closure:
            assigned = {x.id for n in ast.walk(d) for x in ast.walk(n) if isinstance(x, ast.Name) and isinstance(x.ctx, (ast.Store, ast.Del))}
            if any(isinstance(n, (ast.Nonlocal, ast.Global)) for n in ast.walk(d)) or (assigned & set(outer)) - set(env):
                raise ExtractError("%s line %d: closure %s assigns a local of its caller" % (self.where, e.lineno, d.name))
            env = dict({k: v for k, v in outer.items() if k not in env}, **env)
        self.depth += 1
        where = self.where
        self.where = "%s>%s" % (where, d.name)
        try:
            self.block(d.body, env)
            return ("const", "None")
        except _Return as r:
            return r.value
        finally:
            self.depth -= 1
            self.where = where
