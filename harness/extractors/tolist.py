"""Generated/ToList.lean: the special-case table of DecoratedNode.__init__, the string literals of the if/elif chain
of DecoratedNode.to_list (incl. the "sqaure" spelling), the label renaming of fit_from_string / string_to_aifeyn, and the
selection skeleton of string_to_node: the parse variants in index order (kern / evaluate flags, which of them sits behind
`if allow_eval:`), the rule chain and the `sympy_numerics` list of check_operators, the defaults of string_to_node and the
effective arguments of its call sites in fit_single.py.

How the source is read (extractors/_norm_c18.py has the details and the soundness argument of every step).  Each function
is executed SYMBOLICALLY into a normal form — locals, `self.<attr>` and list items replaced by what was assigned to them,
conditionals turned into decision trees / conditional expressions — and the normal form is matched against the shape the
hand-written Lean model has for it; the metavariables of the pattern bind the literals of the table.  A statement,
expression, call or target outside the fragment, or a normal form that does not match, is an ExtractError (fail closed).
Consequently the same table comes out for sources that differ by
  * renamed locals / loop variables, hoisted temporaries and named constants, tuple and chained assignment, tuple
    unpacking of `as_two_terms()` / `string_to_node()` / `check_tree()` vs indexing;
  * an attribute read back instead of the expression it was assigned (`self.degree` for `len(fun.args)`);
  * `x = a if c else b` vs if/else, early return vs result variable, `else` after `return` dropped or added,
    `return None` vs `pass` vs falling off the end, guard inversion;
  * double negation, De Morgan, `not a == b` vs `a != b` (also is / in), nested and/or of the same operator;
  * `str(2)` vs `"2"`, tuple vs list display after `in`;
  * `range(len(L))` vs `enumerate(L)` item loops, comprehension vs loop with append / `+=` / `r = r + …`;
  * one level of inlining of a private helper (`self._name`, `@staticmethod`, module-level `_name`, nested def);
  * the four `try` blocks of string_to_node written with literal indices instead of `i = <k>`, or folded into one loop
    over a literal tuple of (kern, evaluate) pairs (unrolled), `if i == 0 and not allow_eval: continue` included;
  * `'a' + str(k)`, `'a%d' % k`, `'a{}'.format(k)` for `f'a{k}'` (k is an `enumerate` index: an int).
"""
import ast
from fractions import Fraction
import extract
from extract import ExtractError, lstr, llist
from extractors import _norm_c18 as nx

GEN = "esr/generation/generator.py"
FIT = "esr/fitting/fit_single.py"

extract.MODELLED += [
    (GEN, "DecoratedNode", "__init__"),
    (GEN, "DecoratedNode", "to_list"),
    (GEN, "DecoratedNode", "count_nodes"),
    (GEN, "DecoratedNode", "is_unity"),
    (GEN, None, "string_to_node"),
    (GEN, None, "string_to_expr"),
    (GEN, None, "labels_to_shape"),
    (GEN, None, "is_float"),
    (FIT, None, "fit_from_string"),
    (FIT, None, "string_to_aifeyn"),
    (GEN, None, "check_operators"),
]


def _const_value(node):
    """int literal or float expression -> Lean Const"""
    try:
        v = ast.literal_eval(node)
    except Exception:
        if isinstance(node, ast.BinOp) and isinstance(node.op, ast.Div):
            try:
                v = ast.literal_eval(node.left) / ast.literal_eval(node.right)
            except Exception:
                raise ExtractError("__init__: constant %s not understood" % ast.unparse(node))
        else:
            raise ExtractError("__init__: constant %s not understood" % ast.unparse(node))
    if isinstance(v, bool):
        raise ExtractError("__init__: boolean constant")
    if isinstance(v, int):
        return ".int (%d)" % v
    if isinstance(v, float):
        f = Fraction(v)
        return ".pyfloat (%d) %d" % (f.numerator, f.denominator)
    raise ExtractError("__init__: constant %r not a number" % (v,))


def _conj(test):
    return list(test.values) if isinstance(test, ast.BoolOp) and isinstance(test.op, ast.And) else [test]


def _disj(test):
    return list(test.values) if isinstance(test, ast.BoolOp) and isinstance(test.op, ast.Or) else [test]


def _lineno(node, default=0):
    for n in ast.walk(node):
        ln = getattr(n, "lineno", None)
        if ln:
            return ln
    return default


def _class_def(tree, cls):
    for n in tree.body:
        if isinstance(n, ast.ClassDef) and n.name == cls:
            return n
    raise ExtractError("class %s not found" % cls)


def _helpers(tree, cls, fn):
    """N8: the private helpers a function of class `cls` may call: methods `self._name`, module-level `_name`, nested defs"""
    h = {}
    for n in tree.body:
        if isinstance(n, ast.FunctionDef) and n.name.startswith("_") and not n.name.startswith("__"):
            h[n.name] = n
    if cls is not None:
        for n in _class_def(tree, cls).body:
            if isinstance(n, ast.FunctionDef) and n.name.startswith("_") and not n.name.startswith("__") and n is not fn:
                if any(ast.unparse(d) == "staticmethod" for d in n.decorator_list):
                    m = nx.cp(n)
                    m.decorator_list = []
                    m.args.args = [ast.arg(arg="self")] + m.args.args
                    h["self." + n.name] = m
                else:
                    h["self." + n.name] = n
    body = []
    for st in fn.body:
        if isinstance(st, ast.FunctionDef):
            free = {x.id for x in ast.walk(st) if isinstance(x, ast.Name)} - {a.arg for a in st.args.args}
            assigned = {x.id for x in ast.walk(fn) if isinstance(x, ast.Name) and isinstance(x.ctx, ast.Store)}
            if free & assigned:
                raise ExtractError("%s: nested helper `%s` reads locals of the enclosing function" % (fn.name, st.name))
            h[st.name] = st
        else:
            body.append(st)
    return h, body


# --------------------------------------------------------------------------------------------------------------
# DecoratedNode.__init__
# --------------------------------------------------------------------------------------------------------------

INIT_FIXED = {"self.type": "type(fun)", "self.constant": "fun.is_number", "self.degree": "len(fun.args)", "self.parent": "parent",
              "self.val": "str(fun) if fun.is_number else fun.name if fun.is_symbol else None"}
P_CLS = nx.E("fun.__class__.__name__ == S_cls")
P_ARG1 = nx.E("fun.args[1] == C_const")
P_BASIS1 = nx.E("S_b in basis_functions[1]")
P_DIV = [nx.E("len(fun.args) == 2"), nx.E("fun.args[1].__class__.__name__ == S_argCls"), nx.E("fun.args[1].args[1] == C_const")]
P_KID1 = nx.E("[DecoratedNode(fun.args[0], basis_functions, parent_op=S_op, parent=self)]")
P_KID2 = nx.E("[DecoratedNode(fun.args[0], basis_functions, parent_op=S_op, parent=self), "
              "DecoratedNode(fun.args[1].args[0], basis_functions, parent_op=S_op, parent=self)]")
P_MANY = nx.E("len(fun.args) > 2")
P_TWO = nx.E("[DecoratedNode(fun.as_two_terms()[0], basis_functions, parent_op=fun.__class__.__name__, parent=self), "
             "DecoratedNode(fun.as_two_terms()[1], basis_functions, parent_op=fun.__class__.__name__, parent=self)]")
P_EACH = nx.E("[DecoratedNode(V_a, basis_functions, parent_op=fun.__class__.__name__, parent=self) for V_a in fun.args]")


def _init_state(stage):
    """final symbolic state of `DecoratedNode(fun, …)` for `fun is not None`: cell -> expression"""
    tree = extract._parse(stage, GEN)
    fn = extract.find_def(tree, "__init__", "DecoratedNode")
    fn = nx.rename_comprehension_vars(fn)
    helpers, body = _helpers(tree, "DecoratedNode", fn)
    body = [b for b in nx.strip_doc(body) if not isinstance(b, ast.Pass)]
    not_none = nx.key(nx.E("fun is not None"))
    is_none = nx.key(nx.E("fun is None"))
    inner = None
    if len(body) == 1 and isinstance(body[0], ast.If) and not body[0].orelse and nx.key(nx.norm(body[0].test, True)) == not_none:
        inner = body[0].body
    elif (body and isinstance(body[0], ast.If) and not body[0].orelse and nx.key(nx.norm(body[0].test, True)) == is_none
          and len(body[0].body) == 1 and isinstance(body[0].body[0], ast.Return) and body[0].body[0].value is None):
        inner = body[1:]
    if inner is None:
        raise ExtractError("DecoratedNode.__init__: `if fun is not None` not found")
    where = "DecoratedNode.__init__"
    out = nx.Exec(helpers, where).block(inner, {})
    if not isinstance(out, nx.Fall):
        raise ExtractError("DecoratedNode.__init__: returns a value / does not fall through")
    nx.check_kept(out, where, observable=lambda k: k.startswith("self."))
    return out.env


def init_attrs(stage):
    """attributes every DecoratedNode built from an expression has (reading them cannot raise)"""
    return sorted(k[5:] for k, v in _init_state(stage).items() if k.startswith("self.") and v is not nx.UNDEF)


def init_rules(stage):
    env = _init_state(stage)
    for k, want in INIT_FIXED.items():
        if k not in env or nx.key(env[k]) != nx.key(nx.norm(nx.E(want))):
            raise ExtractError("DecoratedNode.__init__: `%s` is %s, the model has `%s`" % (
                k, "`%s`" % nx.src(env[k])[:120] if k in env else "not assigned", want))
    if "self.op" not in env or "self.children" not in env:
        raise ExtractError("DecoratedNode.__init__: self.op / self.children not assigned")
    opch, op_else = nx.ifexp_chain(env["self.op"])
    chch, ch_else = nx.ifexp_chain(env["self.children"])
    if nx.key(op_else) != nx.key(nx.E("fun.__class__.__name__")):
        raise ExtractError("DecoratedNode.__init__: `self.op` of the general branch is not fun.__class__.__name__")
    if len(chch) != len(opch) + 1 or any(nx.key(a[0]) != nx.key(b[0]) for a, b in zip(opch, chch)):
        raise ExtractError("DecoratedNode.__init__: the special-case chain changed shape (self.op and self.children are not set by the same tests)")
    # the general branch
    t_many, two = chch[-1]
    if (nx.match(P_MANY, t_many) is None or nx.match(P_TWO, two) is None or nx.match(P_EACH, ch_else) is None):
        raise ExtractError("DecoratedNode.__init__: the general branch (as_two_terms / one child per argument) changed shape")
    rules = []
    for (test, op), (_, kids) in zip(opch, chch):
        ln = _lineno(test)
        cj = _conj(test)
        b = nx.match(P_CLS, cj[0])
        if b is None:
            raise ExtractError("__init__ branch at line %d: first conjunct is not `self.op == '<cls>'`" % ln)
        cls = b["S_cls"]
        if not (isinstance(op, ast.Constant) and isinstance(op.value, str)):
            raise ExtractError("__init__ branch at line %d: no `self.op = '<name>'`" % ln)
        newop = op.value
        bk = nx.Bind()
        bk["S_op"] = newop
        bk["#S_op"] = repr(newop)
        rest = cj[1:]
        if nx.match(P_KID1, kids, nx.Bind(bk)) is not None:
            b1 = nx.match(P_ARG1, rest[0]) if rest else None
            if b1 is None or len(rest) > 2:
                raise ExtractError("__init__ branch at line %d: expected `fun.args[1] == <const>`" % ln)
            const = _const_value(b1["C_const"])
            names = []
            if len(rest) == 2:
                for d in _disj(rest[1]):
                    bb = nx.match(P_BASIS1, d)
                    if bb is None:
                        raise ExtractError("__init__ branch at line %d: basis condition not understood" % ln)
                    names.append(bb["S_b"])
            rules.append((cls, False, "", const, names, newop, ln))
        elif nx.match(P_KID2, kids, nx.Bind(bk)) is not None:
            bd = nx.Bind()
            if len(rest) != 3 or any(nx.match(p_, r_, bd) is None for p_, r_ in zip(P_DIV, rest)):
                raise ExtractError("__init__ branch at line %d: quotient pattern not understood" % ln)
            rules.append((cls, True, bd["S_argCls"], _const_value(bd["C_const"]), [], newop, ln))
        else:
            raise ExtractError("__init__ branch at line %d: children `%s` not modelled" % (ln, nx.src(kids)[:200]))
    return rules


# --------------------------------------------------------------------------------------------------------------
# DecoratedNode.to_list
# --------------------------------------------------------------------------------------------------------------

# field names of ESR.Gen.ToList.ToListLits, branch by branch, with the normal form of the branch: test and body as Python
# patterns (metavariable S_<field> / T_<field> / LS_<field> binds the literal of that field)
_K0 = "self.children[0].to_list(basis_functions)"
_K1 = "self.children[1].to_list(basis_functions)"
TOLIST_BRANCHES = [
    (None, "self.degree == 0", "return [str(self.val)]"),
    (None, "self.degree == 1", "return [self.op] + " + _K0),
    (["sqrtOp", "sqrtTyp", "sqrtBasisA", "sqrtBasisB", "sqrtTestA", "sqrtLabelA", "sqrtLabelB"],
     "self.op == S_sqrtOp and self.children[1].type == sympy.core.numbers.T_sqrtTyp and "
     "(S_sqrtBasisA in basis_functions[1] or S_sqrtBasisB in basis_functions[1])",
     "if S_sqrtTestA in basis_functions[1]:\n    return [S_sqrtLabelA] + %s\nelse:\n    return [S_sqrtLabelB] + %s" % (_K0, _K0)),
    (["squareOp", "squareExp", "squareBasis", "squareLabel"],
     "self.op == S_squareOp and self.children[1].val == S_squareExp and S_squareBasis in basis_functions[1]",
     "return [S_squareLabel] + " + _K0),
    (["unsquareOp", "unsquareBasis", "unsquareLabel", "unsquareExp"],
     "self.op == S_unsquareOp and S_unsquareBasis not in basis_functions[1]",
     "return [S_unsquareLabel] + %s + [S_unsquareExp]" % _K0),
    (["cubeOp", "cubeExp", "cubeBasis", "cubeLabel"],
     "self.op == S_cubeOp and self.children[1].val == S_cubeExp and S_cubeBasis in basis_functions[1]",
     "return [S_cubeLabel] + " + _K0),
    (["uncubeOp", "uncubeBasis", "uncubeLabel", "uncubeExp"],
     "self.op == S_uncubeOp and S_uncubeBasis not in basis_functions[1]",
     "return [S_uncubeLabel] + %s + [S_uncubeExp]" % _K0),
    (["invOp", "invTyp", "invBasis", "invLabel"],
     "self.op == S_invOp and self.children[1].type == sympy.core.numbers.T_invTyp and S_invBasis in basis_functions[1]",
     "return [S_invLabel] + " + _K0),
    (["mulInvOp", "mulInvKidOp", "mulInvTyp", "mulInvBasis", "mulInvLabel"],
     "self.op == S_mulInvOp and self.children[0].op == S_mulInvKidOp and self.children[1].type == sympy.core.numbers.T_mulInvTyp "
     "and S_mulInvBasis in basis_functions[2]",
     "return [S_mulInvLabel] + " + _K1),
    (["divInvOp", "divInvKidOp", "divInvTyp", "divInvBasis", "divInvLabel"],
     "self.op == S_divInvOp and self.children[0].op == S_divInvKidOp and self.children[1].type == sympy.core.numbers.T_divInvTyp "
     "and S_divInvBasis in basis_functions[2]",
     "return [S_divInvLabel] + " + _K1),
    (["unitOp"],
     "self.op == S_unitOp and (self.children[0].is_unity() or self.children[1].is_unity())",
     "if self.children[0].is_unity():\n    return %s\nelse:\n    return %s" % (_K1, _K0)),
    (["absOp", "absParents"],
     "self.op == S_absOp and self.parent.op in LS_absParents",
     "return " + _K0),
    (["passOp"],
     "self.op == S_passOp and (self.children[0] == 1 or self.children[1] == 1)",
     "return None"),
    (["subOp", "subKidOp", "subNegA", "subNegB", "subNegC", "subLabelA", "subLabelB"],
     "self.op == S_subOp and self.children[1].op == S_subKidOp and "
     "(self.children[1].children[0].op == S_subNegA or self.children[1].children[1].op == S_subNegB)",
     "if self.children[1].children[0].op == S_subNegC:\n"
     "    return [S_subLabelA] + %s + self.children[1].children[1].to_list(basis_functions)\n"
     "else:\n"
     "    return [S_subLabelB] + %s + self.children[1].children[0].to_list(basis_functions)" % (_K0, _K0)),
]
TOLIST_FIELDS = [b[0] for b in TOLIST_BRANCHES]
TOLIST_ELSE = ["return [self.op] + [V_l for V_c in self.children for V_l in V_c.to_list(basis_functions)]"]


def tolist_literals(stage):
    tree = extract._parse(stage, GEN)
    fn = nx.rename_comprehension_vars(extract.find_def(tree, "to_list", "DecoratedNode"))
    a = fn.args
    if [x.arg for x in a.args] != ["self", "basis_functions"] or a.vararg or a.kwarg or a.kwonlyargs or a.defaults:
        raise ExtractError("DecoratedNode.to_list: parameters changed")
    helpers, body = _helpers(tree, "DecoratedNode", fn)
    where = "DecoratedNode.to_list"
    out = nx.lift(nx.finish(nx.Exec(helpers, where).block(nx.strip_doc(body), {})))
    nx.check_kept(out, where, total_attrs=init_attrs(stage))
    chain, last = nx.chain_of(out)
    if len(chain) != len(TOLIST_BRANCHES):
        raise ExtractError("DecoratedNode.to_list: %d branches, the model knows %d" % (len(chain), len(TOLIST_BRANCHES)))
    vals = []
    for (test, sub), (fields, ptest, pbody) in zip(chain, TOLIST_BRANCHES):
        ln = _lineno(test)
        b = nx.match(nx.E(ptest), test)
        if b is None:
            raise ExtractError("to_list branch at line %d: test `%s` is not of the shape the model has for this branch (`%s`)" % (
                ln, nx.src(test)[:200], ptest))
        b = nx.match(nx.S(pbody), nx.to_stmts(sub), b)
        if b is None:
            raise ExtractError("to_list branch at line %d: body `%s` is not of the shape the model has for this branch (`%s`)" % (
                ln, nx.src(nx.to_stmts(sub))[:300], pbody.replace("\n", " ")))
        if fields is None:
            continue
        row = []
        for f in fields:
            for pre in ("S_", "T_", "LS_"):
                if pre + f in b:
                    row.append((f, b[pre + f]))
                    break
            else:
                raise ExtractError("to_list branch at line %d: literal %s not found" % (ln, f))
        vals.append((ln, row))
    if nx.match_any([nx.S(p_) for p_ in TOLIST_ELSE], nx.to_stmts(last)) is None:
        raise ExtractError("DecoratedNode.to_list: the general branch (`[self.op]` followed by the children's lists) changed shape: `%s`" % (
            nx.src(nx.to_stmts(last))[:300],))
    return vals


# --------------------------------------------------------------------------------------------------------------
# relabelling pass of fit_from_string / string_to_aifeyn
# --------------------------------------------------------------------------------------------------------------

P_AK = ["f'a{V_k}'", "'a' + str(V_k)", "'a%d' % V_k", "'a%s' % V_k", "'a{}'.format(V_k)", "'a%d' % (V_k,)", "'a%s' % (V_k,)"]
P_PARAM_IDX = ("[V_a for V_a, V_b in enumerate(%s) if generator.is_float(V_b) or "
               "(V_b.startswith('a') and generator.is_float(V_b[1:]))]")
# negation normal form of `… and not (parents[j] is not None and parents[j].lower() == 'pow')`: the root has no parent
# (`parents[0] is None`), a root number IS replaced
P_FLOAT_IDX = ("[V_a for V_a, V_b in enumerate(%s) if (generator.is_float(V_b) and (%s[V_a] is None or %s[V_a].lower() != S_par)) or "
               "(V_b.startswith('a') and generator.is_float(V_b[1:]))]")


def _m(pat, node, what, fn, b=None):
    r = nx.match(pat, node, b)
    if r is None:
        raise ExtractError("%s: %s changed shape: `%s`" % (fn, what, nx.src(node)[:240]))
    return r


def _renumber_loop(st, idx_name, target, fn, what):
    """`for k, j in enumerate(<idx_name>): <target>[j] = 'a<k>'`"""
    for pk in P_AK:
        pat = nx.S("for V_k, V_j in enumerate(%s):\n    %s[V_j] = %s" % (idx_name, target, pk))
        if nx.match(pat, [st]) is not None:
            return
    raise ExtractError("%s: %s changed shape: `%s`" % (fn, what, nx.src(st)[:240]))


def _rename_table(fn):
    """the statements from `… = generator.string_to_node(…)` to `if replace_floats: …`, one by one"""
    name = fn.name
    body = nx.norm_stmts(nx.strip_doc(nx.rename_comprehension_vars(fn).body))
    k0 = k1 = None
    for k, st in enumerate(body):
        if k0 is None and isinstance(st, ast.Assign) and isinstance(st.value, ast.Call) and ast.unparse(st.value.func) in ("generator.string_to_node", "string_to_node"):
            k0 = k
        if isinstance(st, ast.If) and ast.unparse(st.test) == "replace_floats":
            k1 = k
    if k0 is None or k1 is None or k1 < k0:
        raise ExtractError("%s: the call of string_to_node / `if replace_floats:` not found" % name)
    reg = [st for st in body[k0:k1 + 1] if not isinstance(st, ast.Pass)]
    if len(reg) != 11:
        raise ExtractError("%s: %d statements between the call of string_to_node and `if replace_floats:`, the model knows 11" % (name, len(reg)))
    b = _m(nx.S("V_e, V_n, V_c = E_call"), [reg[0]], "the call of string_to_node", name)
    b = _m(nx.S("V_labels = V_n.to_list(basis_functions)"), [reg[1]], "`labels = nodes.to_list(basis_functions)`", name, b)
    b = _m(nx.S("V_new = [None] * len(V_labels)"), [reg[2]], "`new_labels = [None] * len(labels)`", name, b)
    L, N = b["V_labels"], b["V_new"]
    # the renaming loop
    where = "%s: renaming loop" % name
    i, LL, env, out = nx.item_loop_body(reg[3], where)
    if LL != L or sorted(k for k in env if "[" in k) != sorted(["%s[%s]" % (L, i), "%s[%s]" % (N, i)]):
        raise ExtractError("%s: renaming loop not found (loop over `%s` assigning %s)" % (name, LL, sorted(k for k in env if "[" in k)))
    nx.check_kept(out, where, observable=lambda k: "[" in k)
    ch1, e1 = nx.ifexp_chain(env["%s[%s]" % (L, i)])
    ch2, e2 = nx.ifexp_chain(env["%s[%s]" % (N, i)])
    if len(ch1) != len(ch2) or any(nx.key(x[0]) != nx.key(y[0]) or nx.key(x[1]) != nx.key(y[1]) for x, y in zip(ch1, ch2)) or nx.key(e1) != nx.key(e2):
        raise ExtractError("%s: renaming body changed shape (labels and new_labels are not renamed alike)" % name)
    table = []
    for test, val in ch1:
        bb = nx.match(nx.E("%s[%s] == S_k" % (L, i)), test)
        if bb is None or not (isinstance(val, ast.Constant) and isinstance(val.value, str)):
            raise ExtractError("%s line %d: renaming test not `lab == '<name>'`" % (name, _lineno(test)))
        table.append((bb["S_k"], val.value))
    if nx.match(nx.E("%s[%s].lower()" % (L, i)), e1) is None:
        raise ExtractError("%s: the default renaming is not lab.lower()" % name)
    # parameter positions, numbering, parents
    b2 = _m(nx.S("V_pidx = " + P_PARAM_IDX % N), [reg[4]], "parameter-index comprehension", name)
    pidx = b2["V_pidx"]
    _m(nx.S("assert len(%s) <= maxvar" % pidx), [reg[5]], "`assert len(param_idx) <= maxvar`", name)
    _renumber_loop(reg[6], pidx, N, name, "numbering of new_labels")
    b3 = _m(nx.S("V_s = generator.labels_to_shape(%s, basis_functions)" % N), [reg[7]], "the call of labels_to_shape", name)
    b4 = _m(nx.S("V_ok, V_u, V_tree = generator.check_tree(%s)" % b3["V_s"]), [reg[8]], "the call of check_tree", name)
    b5 = _m(nx.S("V_parents = [None] + [%s[V_p.parent] for V_p in %s[1:]]" % (L, b4["V_tree"])), [reg[9]], "the `parents` list", name)
    P = b5["V_parents"]
    if len({L, N, P}) != 3:
        raise ExtractError("%s: labels / new_labels / parents are not three different names" % name)
    rf = reg[10]
    if rf.orelse or len(rf.body) != 2:
        raise ExtractError("%s: the `if replace_floats:` block changed shape" % name)
    b6 = _m(nx.S("V_pidx = " + P_FLOAT_IDX % (L, P, P)), [rf.body[0]], "float-replacement comprehension", name)
    _renumber_loop(rf.body[1], b6["V_pidx"], L, name, "numbering of labels under replace_floats")
    par = b6["S_par"]
    mv = None
    a = fn.args
    names = [x.arg for x in a.args]
    if "maxvar" in names:
        d = a.defaults[names.index("maxvar") - (len(names) - len(a.defaults))]
        mv = ast.literal_eval(d)
    if not isinstance(mv, int):
        raise ExtractError("%s: maxvar default not found" % fn.name)
    return table, par, mv


def rename_tables(stage):
    tree = extract._parse(stage, FIT)
    a = _rename_table(extract.find_def(tree, "fit_from_string"))
    b = _rename_table(extract.find_def(tree, "string_to_aifeyn"))
    if a != b:
        raise ExtractError("fit_from_string and string_to_aifeyn relabel differently: %r vs %r" % (a, b))
    return a


# --------------------------------------------------------------------------------------------------------------
# string_to_node: the four parse variants, the check_ops masking, np.nanargmin; check_operators; call sites
# --------------------------------------------------------------------------------------------------------------

S2N_PARAMS = ["s", "basis_functions", "locs", "evalf", "allow_eval", "check_ops"]
S2N_TRY = ("try:\n"
           "    {e}[I_k] = string_to_expr(s, kern=B_kern, evaluate=B_ev, locs=locs)\n"
           "    if evalf:\n"
           "        {e}[I_k] = {e}[I_k].evalf()\n"
           "    {n}[I_k] = DecoratedNode({e}[I_k], basis_functions)\n"
           "    {c}[I_k] = {n}[I_k].count_nodes(basis_functions)\n"
           "    if check_ops:\n"
           "        {a}[I_k] = check_operators({n}[I_k], basis_functions)\n"
           "except Exception:\n"
           "    {c}[I_k] = np.nan\n")


def _flat(n):
    return ast.unparse(n).replace("\n", " ")


def _bool_kw(call, name, where):
    for k in call.keywords:
        if k.arg == name:
            if isinstance(k.value, ast.Constant) and isinstance(k.value.value, bool):
                return k.value.value
            raise ExtractError("%s: keyword %s is not a literal True/False" % (where, name))
    raise ExtractError("%s: keyword %s missing" % (where, name))


class _SubstName(ast.NodeTransformer):
    def __init__(self, name, value):
        self.name, self.value = name, value

    def visit_Name(self, n):
        if n.id == self.name and isinstance(n.ctx, ast.Load):
            return ast.Constant(value=self.value)
        return n


def _split_simple_assigns(stmts):
    """N1 at statement level: `a, b = v, w` with pure right-hand sides that do not read a or b = `a = v; b = w`"""
    out = []
    for st in stmts:
        if (isinstance(st, ast.Assign) and len(st.targets) == 1 and isinstance(st.targets[0], ast.Tuple) and isinstance(st.value, ast.Tuple)
                and len(st.targets[0].elts) == len(st.value.elts) and all(isinstance(t, ast.Name) for t in st.targets[0].elts)
                and all(nx.is_pure(v) for v in st.value.elts)
                and not ({t.id for t in st.targets[0].elts} & {n.id for v in st.value.elts for n in ast.walk(v) if isinstance(n, ast.Name)})):
            for t, v in zip(st.targets[0].elts, st.value.elts):
                out.append(ast.copy_location(ast.Assign(targets=[t], value=v), st))
        else:
            out.append(st)
    return out


def s2n_skeleton(stage):
    """-> (variants [(kern, evaluate, guarded, lineno)], defaults {evalf, allow_eval, check_ops})"""
    fn = nx.rename_comprehension_vars(extract.find_def(extract._parse(stage, GEN), "string_to_node"))
    a = fn.args
    names = [x.arg for x in a.args]
    if names != S2N_PARAMS or a.vararg or a.kwarg or a.kwonlyargs:
        raise ExtractError("string_to_node: parameters %r, the model knows %r" % (names, S2N_PARAMS))
    defaults = dict(zip(names[len(names) - len(a.defaults):], [ast.literal_eval(d) for d in a.defaults]))
    for k in ("evalf", "allow_eval", "check_ops"):
        if not isinstance(defaults.get(k), bool):
            raise ExtractError("string_to_node: default of %s is not a bool" % k)
    body = [st for st in _split_simple_assigns(nx.norm_stmts(nx.strip_doc(fn.body))) if not isinstance(st, ast.Pass)]
    if len(body) < 8:
        raise ExtractError("string_to_node: too few statements")
    # initialisation (any order)
    b = nx.Bind()
    pats = {"expr": "V_expr = [None] * 4", "nodes": "V_nodes = [None] * 4", "all_in_basis": "if check_ops:\n    V_aib = [False] * 4", "c": "V_c = np.full(4, np.nan)"}
    left = dict(pats)
    for st in body[:4]:
        for k, p_ in list(left.items()):
            bb = nx.match(nx.S(p_), [st], nx.Bind(b))
            if bb is not None:
                b = bb
                del left[k]
                break
    if left:
        raise ExtractError("string_to_node: initialisation of expr/nodes/all_in_basis/c changed shape: %r" % ([_flat(x) for x in body[:4]],))
    e_, n_, a_, c_ = b["V_expr"], b["V_nodes"], b["V_aib"], b["V_c"]
    if len({e_, n_, a_, c_} | set(S2N_PARAMS)) != 4 + len(S2N_PARAMS):
        raise ExtractError("string_to_node: the four arrays are not four different locals")
    # masking / np.nanargmin / return
    mask, pick, ret = body[-3:]
    tail_err = "string_to_node: masking / np.nanargmin / return changed shape: %r" % ([_flat(x) for x in body[-3:]],)
    if not (isinstance(mask, ast.If) and not mask.orelse and len(mask.body) == 1
            and nx.match(nx.E("check_ops and any(%s)" % a_), mask.test) is not None):
        raise ExtractError(tail_err)
    i, L, env, out = nx.item_loop_body(mask.body[0], "string_to_node: masking loop")
    if L != a_ or sorted(k for k in env if "[" in k) != ["%s[%s]" % (c_, i)] or \
            nx.match(nx.E("%s[%s] if %s[%s] else np.nan" % (c_, i, a_, i)), env["%s[%s]" % (c_, i)]) is None:
        raise ExtractError(tail_err)
    bp = nx.match(nx.S("V_best = np.nanargmin(%s)" % c_), [pick])
    if bp is None or bp["V_best"] in (e_, n_, a_, c_) + tuple(S2N_PARAMS):
        raise ExtractError(tail_err)
    if nx.match(nx.S("return ({e}[{i}], {n}[{i}], int({c}[{i}]))".format(e=e_, n=n_, c=c_, i=bp["V_best"])), [ret]) is None:
        raise ExtractError(tail_err)
    mid = nx.unroll_literal_loops(body[4:-3], "string_to_node")
    variants = []
    try_pat = nx.S(S2N_TRY.format(e=e_, n=n_, c=c_, a=a_))

    def take(stmts, guarded, cur):
        for st in stmts:
            if isinstance(st, ast.If) and _flat(st.test) == "allow_eval" and not st.orelse and not guarded:
                take(st.body, True, cur)
                cur = None                 # what `i` is after a block that may not have run is not known
                continue
            if (isinstance(st, ast.Assign) and len(st.targets) == 1 and isinstance(st.targets[0], ast.Name)
                    and isinstance(st.value, ast.Constant) and type(st.value.value) is int
                    and st.targets[0].id not in (e_, n_, a_, c_) + tuple(S2N_PARAMS)):
                cur = (st.targets[0].id, st.value.value, st.lineno)  # `i = <index>`: read as that constant until re-bound
                continue
            if not isinstance(st, ast.Try):
                raise ExtractError("string_to_node line %d: expected `i = <index>` or a try block, found `%s`" % (st.lineno, _flat(st)[:120]))
            where = "string_to_node variant %d (line %d)" % (len(variants), st.lineno)
            tr = st
            if cur is not None:
                if any(isinstance(x, ast.Name) and isinstance(x.ctx, ast.Store) and x.id == cur[0] for x in ast.walk(st)):
                    raise ExtractError("%s: the try block re-binds `%s`" % (where, cur[0]))
                tr = _SubstName(cur[0], cur[1]).visit(nx.cp(st))
            bb = nx.match(try_pat, [tr])
            if bb is None:
                raise ExtractError("%s: try block changed shape: %s" % (where, _flat(st)[:300]))
            if bb["I_k"] != len(variants):
                raise ExtractError("string_to_node line %d: variant index %d out of sequence (expected %d)" % (st.lineno, bb["I_k"], len(variants)))
            variants.append((bb["B_kern"], bb["B_ev"], guarded, cur[2] if cur is not None else st.lineno))
        return cur
    take(mid, False, None)
    if len(variants) != 4:
        raise ExtractError("string_to_node: %d parse variants, the arrays have 4 entries" % len(variants))
    return variants, defaults


P_ALL = ["return all([V_a in [V_b for V_c in basis_functions for V_b in V_c] for V_a in %s])",
         "return all((V_a in [V_b for V_c in basis_functions for V_b in V_c] for V_a in %s))"]


def check_operators_rules(stage):
    """-> (sympy_numerics list as written, [rule]) ; rule = ('rename', label, basis op, new, line) | ('numeric', new, line) | ('prefix', p, new, line)"""
    tree = extract._parse(stage, GEN)
    fn = nx.rename_comprehension_vars(extract.find_def(tree, "check_operators"))
    if [x.arg for x in fn.args.args] != ["nodes", "basis_functions"]:
        raise ExtractError("check_operators: parameters changed")
    helpers, body = _helpers(tree, None, fn)
    body = [st for st in nx.strip_doc(body) if not isinstance(st, ast.Pass)]
    loops = [k for k, st in enumerate(body) if isinstance(st, ast.For)]
    if len(loops) != 1:
        raise ExtractError("check_operators: the normalisation loop changed shape (%d loops)" % len(loops))
    pre, loop, post = body[:loops[0]], body[loops[0]], body[loops[0] + 1:]
    where = "check_operators"
    o1 = nx.Exec(helpers, where).block(pre, {})
    if not isinstance(o1, nx.Fall):
        raise ExtractError("check_operators: returns before the normalisation loop")
    i, L, env, out = nx.item_loop_body(loop, "check_operators: normalisation loop", helpers)
    cell = "%s[%s]" % (L, i)
    if sorted(k for k in env if "[" in k) != [cell]:
        raise ExtractError("check_operators: the normalisation loop changed shape (assigns %s)" % sorted(k for k in env if "[" in k))
    nx.check_kept(out, where, observable=lambda k: "[" in k)
    if L not in o1.env or nx.match(nx.E("nodes.to_list(basis_functions)"), o1.env[L]) is None:
        raise ExtractError("check_operators: `labels = nodes.to_list(basis_functions)` not found")
    # the number-class list: lower-cased by the code, or written in lower case
    cands = [k for k, v in o1.env.items() if nx.match(nx.E("[V_s.lower() for V_s in LS_num]"), v) is not None]
    low = True
    if not cands:
        cands = [k for k, v in o1.env.items() if nx.match(nx.E("LS_num"), v) is not None]
        low = False
    if len(cands) != 1:
        raise ExtractError("check_operators: `sympy_numerics = [<strings>]` not found")
    num = cands[0]
    numerics = nx.match(nx.E("[V_s.lower() for V_s in LS_num]" if low else "LS_num"), o1.env[num])["LS_num"]
    if not low and any(x != x.lower() for x in numerics):
        raise ExtractError("check_operators: sympy_numerics is not lower-cased")
    chain, orelse = nx.ifexp_chain(env[cell])
    if nx.match(nx.E("%s.lower()" % cell), orelse) is None:
        raise ExtractError("check_operators: the default normalisation is not labels[i].lower()")
    rules = []
    for test, val in chain:
        ln = _lineno(test)
        if not (isinstance(val, ast.Constant) and isinstance(val.value, str)):
            raise ExtractError("check_operators line %d: body is not `labels[i] = '<name>'`" % ln)
        new = val.value
        b1 = nx.match(nx.E("%s == S_lab and S_op in basis_functions[2]" % cell), test)
        b2 = nx.match(nx.E("%s.lower() in %s or is_float(%s)" % (cell, num, cell)), test)
        b3 = nx.match(nx.E("%s.startswith(S_p) and %s[1:].isdigit()" % (cell, cell)), test)
        if b1 is not None:
            rules.append(("rename", b1["S_lab"], b1["S_op"], new, ln))
        elif b2 is not None:
            rules.append(("numeric", new, ln))
        elif b3 is not None and len(b3["S_p"]) == 1:
            rules.append(("prefix", b3["S_p"], new, ln))
        else:
            raise ExtractError("check_operators line %d: test `%s` not modelled" % (ln, _flat(test)[:200]))
    env2 = {k: v for k, v in o1.env.items() if k != L}
    o2 = nx.finish(nx.Exec(helpers, where).block(post, env2))
    if not isinstance(o2, nx.Ret) or nx.match_any([nx.S(p_ % L) for p_ in P_ALL], nx.to_stmts(o2)) is None:
        raise ExtractError("check_operators: the membership test in the flattened basis changed shape: `%s`" % (
            nx.src(nx.to_stmts(o2))[:240] if not isinstance(o2, nx.Br) else "conditional",))
    nx.check_kept(o2, where)
    return numerics, rules


def call_sites(stage, defaults):
    """effective (evalf, allow_eval, check_ops) of every call of generator.string_to_node in fit_single.py"""
    tree = extract._parse(stage, FIT)
    out = []
    for fn in tree.body:
        if not isinstance(fn, ast.FunctionDef):
            continue
        for n in ast.walk(fn):
            if isinstance(n, ast.Call) and ast.unparse(n.func) in ("generator.string_to_node", "string_to_node"):
                if [ast.unparse(x) for x in n.args] != ["fun", "basis_functions"]:
                    raise ExtractError("%s line %d: positional arguments of string_to_node are not (fun, basis_functions)" % (fn.name, n.lineno))
                eff = dict(defaults)
                for k in n.keywords:
                    if k.arg not in ("evalf", "allow_eval", "check_ops") or not (isinstance(k.value, ast.Constant) and isinstance(k.value.value, bool)):
                        raise ExtractError("%s line %d: keyword %s of string_to_node not a literal flag" % (fn.name, n.lineno, k.arg))
                    eff[k.arg] = k.value.value
                out.append((fn.name, eff["evalf"], eff["allow_eval"], eff["check_ops"], n.lineno))
    names = sorted(set(o[0] for o in out))
    if names != ["fit_from_string", "string_to_aifeyn"] or len(out) != 2:
        raise ExtractError("fit_single.py: string_to_node is called from %r (%d calls); the model knows one call each in fit_from_string and string_to_aifeyn" % (names, len(out)))
    return out


def committed_tables(lean_path):
    """variants and call sites of the table that is on disk (the committed one when the translator fell back): what the
    executable model was built from -> ([(kern, evaluate, guarded, 0)], [(fn, evalf, allow_eval, check_ops, 0)])"""
    import re
    text = open(lean_path).read()
    tb = {"true": True, "false": False}
    m = re.search(r"def variants : List Variant := \[(.*?)\n  \]", text, flags=re.S)
    s = re.search(r"def callSites : List CallSite := \[(.*?)\n  \]", text, flags=re.S)
    if not m or not s:
        raise ExtractError("committed ToList table has no variants / callSites")
    vs = [(tb[x.group(1)], tb[x.group(2)], tb[x.group(3)], 0) for x in re.finditer(r"⟨(true|false), (true|false), (true|false)⟩", m.group(1))]
    cs = [(x.group(1), tb[x.group(2)], tb[x.group(3)], tb[x.group(4)], 0)
          for x in re.finditer(r"⟨\"(\w+)\", (true|false), (true|false), (true|false)⟩", s.group(1))]
    if len(vs) != 4 or len(cs) != 2:
        raise ExtractError("committed ToList table: %d variants, %d call sites" % (len(vs), len(cs)))
    return vs, cs


def _lb(b):
    return "true" if b else "false"


def select_text(stage):
    variants, defaults = s2n_skeleton(stage)
    numerics, rules = check_operators_rules(stage)
    sites = call_sites(stage, defaults)
    t = ("\n/-- One parse variant of `string_to_node`: `string_to_expr(s, kern=…, evaluate=…)`; `guarded` = the block sits behind\n"
         "`if allow_eval:`. -/\nstructure Variant where\n  kern : Bool\n  evaluate : Bool\n  guarded : Bool\n  deriving Repr, DecidableEq\n\n"
         "/-- The variants in the order of their index `i` into `expr`, `nodes`, `c`, `all_in_basis`. -/\ndef variants : List Variant := [\n")
    for k, (kern, ev, g, ln) in enumerate(variants):
        t += "  ⟨%s, %s, %s⟩%s  -- i = %d, generator.py:%d\n" % (_lb(kern), _lb(ev), _lb(g), "," if k + 1 < len(variants) else "", k, ln)
    t += "  ]\n\n"
    t += ("/-- One `if/elif` of the normalisation loop of `check_operators`, in source order (otherwise `labels[i].lower()`).\n"
          "`rename lab op new`: `labels[i] == lab and op in basis_functions[2]`;  `numeric new`: `labels[i].lower() in sympy_numerics or\n"
          "is_float(labels[i])`;  `pfx p new`: `labels[i].startswith(p) and labels[i][1:].isdigit()`. -/\n"
          "inductive CkRule where\n  | rename (lab op new : String)\n  | numeric (new : String)\n  | pfx (p : Char) (new : String)\n  deriving Repr, DecidableEq\n\n"
          "def ckRules : List CkRule := [\n")
    for k, r in enumerate(rules):
        if r[0] == "rename":
            row = ".rename %s %s %s" % (lstr(r[1]), lstr(r[2]), lstr(r[3]))
        elif r[0] == "numeric":
            row = ".numeric %s" % lstr(r[1])
        else:
            if not (len(r[1]) == 1 and r[1].isascii() and r[1].isalnum()):
                raise ExtractError("check_operators: prefix %r not a plain character" % (r[1],))
            row = ".pfx '%s' %s" % (r[1], lstr(r[2]))
        t += "  %s%s  -- generator.py:%d\n" % (row, "," if k + 1 < len(rules) else "", r[-1])
    t += "  ]\n\n"
    t += ("/-- `sympy_numerics` of `check_operators` as written (the code lower-cases every entry before use). -/\n"
          "def sympyNumericsRaw : List String := %s\n\n" % llist(map(lstr, numerics)))
    t += ("/-- Effective flags of one call of `string_to_node` (keywords given at the call, else the defaults of the signature). -/\n"
          "structure CallSite where\n  fn : String\n  evalf : Bool\n  allowEval : Bool\n  checkOps : Bool\n  deriving Repr, DecidableEq\n\n"
          "/-- defaults of `string_to_node(s, basis_functions, locs=None, evalf=…, allow_eval=…, check_ops=…)` -/\n"
          "def s2nDefaults : CallSite := ⟨\"string_to_node\", %s, %s, %s⟩\n\n" % (_lb(defaults["evalf"]), _lb(defaults["allow_eval"]), _lb(defaults["check_ops"])))
    t += "/-- the calls of `generator.string_to_node` in esr/fitting/fit_single.py -/\ndef callSites : List CallSite := [\n"
    for k, (name, ef, ae, ck, ln) in enumerate(sites):
        t += "  ⟨%s, %s, %s, %s⟩%s  -- fit_single.py:%d\n" % (lstr(name), _lb(ef), _lb(ae), _lb(ck), "," if k + 1 < len(sites) else "", ln)
    t += "  ]\n"
    return t


def variants(stage):
    """[(kern, evaluate, guarded)] for the correspondence harness"""
    return [(k, e, g) for k, e, g, _ in s2n_skeleton(stage)[0]]


@extract.extractor("ToList")
def gen(stage):
    rules = init_rules(stage)
    lits = tolist_literals(stage)
    table, par, mv = rename_tables(stage)
    t = extract.header("ToList", [GEN + ":DecoratedNode.__init__", GEN + ":DecoratedNode.to_list", FIT + ":fit_from_string", FIT + ":string_to_aifeyn",
                                 GEN + ":string_to_node", GEN + ":check_operators"])
    t += ('/-- The Python constant a sympy argument is compared with (`==`) in `DecoratedNode.__init__`. -/\n'
          'inductive Const where\n'
          '  | int (k : Int)                 -- an `int` literal\n'
          '  | pyfloat (p : Int) (q : Nat)   -- a Python `float` expression with exact value p/q (e.g. `1/2`)\n'
          '  deriving Repr, DecidableEq\n\n'
          '/-- One `if/elif` special case of `DecoratedNode.__init__`.\n'
          '`div = false`:  `self.op == cls and fun.args[1] == const [and any(b in basis_functions[1] for b in basisAny)]`,\n'
          '                one child `fun.args[0]`.\n'
          '`div = true`:   `self.op == cls and len(fun.args) == 2 and fun.args[1].__class__.__name__ == argCls and\n'
          '                fun.args[1].args[1] == const`, two children `fun.args[0]`, `fun.args[1].args[0]`. -/\n'
          'structure InitRule where\n  cls : String\n  div : Bool\n  argCls : String\n  const : Const\n  basisAny : List String\n  newOp : String\n'
          '  deriving Repr, DecidableEq\n\n')
    t += "def initRules : List InitRule := [\n"
    for k, (cls, div, argcls, const, names, newop, ln) in enumerate(rules):
        t += "  ⟨%s, %s, %s, %s, %s, %s⟩%s  -- generator.py:%d\n" % (lstr(cls), "true" if div else "false", lstr(argcls), const,
                                                                     llist(map(lstr, names)), lstr(newop), "," if k + 1 < len(rules) else "", ln)
    t += "  ]\n\n"
    t += "/-- String literals of the `if/elif` chain of `DecoratedNode.to_list`, branch by branch in source order. -/\nstructure ToListLits where\n"
    for ln, fl in lits:
        for f, v in fl:
            t += "  %s : %s\n" % (f, "List String" if isinstance(v, list) else "String")
    t += "  deriving Repr, DecidableEq\n\ndef tl : ToListLits := {\n"
    rows = []
    for ln, fl in lits:
        rows.append(("  " + ", ".join("%s := %s" % (f, llist(map(lstr, v)) if isinstance(v, list) else lstr(v)) for f, v in fl), ln))
    for k, (r, ln) in enumerate(rows):
        t += "%s%s  -- generator.py:%d\n" % (r, "," if k + 1 < len(rows) else "", ln)
    t += "  }\n\n"
    t += ("/-- `if lab == k: labels[j] = v` chain of fit_from_string / string_to_aifeyn (identical in both); otherwise `lab.lower()`. -/\n"
          "def renameTable : List (String × String) := %s\n\n" % llist("(%s, %s)" % (lstr(a), lstr(b)) for a, b in table))
    t += ("/-- A numeric label whose parent label, lower-cased, equals this string is not replaced by a parameter. -/\n"
          "def noReplaceParent : String := %s\n\n" % lstr(par))
    t += "/-- default of `maxvar` (the `assert len(param_idx) <= maxvar`). -/\ndef maxvarDefault : Nat := %d\n" % mv
    t += select_text(stage)
    t += extract.footer("ToList")
    return t
