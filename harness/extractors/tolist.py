"""Generated/ToList.lean: the special-case table of DecoratedNode.__init__, the string literals of the if/elif chain
of DecoratedNode.to_list (incl. the "sqaure" spelling), the label renaming of fit_from_string / string_to_aifeyn, and the
selection skeleton of string_to_node: the parse variants in index order (kern / evaluate flags, which of them sits behind
`if allow_eval:`), the rule chain and the `sympy_numerics` list of check_operators, the defaults of string_to_node and the
effective arguments of its call sites in fit_single.py."""
import ast
from fractions import Fraction
import extract
from extract import ExtractError, lstr, llist

GEN = "esr/generation/generator.py"
FIT = "esr/fitting/fit_single.py"

extract.MODELLED += [
    (GEN, "DecoratedNode", "__init__"),
    (GEN, "DecoratedNode", "to_list"),
    (GEN, "DecoratedNode", "count_nodes"),
    (GEN, "DecoratedNode", "is_unity"),
    (GEN, None, "string_to_node"),
    (GEN, None, "string_to_expr"),
    (GEN, None, "labels_to_shape"),
    (GEN, None, "is_float"),
    (FIT, None, "fit_from_string"),
    (FIT, None, "string_to_aifeyn"),
    (GEN, None, "check_operators"),
]


def _chain(node):
    """[(test, body, lineno)] of an if/elif chain and the final else body"""
    out = []
    while True:
        out.append((node.test, node.body, node.lineno))
        if len(node.orelse) == 1 and isinstance(node.orelse[0], ast.If):
            node = node.orelse[0]
        else:
            return out, node.orelse


def _conj(test):
    return list(test.values) if isinstance(test, ast.BoolOp) and isinstance(test.op, ast.And) else [test]


def _const_value(node):
    """int literal or float expression -> Lean Const"""
    try:
        v = ast.literal_eval(node)
    except Exception:
        if isinstance(node, ast.BinOp) and isinstance(node.op, ast.Div):
            try:
                v = ast.literal_eval(node.left) / ast.literal_eval(node.right)
            except Exception:
                raise ExtractError("__init__: constant %s not understood" % ast.unparse(node))
        else:
            raise ExtractError("__init__: constant %s not understood" % ast.unparse(node))
    if isinstance(v, bool):
        raise ExtractError("__init__: boolean constant")
    if isinstance(v, int):
        return ".int (%d)" % v
    if isinstance(v, float):
        f = Fraction(v)
        return ".pyfloat (%d) %d" % (f.numerator, f.denominator)
    raise ExtractError("__init__: constant %r not a number" % (v,))


def _basis_names(node):
    """`'s' in basis_functions[1]` or a parenthesised `or` of such -> [s, ...]"""
    parts = list(node.values) if isinstance(node, ast.BoolOp) and isinstance(node.op, ast.Or) else [node]
    out = []
    for p in parts:
        if (isinstance(p, ast.Compare) and len(p.ops) == 1 and isinstance(p.ops[0], ast.In)
                and isinstance(p.left, ast.Constant) and isinstance(p.left.value, str)
                and ast.unparse(p.comparators[0]) == "basis_functions[1]"):
            out.append(p.left.value)
        else:
            return None
    return out


def _child_args(body, lineno):
    """`self.op = 'X'` and `self.children = [DecoratedNode(<arg>, basis_functions, parent_op=self.op, parent=self), …]`"""
    if len(body) != 2:
        raise ExtractError("__init__ branch at line %d: expected two statements" % lineno)
    a, c = body
    if not (isinstance(a, ast.Assign) and ast.unparse(a.targets[0]) == "self.op" and isinstance(a.value, ast.Constant)
            and isinstance(a.value.value, str)):
        raise ExtractError("__init__ branch at line %d: no `self.op = '<name>'`" % lineno)
    if not (isinstance(c, ast.Assign) and ast.unparse(c.targets[0]) == "self.children" and isinstance(c.value, ast.List)):
        raise ExtractError("__init__ branch at line %d: no `self.children = [...]`" % lineno)
    args = []
    for e in c.value.elts:
        if not (isinstance(e, ast.Call) and ast.unparse(e.func) == "DecoratedNode" and len(e.args) == 2
                and ast.unparse(e.args[1]) == "basis_functions"
                and sorted((k.arg, ast.unparse(k.value)) for k in e.keywords) == [("parent", "self"), ("parent_op", "self.op")]):
            raise ExtractError("__init__ branch at line %d: unexpected child constructor %s" % (lineno, ast.unparse(e)))
        args.append(ast.unparse(e.args[0]))
    return a.value.value, args


def init_rules(stage):
    fn = extract.find_def(extract._parse(stage, GEN), "__init__", "DecoratedNode")
    outer = [n for n in fn.body if isinstance(n, ast.If)]
    if len(outer) != 1 or ast.unparse(outer[0].test) != "fun is not None":
        raise ExtractError("DecoratedNode.__init__: `if fun is not None` not found")
    body = outer[0].body
    pre = "\n".join(ast.unparse(n) for n in body[:-2])
    for must in ("self.op = fun.__class__.__name__", "self.degree = len(fun.args)", "self.type = type(fun)", "self.constant = fun.is_number"):
        if must not in pre:
            raise ExtractError("DecoratedNode.__init__: `%s` not found" % must)
    if ast.unparse(body[-2]).replace("\n", " ") != ("if self.constant:     self.val = str(fun) elif fun.is_symbol:     self.val = fun.name "
                                                     "else:     self.val = None"):
        raise ExtractError("DecoratedNode.__init__: the `self.val` assignment changed shape")
    if not isinstance(body[-1], ast.If):
        raise ExtractError("DecoratedNode.__init__: special-case chain not found")
    chain, orelse = _chain(body[-1])
    # `else: if len(fun.args) > 2:` is the general branch, not a special case
    while chain and not ast.unparse(chain[-1][0]).startswith("self.op =="):
        t_, b_, l_ = chain.pop()
        node = ast.If(test=t_, body=b_, orelse=orelse)
        orelse = [node]
    rules = []
    for test, bd, ln in chain:
        cj = _conj(test)
        if not (isinstance(cj[0], ast.Compare) and ast.unparse(cj[0].left) == "self.op" and isinstance(cj[0].ops[0], ast.Eq)
                and isinstance(cj[0].comparators[0], ast.Constant)):
            raise ExtractError("__init__ branch at line %d: first conjunct is not `self.op == '<cls>'`" % ln)
        cls = cj[0].comparators[0].value
        newop, args = _child_args(bd, ln)
        rest = cj[1:]
        if args == ["fun.args[0]"]:
            if not (len(rest) in (1, 2) and isinstance(rest[0], ast.Compare) and ast.unparse(rest[0].left) == "fun.args[1]"
                    and isinstance(rest[0].ops[0], ast.Eq)):
                raise ExtractError("__init__ branch at line %d: expected `fun.args[1] == <const>`" % ln)
            const = _const_value(rest[0].comparators[0])
            names = []
            if len(rest) == 2:
                names = _basis_names(rest[1])
                if names is None:
                    raise ExtractError("__init__ branch at line %d: basis condition not understood" % ln)
            rules.append((cls, False, "", const, names, newop, ln))
        elif args == ["fun.args[0]", "fun.args[1].args[0]"]:
            if not (len(rest) == 3 and ast.unparse(rest[0]) == "len(fun.args) == 2"
                    and isinstance(rest[1], ast.Compare) and ast.unparse(rest[1].left) == "fun.args[1].__class__.__name__"
                    and isinstance(rest[1].ops[0], ast.Eq) and isinstance(rest[1].comparators[0], ast.Constant)
                    and isinstance(rest[2], ast.Compare) and ast.unparse(rest[2].left) == "fun.args[1].args[1]"
                    and isinstance(rest[2].ops[0], ast.Eq)):
                raise ExtractError("__init__ branch at line %d: quotient pattern not understood" % ln)
            rules.append((cls, True, rest[1].comparators[0].value, _const_value(rest[2].comparators[0]), [], newop, ln))
        else:
            raise ExtractError("__init__ branch at line %d: children %r not modelled" % (ln, args))
    want_else = ("if len(fun.args) > 2:     f = fun.as_two_terms()     self.children = [DecoratedNode(f[0], basis_functions, parent_op=self.op, parent=self), "
                 "DecoratedNode(f[1], basis_functions, parent_op=self.op, parent=self)] else:     self.children = [DecoratedNode(a, basis_functions, "
                 "parent_op=self.op, parent=self) for a in fun.args]")
    got_else = " ".join(ast.unparse(n) for n in orelse).replace("\n", " ")
    if got_else != want_else:
        raise ExtractError("DecoratedNode.__init__: the general branch (as_two_terms / one child per argument) changed shape")
    return rules


# field names of ESR.Gen.ToList.ToListLits, branch by branch: the string literals of test + body, in source order
TOLIST_FIELDS = [
    None,                                               # degree == 0
    None,                                               # degree == 1
    ["sqrtOp", "sqrtTyp", "sqrtBasisA", "sqrtBasisB", "sqrtTestA", "sqrtLabelA", "sqrtLabelB"],
    ["squareOp", "squareExp", "squareBasis", "squareLabel"],
    ["unsquareOp", "unsquareBasis", "unsquareLabel", "unsquareExp"],
    ["cubeOp", "cubeExp", "cubeBasis", "cubeLabel"],
    ["uncubeOp", "uncubeBasis", "uncubeLabel", "uncubeExp"],
    ["invOp", "invTyp", "invBasis", "invLabel"],
    ["mulInvOp", "mulInvKidOp", "mulInvTyp", "mulInvBasis", "mulInvLabel"],
    ["divInvOp", "divInvKidOp", "divInvTyp", "divInvBasis", "divInvLabel"],
    ["unitOp"],
    ["absOp", "absParents"],
    ["passOp"],
    ["subOp", "subKidOp", "subNegA", "subNegB", "subNegC", "subLabelA", "subLabelB"],
]


class _Lits(ast.NodeVisitor):
    """string literals, `str(<int>)`, `sympy.core.numbers.<Cls>` and lists of strings, in source order"""
    def __init__(self):
        self.out = []

    def visit_Constant(self, n):
        if isinstance(n.value, str):
            self.out.append(n.value)

    def visit_List(self, n):
        if n.elts and all(isinstance(e, ast.Constant) and isinstance(e.value, str) for e in n.elts) and not isinstance(getattr(n, "ctx", None), ast.Store):
            if getattr(n, "_in_test", False):
                self.out.append([e.value for e in n.elts])
                return
        self.generic_visit(n)

    def visit_Call(self, n):
        if isinstance(n.func, ast.Name) and n.func.id == "str" and len(n.args) == 1 and isinstance(n.args[0], ast.Constant) and isinstance(n.args[0].value, int):
            self.out.append(str(n.args[0].value))
            return
        self.generic_visit(n)

    def visit_Attribute(self, n):
        if ast.unparse(n).startswith("sympy.core.numbers."):
            self.out.append(n.attr)
            return
        self.generic_visit(n)


def _literals(test, body):
    v = _Lits()
    for n in ast.walk(test):
        if isinstance(n, ast.List):
            n._in_test = True
    v.visit(test)
    for b in body:
        v.visit(b)
    return v.out


def tolist_literals(stage):
    fn = extract.find_def(extract._parse(stage, GEN), "to_list", "DecoratedNode")
    ifs = [n for n in fn.body if isinstance(n, ast.If)]
    if len(ifs) != 1:
        raise ExtractError("DecoratedNode.to_list: expected exactly one if/elif chain")
    chain, orelse = _chain(ifs[0])
    if len(chain) != len(TOLIST_FIELDS):
        raise ExtractError("DecoratedNode.to_list: %d branches, the model knows %d" % (len(chain), len(TOLIST_FIELDS)))
    if ast.unparse(chain[0][0]) != "self.degree == 0" or ast.unparse(chain[1][0]) != "self.degree == 1":
        raise ExtractError("DecoratedNode.to_list: the first two branches are not `self.degree == 0/1`")
    vals = []
    for (test, body, ln), fields in zip(chain, TOLIST_FIELDS):
        if fields is None:
            continue
        lits = _literals(test, body)
        if fields == ["passOp"]:
            # `self.op == "Div" and (self.children[0] == 1 or self.children[1] == 1)`: pass
            if not (len(body) == 1 and isinstance(body[0], ast.Pass)
                    and ast.unparse(test).endswith("(self.children[0] == 1 or self.children[1] == 1)")):
                raise ExtractError("to_list branch at line %d: the `pass` branch changed shape" % ln)
        if len(lits) != len(fields):
            raise ExtractError("to_list branch at line %d: %d literals %r, the model expects %d (%s)" % (ln, len(lits), lits, len(fields), ",".join(fields)))
        for f, v in zip(fields, lits):
            if f == "absParents":
                if not isinstance(v, list):
                    raise ExtractError("to_list branch at line %d: parent list expected" % ln)
            elif not isinstance(v, str):
                raise ExtractError("to_list branch at line %d: string literal expected for %s" % (ln, f))
        vals.append((ln, list(zip(fields, lits))))
    return vals


def _rename_table(fn):
    """the `for j, lab in enumerate(labels)` renaming loop, the `parents[j].lower() == '<p>'` literal, maxvar default"""
    loop = None
    for n in ast.walk(fn):
        if isinstance(n, ast.For) and ast.unparse(n.iter) == "enumerate(labels)" and len(n.body) == 1 and isinstance(n.body[0], ast.If):
            loop = n; break
    if loop is None:
        raise ExtractError("%s: renaming loop not found" % fn.name)
    chain, orelse = _chain(loop.body[0])
    table = []
    for test, body, ln in chain:
        if not (isinstance(test, ast.Compare) and ast.unparse(test.left) == "lab" and isinstance(test.ops[0], ast.Eq)
                and isinstance(test.comparators[0], ast.Constant) and len(body) == 2):
            raise ExtractError("%s line %d: renaming test not `lab == '<name>'`" % (fn.name, ln))
        tg = sorted(ast.unparse(b.targets[0]) for b in body if isinstance(b, ast.Assign))
        vs = set(b.value.value for b in body if isinstance(b, ast.Assign) and isinstance(b.value, ast.Constant))
        if tg != ["labels[j]", "new_labels[j]"] or len(vs) != 1:
            raise ExtractError("%s line %d: renaming body changed shape" % (fn.name, ln))
        table.append((test.comparators[0].value, vs.pop()))
    oe = sorted(ast.unparse(b) for b in orelse)
    if oe != ["labels[j] = lab.lower()", "new_labels[j] = lab.lower()"]:
        raise ExtractError("%s: the default renaming is not lab.lower()" % fn.name)
    src = ast.unparse(fn)
    # the root has no parent (`parents[0] is None`): a root number IS replaced
    want = ("[j for j, lab in enumerate(labels) if generator.is_float(lab) and (not (parents[j] is not None and parents[j].lower() == '%s')) or "
            "(lab.startswith('a') and generator.is_float(lab[1:]))]")
    par = None
    for n in ast.walk(fn):
        if isinstance(n, ast.Compare) and ast.unparse(n.left) == "parents[j].lower()" and isinstance(n.comparators[0], ast.Constant):
            par = n.comparators[0].value
    if par is None or (want % par) not in src:
        raise ExtractError("%s: float-replacement comprehension changed shape" % fn.name)
    if ("[j for j, lab in enumerate(new_labels) if generator.is_float(lab) or (lab.startswith('a') and generator.is_float(lab[1:]))]") not in src:
        raise ExtractError("%s: parameter-index comprehension changed shape" % fn.name)
    mv = None
    a = fn.args
    names = [x.arg for x in a.args]
    if "maxvar" in names:
        d = a.defaults[names.index("maxvar") - (len(names) - len(a.defaults))]
        mv = ast.literal_eval(d)
    if not isinstance(mv, int):
        raise ExtractError("%s: maxvar default not found" % fn.name)
    return table, par, mv


def rename_tables(stage):
    tree = extract._parse(stage, FIT)
    a = _rename_table(extract.find_def(tree, "fit_from_string"))
    b = _rename_table(extract.find_def(tree, "string_to_aifeyn"))
    if a != b:
        raise ExtractError("fit_from_string and string_to_aifeyn relabel differently: %r vs %r" % (a, b))
    return a


# --------------------------------------------------------------------------------------------------------------
# string_to_node: the four parse variants, the check_ops masking, np.nanargmin; check_operators; call sites
# --------------------------------------------------------------------------------------------------------------

S2N_PARAMS = ["s", "basis_functions", "locs", "evalf", "allow_eval", "check_ops"]
TRY_BODY = ("expr[i] = string_to_expr(s, kern=%s, evaluate=%s, locs=locs) | if evalf:     expr[i] = expr[i].evalf() | "
            "nodes[i] = DecoratedNode(expr[i], basis_functions) | c[i] = nodes[i].count_nodes(basis_functions) | "
            "if check_ops:     all_in_basis[i] = check_operators(nodes[i], basis_functions)")
S2N_TAIL = ["if check_ops and any(all_in_basis):     for i in range(len(all_in_basis)):         if not all_in_basis[i]:             c[i] = np.nan",
            "i = np.nanargmin(c)",
            "return (expr[i], nodes[i], int(c[i]))"]


def _flat(n):
    return ast.unparse(n).replace("\n", " ")


def _bool_kw(call, name, where):
    for k in call.keywords:
        if k.arg == name:
            if isinstance(k.value, ast.Constant) and isinstance(k.value.value, bool):
                return k.value.value
            raise ExtractError("%s: keyword %s is not a literal True/False" % (where, name))
    raise ExtractError("%s: keyword %s missing" % (where, name))


def _variant_of_try(tr, where):
    if not isinstance(tr, ast.Try) or tr.orelse or tr.finalbody or len(tr.handlers) != 1:
        raise ExtractError("%s: expected a plain try/except" % where)
    h = tr.handlers[0]
    if not (h.type is not None and ast.unparse(h.type) == "Exception" and h.name is None and [_flat(b) for b in h.body] == ["c[i] = np.nan"]):
        raise ExtractError("%s: handler is not `except Exception: c[i] = np.nan`" % where)
    if not tr.body or not (isinstance(tr.body[0], ast.Assign) and isinstance(tr.body[0].value, ast.Call)
                           and ast.unparse(tr.body[0].value.func) == "string_to_expr"):
        raise ExtractError("%s: the try block does not start with `expr[i] = string_to_expr(...)`" % where)
    call = tr.body[0].value
    kern, ev = _bool_kw(call, "kern", where), _bool_kw(call, "evaluate", where)
    got = " | ".join(_flat(b) for b in tr.body)
    if got != TRY_BODY % (kern, ev):
        raise ExtractError("%s: try block changed shape: %s" % (where, got[:300]))
    return kern, ev


def s2n_skeleton(stage):
    """-> (variants [(kern, evaluate, guarded)], defaults {evalf, allow_eval, check_ops})"""
    fn = extract.find_def(extract._parse(stage, GEN), "string_to_node")
    a = fn.args
    names = [x.arg for x in a.args]
    if names != S2N_PARAMS or a.vararg or a.kwarg or a.kwonlyargs:
        raise ExtractError("string_to_node: parameters %r, the model knows %r" % (names, S2N_PARAMS))
    defaults = dict(zip(names[len(names) - len(a.defaults):], [ast.literal_eval(d) for d in a.defaults]))
    for k in ("evalf", "allow_eval", "check_ops"):
        if not isinstance(defaults.get(k), bool):
            raise ExtractError("string_to_node: default of %s is not a bool" % k)
    body = list(fn.body)
    if body and isinstance(body[0], ast.Expr) and isinstance(body[0].value, ast.Constant) and isinstance(body[0].value.value, str):
        body = body[1:]
    init = sorted(_flat(b) for b in body[:4])
    if init != sorted(["expr = [None] * 4", "nodes = [None] * 4", "if check_ops:     all_in_basis = [False] * 4", "c = np.full(4, np.nan)"]):
        raise ExtractError("string_to_node: initialisation of expr/nodes/all_in_basis/c changed shape: %r" % (init,))
    tail = [_flat(b) for b in body[-3:]]
    if tail != S2N_TAIL:
        raise ExtractError("string_to_node: masking / np.nanargmin / return changed shape: %r" % (tail,))
    mid = body[4:-3]
    variants = []

    def take(stmts, guarded):
        k = 0
        while k < len(stmts):
            st = stmts[k]
            if isinstance(st, ast.If) and _flat(st.test) == "allow_eval" and not st.orelse and not guarded:
                take(st.body, True)
                k += 1
                continue
            if not (isinstance(st, ast.Assign) and _flat(st.targets[0]) == "i" and isinstance(st.value, ast.Constant)
                    and isinstance(st.value.value, int) and k + 1 < len(stmts)):
                raise ExtractError("string_to_node line %d: expected `i = <index>` followed by a try block" % st.lineno)
            idx = st.value.value
            if idx != len(variants):
                raise ExtractError("string_to_node line %d: variant index %d out of sequence (expected %d)" % (st.lineno, idx, len(variants)))
            kern, ev = _variant_of_try(stmts[k + 1], "string_to_node variant %d (line %d)" % (idx, st.lineno))
            variants.append((kern, ev, guarded, st.lineno))
            k += 2
    take(mid, False)
    if len(variants) != 4:
        raise ExtractError("string_to_node: %d parse variants, the arrays have 4 entries" % len(variants))
    return variants, defaults


def check_operators_rules(stage):
    """-> (sympy_numerics list as written, [rule], lineno) ; rule = ('rename', label, basis op, new) | ('numeric', new) | ('prefix', p, new)"""
    fn = extract.find_def(extract._parse(stage, GEN), "check_operators")
    body = list(fn.body)
    if body and isinstance(body[0], ast.Expr) and isinstance(body[0].value, ast.Constant) and isinstance(body[0].value.value, str):
        body = body[1:]
    if len(body) != 7:
        raise ExtractError("check_operators: %d statements, the model knows 7" % len(body))
    a0 = body[0]
    if not (isinstance(a0, ast.Assign) and _flat(a0.targets[0]) == "sympy_numerics" and isinstance(a0.value, ast.List)
            and all(isinstance(e, ast.Constant) and isinstance(e.value, str) for e in a0.value.elts)):
        raise ExtractError("check_operators: `sympy_numerics = [<strings>]` not found")
    numerics = [e.value for e in a0.value.elts]
    fixed = {1: "sympy_numerics = [s.lower() for s in sympy_numerics]", 2: "labels = nodes.to_list(basis_functions)",
             4: "flat_basis = [item for sublist in basis_functions for item in sublist]",
             5: "all_in_basis = all([ll in flat_basis for ll in labels])", 6: "return all_in_basis"}
    for k, want in fixed.items():
        if _flat(body[k]) != want:
            raise ExtractError("check_operators: statement %d is not `%s`" % (k + 1, want))
    loop = body[3]
    if not (isinstance(loop, ast.For) and _flat(loop.target) == "i" and _flat(loop.iter) == "range(len(labels))" and not loop.orelse
            and len(loop.body) == 1 and isinstance(loop.body[0], ast.If)):
        raise ExtractError("check_operators: the normalisation loop changed shape")
    chain, orelse = _chain(loop.body[0])
    if [_flat(b) for b in orelse] != ["labels[i] = labels[i].lower()"]:
        raise ExtractError("check_operators: the default normalisation is not labels[i].lower()")
    rules = []
    for test, bd, ln in chain:
        if not (len(bd) == 1 and isinstance(bd[0], ast.Assign) and _flat(bd[0].targets[0]) == "labels[i]"
                and isinstance(bd[0].value, ast.Constant) and isinstance(bd[0].value.value, str)):
            raise ExtractError("check_operators line %d: body is not `labels[i] = '<name>'`" % ln)
        new = bd[0].value.value
        t = _flat(test)
        cj = _conj(test)
        if (len(cj) == 2 and isinstance(cj[0], ast.Compare) and _flat(cj[0].left) == "labels[i]" and isinstance(cj[0].ops[0], ast.Eq)
                and isinstance(cj[0].comparators[0], ast.Constant) and isinstance(cj[0].comparators[0].value, str)
                and isinstance(cj[1], ast.Compare) and isinstance(cj[1].ops[0], ast.In) and isinstance(cj[1].left, ast.Constant)
                and isinstance(cj[1].left.value, str) and _flat(cj[1].comparators[0]) == "basis_functions[2]"):
            rules.append(("rename", cj[0].comparators[0].value, cj[1].left.value, new, ln))
        elif t == "labels[i].lower() in sympy_numerics or is_float(labels[i])":
            rules.append(("numeric", new, ln))
        elif (len(cj) == 2 and isinstance(cj[0], ast.Call) and _flat(cj[0].func) == "labels[i].startswith" and len(cj[0].args) == 1
              and isinstance(cj[0].args[0], ast.Constant) and isinstance(cj[0].args[0].value, str) and len(cj[0].args[0].value) == 1
              and _flat(cj[1]) == "labels[i][1:].isdigit()"):
            rules.append(("prefix", cj[0].args[0].value, new, ln))
        else:
            raise ExtractError("check_operators line %d: test `%s` not modelled" % (ln, t[:200]))
    return numerics, rules


def call_sites(stage, defaults):
    """effective (evalf, allow_eval, check_ops) of every call of generator.string_to_node in fit_single.py"""
    tree = extract._parse(stage, FIT)
    out = []
    for fn in tree.body:
        if not isinstance(fn, ast.FunctionDef):
            continue
        for n in ast.walk(fn):
            if isinstance(n, ast.Call) and ast.unparse(n.func) in ("generator.string_to_node", "string_to_node"):
                if [ast.unparse(x) for x in n.args] != ["fun", "basis_functions"]:
                    raise ExtractError("%s line %d: positional arguments of string_to_node are not (fun, basis_functions)" % (fn.name, n.lineno))
                eff = dict(defaults)
                for k in n.keywords:
                    if k.arg not in ("evalf", "allow_eval", "check_ops") or not (isinstance(k.value, ast.Constant) and isinstance(k.value.value, bool)):
                        raise ExtractError("%s line %d: keyword %s of string_to_node not a literal flag" % (fn.name, n.lineno, k.arg))
                    eff[k.arg] = k.value.value
                out.append((fn.name, eff["evalf"], eff["allow_eval"], eff["check_ops"], n.lineno))
    names = sorted(set(o[0] for o in out))
    if names != ["fit_from_string", "string_to_aifeyn"] or len(out) != 2:
        raise ExtractError("fit_single.py: string_to_node is called from %r (%d calls); the model knows one call each in fit_from_string and string_to_aifeyn" % (names, len(out)))
    return out


def _lb(b):
    return "true" if b else "false"


def select_text(stage):
    variants, defaults = s2n_skeleton(stage)
    numerics, rules = check_operators_rules(stage)
    sites = call_sites(stage, defaults)
    t = ("\n/-- One parse variant of `string_to_node`: `string_to_expr(s, kern=…, evaluate=…)`; `guarded` = the block sits behind\n"
         "`if allow_eval:`. -/\nstructure Variant where\n  kern : Bool\n  evaluate : Bool\n  guarded : Bool\n  deriving Repr, DecidableEq\n\n"
         "/-- The variants in the order of their index `i` into `expr`, `nodes`, `c`, `all_in_basis`. -/\ndef variants : List Variant := [\n")
    for k, (kern, ev, g, ln) in enumerate(variants):
        t += "  ⟨%s, %s, %s⟩%s  -- i = %d, generator.py:%d\n" % (_lb(kern), _lb(ev), _lb(g), "," if k + 1 < len(variants) else "", k, ln)
    t += "  ]\n\n"
    t += ("/-- One `if/elif` of the normalisation loop of `check_operators`, in source order (otherwise `labels[i].lower()`).\n"
          "`rename lab op new`: `labels[i] == lab and op in basis_functions[2]`;  `numeric new`: `labels[i].lower() in sympy_numerics or\n"
          "is_float(labels[i])`;  `pfx p new`: `labels[i].startswith(p) and labels[i][1:].isdigit()`. -/\n"
          "inductive CkRule where\n  | rename (lab op new : String)\n  | numeric (new : String)\n  | pfx (p : Char) (new : String)\n  deriving Repr, DecidableEq\n\n"
          "def ckRules : List CkRule := [\n")
    for k, r in enumerate(rules):
        if r[0] == "rename":
            row = ".rename %s %s %s" % (lstr(r[1]), lstr(r[2]), lstr(r[3]))
        elif r[0] == "numeric":
            row = ".numeric %s" % lstr(r[1])
        else:
            if not (len(r[1]) == 1 and r[1].isascii() and r[1].isalnum()):
                raise ExtractError("check_operators: prefix %r not a plain character" % (r[1],))
            row = ".pfx '%s' %s" % (r[1], lstr(r[2]))
        t += "  %s%s  -- generator.py:%d\n" % (row, "," if k + 1 < len(rules) else "", r[-1])
    t += "  ]\n\n"
    t += ("/-- `sympy_numerics` of `check_operators` as written (the code lower-cases every entry before use). -/\n"
          "def sympyNumericsRaw : List String := %s\n\n" % llist(map(lstr, numerics)))
    t += ("/-- Effective flags of one call of `string_to_node` (keywords given at the call, else the defaults of the signature). -/\n"
          "structure CallSite where\n  fn : String\n  evalf : Bool\n  allowEval : Bool\n  checkOps : Bool\n  deriving Repr, DecidableEq\n\n"
          "/-- defaults of `string_to_node(s, basis_functions, locs=None, evalf=…, allow_eval=…, check_ops=…)` -/\n"
          "def s2nDefaults : CallSite := ⟨\"string_to_node\", %s, %s, %s⟩\n\n" % (_lb(defaults["evalf"]), _lb(defaults["allow_eval"]), _lb(defaults["check_ops"])))
    t += "/-- the calls of `generator.string_to_node` in esr/fitting/fit_single.py -/\ndef callSites : List CallSite := [\n"
    for k, (name, ef, ae, ck, ln) in enumerate(sites):
        t += "  ⟨%s, %s, %s, %s⟩%s  -- fit_single.py:%d\n" % (lstr(name), _lb(ef), _lb(ae), _lb(ck), "," if k + 1 < len(sites) else "", ln)
    t += "  ]\n"
    return t


def variants(stage):
    """[(kern, evaluate, guarded)] for the correspondence harness"""
    return [(k, e, g) for k, e, g, _ in s2n_skeleton(stage)[0]]


@extract.extractor("ToList")
def gen(stage):
    rules = init_rules(stage)
    lits = tolist_literals(stage)
    table, par, mv = rename_tables(stage)
    t = extract.header("ToList", [GEN + ":DecoratedNode.__init__", GEN + ":DecoratedNode.to_list", FIT + ":fit_from_string", FIT + ":string_to_aifeyn",
                                 GEN + ":string_to_node", GEN + ":check_operators"])
    t += ('/-- The Python constant a sympy argument is compared with (`==`) in `DecoratedNode.__init__`. -/\n'
          'inductive Const where\n'
          '  | int (k : Int)                 -- an `int` literal\n'
          '  | pyfloat (p : Int) (q : Nat)   -- a Python `float` expression with exact value p/q (e.g. `1/2`)\n'
          '  deriving Repr, DecidableEq\n\n'
          '/-- One `if/elif` special case of `DecoratedNode.__init__`.\n'
          '`div = false`:  `self.op == cls and fun.args[1] == const [and any(b in basis_functions[1] for b in basisAny)]`,\n'
          '                one child `fun.args[0]`.\n'
          '`div = true`:   `self.op == cls and len(fun.args) == 2 and fun.args[1].__class__.__name__ == argCls and\n'
          '                fun.args[1].args[1] == const`, two children `fun.args[0]`, `fun.args[1].args[0]`. -/\n'
          'structure InitRule where\n  cls : String\n  div : Bool\n  argCls : String\n  const : Const\n  basisAny : List String\n  newOp : String\n'
          '  deriving Repr, DecidableEq\n\n')
    t += "def initRules : List InitRule := [\n"
    for k, (cls, div, argcls, const, names, newop, ln) in enumerate(rules):
        t += "  ⟨%s, %s, %s, %s, %s, %s⟩%s  -- generator.py:%d\n" % (lstr(cls), "true" if div else "false", lstr(argcls), const,
                                                                     llist(map(lstr, names)), lstr(newop), "," if k + 1 < len(rules) else "", ln)
    t += "  ]\n\n"
    t += "/-- String literals of the `if/elif` chain of `DecoratedNode.to_list`, branch by branch in source order. -/\nstructure ToListLits where\n"
    for ln, fl in lits:
        for f, v in fl:
            t += "  %s : %s\n" % (f, "List String" if isinstance(v, list) else "String")
    t += "  deriving Repr, DecidableEq\n\ndef tl : ToListLits := {\n"
    rows = []
    for ln, fl in lits:
        rows.append(("  " + ", ".join("%s := %s" % (f, llist(map(lstr, v)) if isinstance(v, list) else lstr(v)) for f, v in fl), ln))
    for k, (r, ln) in enumerate(rows):
        t += "%s%s  -- generator.py:%d\n" % (r, "," if k + 1 < len(rows) else "", ln)
    t += "  }\n\n"
    t += ("/-- `if lab == k: labels[j] = v` chain of fit_from_string / string_to_aifeyn (identical in both); otherwise `lab.lower()`. -/\n"
          "def renameTable : List (String × String) := %s\n\n" % llist("(%s, %s)" % (lstr(a), lstr(b)) for a, b in table))
    t += ("/-- A numeric label whose parent label, lower-cased, equals this string is not replaced by a parameter. -/\n"
          "def noReplaceParent : String := %s\n\n" % lstr(par))
    t += "/-- default of `maxvar` (the `assert len(param_idx) <= maxvar`). -/\ndef maxvarDefault : Nat := %d\n" % mv
    t += select_text(stage)
    t += extract.footer("ToList")
    return t
