"""Generated/Aifeyn.lean:

* the body of `aifeyn_complexity` (generator.py) as values of the little expression language of
  lean/ESRVerif/Model/AifeynSyntax.lean: operator filter, integer filter, `n[n==a]=b` fix-ups and the
  return expression with the scalar intermediates (`has_param`, `nop`, ...) inlined;
* the effect summary of the writer loop of `generate_equations`: files cleared, which `with open(.., 'a')`
  block prints what from which list, how `param_list` is obtained, and the two `cat` commands.

Fail closed: any statement / expression outside the recognised shapes raises ExtractError.

Before the strict recognisers run, the anchored functions are brought to a canonical shape by the semantics-preserving
normalisations of `extractors/_norm_c08.py` (side conditions there), so that a behaviour-preserving refactor regenerates
the SAME table.  In this module, on top of those:

* names of locals are never significant (operator list, integer array, scalars, loop variables, file handle, `max_param`,
  `param_list`); scalars are tracked SSA-style through straight-line code (hoisted temporaries, re-assignment, `x += e`);
* helper inlining (N1; N1b: a one-expression predicate nested in `aifeyn_complexity` as `def` or `lambda`, e.g.
  `def is_integer(lab): return lab.lstrip("-").isdigit()`, is beta-reduced at its call sites), loop+append -> comprehension with guard inversion (N2), De Morgan / double negation / `!=` vs
  `not ==` / `if A if B` in label conditions (N3; emitted in negation normal form, conjuncts in evaluation order);
* `int(a != b)`, `1 if a != b else 0`, a Boolean `b = (a != b)` used arithmetically, `if b: x += k`, `x = 0; if b: x = k`,
  `if b: x = 1 else: x = 0` all denote the indicator `.neInd` (times `k`);
* `arr.sum()` for `np.sum(arr)` ONLY when `arr` is syntactically an ndarray expression of this translator (`np.log` /
  `np.abs` of the integer array built by `np.array`), array temporaries (`m = np.abs(n)`) inlined;
* operands of `+` / `*` / `!=` on scalars are put in a canonical order (Python int and IEEE-754 double `+`, `*` commute
  exactly; the operands are pure and total expressions here, so evaluation order is not observable);
* writer loop: loops over literal tables unrolled (N4), `range(len(L))` / `enumerate(L)` index loops read as direct
  iteration (N8), a hoisted temporary for the printed value (N5), file names / `cat` commands / `'a%i'%j` compared as
  string templates (N6) under the DECLARED types `dirname: str`, `compl: int`, `j: int` (from `range`); merged or split
  `if rank == 0:` blocks; `for i, s in enumerate(shapes)`.
* `call_sites`: the argument expressions of every `aifeyn_complexity` call in `single_function` / `tree_to_aifeyn`,
  resolved by forward symbolic evaluation (N7) and classified as one of two parameter rules; a private straight-line
  helper that builds the function string from the labels is replaced by its value expression first (N1c), and the name
  template `'a%i' % j` may be spelt as f-string, concatenation with `str(j)` or `'a{}'.format(j)` (N6).
"""
import ast, re, copy
import extract
from extract import ExtractError, lstr, llist
from extractors import _norm_c08 as N

GEN = "esr/generation/generator.py"
extract.MODELLED += [
    (GEN, None, "aifeyn_complexity"),
    (GEN, None, "generate_equations"),
    (GEN, None, "labels_to_shape"),
    (GEN, None, "is_float"),
    (GEN, None, "node_to_string"),
    ("esr/generation/simplifier.py", None, "get_max_param"),
    ("esr/generation/simplifier.py", None, "count_params"),
    ("esr/fitting/fit_single.py", None, "tree_to_aifeyn"),
]


def _body(fn):
    b = fn.body
    if b and isinstance(b[0], ast.Expr) and isinstance(b[0].value, ast.Constant) and isinstance(b[0].value.value, str):
        b = b[1:]
    return b


def _is_call(node, name):
    """`name(...)` or `np.name(...)` with positional args only."""
    if not (isinstance(node, ast.Call) and not node.keywords):
        return False
    f = node.func
    if isinstance(f, ast.Name):
        return f.id == name
    if isinstance(f, ast.Attribute) and isinstance(f.value, ast.Name) and f.value.id in ("np", "numpy"):
        return "np." + f.attr == name
    return False


_NRANK = {".lit": 0, ".len": 1, ".lenSet": 2, ".neInd": 3, ".mul": 4, ".add": 5}
_RRANK = {".nat": 0, ".log": 1, ".mul": 2, ".add": 3, ".sum": 4}


def _canon(rank, a, b):
    """operands of a commutative operator in canonical order (constructor rank, then text; stable)"""
    key = lambda t: (rank.get(t[1:].split(" ", 1)[0].rstrip(")"), 9), t)
    return (a, b) if key(a) <= key(b) else (b, a)


class _Aifeyn(object):
    def __init__(self, fn, module=None):
        if module is not None:
            fn = N.loops_to_comps(N.inline_helpers(fn, module))
        args = [a.arg for a in fn.args.args]
        if len(args) != 2 or fn.args.vararg or fn.args.kwarg or fn.args.kwonlyargs or fn.args.defaults:
            raise ExtractError("aifeyn_complexity: signature %r not (tree, param_list)" % (args,))
        self.tree, self.params = args
        self.ops_var = None
        self.int_var = None
        self.int_list = None         # (name, filter) of a pending `[int(tt) for tt in tree if ..]`
        self.op_filter = None
        self.int_filter = None
        self.fixups = []
        self.scalars = {}            # name -> ("n"|"r", lean text)
        self.ret = None
        body = _body(fn)
        if not body or not isinstance(body[-1], ast.Return) or body[-1].value is None:
            raise ExtractError("aifeyn_complexity: last statement is not `return <expr>`")
        for st in body[:-1]:
            self.stmt(st)
        if self.ops_var is None or self.int_var is None:
            raise ExtractError("aifeyn_complexity: operator list or integer array comprehension not found")
        self.ret = self.rexp(body[-1].value)
        self.span = "%s:%d-%d" % (GEN, fn.lineno, fn.end_lineno)

    # -- comprehension conditions ---------------------------------------------------
    def comp(self, lc, want_int):
        if not (isinstance(lc, ast.ListComp) and len(lc.generators) == 1):
            raise ExtractError("line %d: not a single-generator list comprehension" % lc.lineno)
        g = lc.generators[0]
        if g.is_async or not isinstance(g.target, ast.Name) or not (isinstance(g.iter, ast.Name) and g.iter.id == self.tree):
            raise ExtractError("line %d: comprehension does not iterate `for tt in %s`" % (lc.lineno, self.tree))
        tt = g.target.id
        if want_int:
            if not (_is_call(lc.elt, "int") and len(lc.elt.args) == 1 and isinstance(lc.elt.args[0], ast.Name) and lc.elt.args[0].id == tt):
                raise ExtractError("line %d: integer comprehension element is not int(%s)" % (lc.lineno, tt))
        else:
            if not (isinstance(lc.elt, ast.Name) and lc.elt.id == tt):
                raise ExtractError("line %d: operator comprehension element is not the loop variable" % lc.lineno)
        if not g.ifs:
            raise ExtractError("line %d: comprehension without condition" % lc.lineno)
        preds = [self.pred(c, tt) for c in N.conjuncts(g.ifs)]
        out = preds[0]
        for p in preds[1:]:
            out = "(.and %s %s)" % (out, p)
        return out

    def pred(self, c, tt):
        """`c` is in negation normal form (N.nnf): `not` only directly above an atom"""
        if isinstance(c, ast.BoolOp):
            k = ".and" if isinstance(c.op, ast.And) else ".or"
            vals = [self.pred(v, tt) for v in c.values]
            out = vals[0]
            for v in vals[1:]:
                out = "(%s %s %s)" % (k, out, v)
            return out
        if isinstance(c, ast.UnaryOp) and isinstance(c.op, ast.Not):
            return "(.not %s)" % self.pred(c.operand, tt)
        if isinstance(c, ast.Compare) and len(c.ops) == 1 and isinstance(c.left, ast.Name) and c.left.id == tt \
                and isinstance(c.comparators[0], ast.Name) and c.comparators[0].id == self.params:
            if isinstance(c.ops[0], ast.NotIn):
                return "(.not .inParams)"
            if isinstance(c.ops[0], ast.In):
                return ".inParams"
        # tt.lstrip("-").isdigit()
        if isinstance(c, ast.Call) and not c.args and not c.keywords and isinstance(c.func, ast.Attribute) and c.func.attr == "isdigit":
            inner = c.func.value
            if isinstance(inner, ast.Call) and not inner.keywords and len(inner.args) == 1 and isinstance(inner.func, ast.Attribute) \
                    and inner.func.attr == "lstrip" and isinstance(inner.func.value, ast.Name) and inner.func.value.id == tt \
                    and isinstance(inner.args[0], ast.Constant) and isinstance(inner.args[0].value, str):
                return "(.stripIsDigit %s)" % lstr(inner.args[0].value)
            if isinstance(inner, ast.Name) and inner.id == tt:
                return "(.stripIsDigit \"\")"
        raise ExtractError("line %d: label condition not recognised: %s" % (c.lineno, ast.unparse(c)))

    # -- statements --------------------------------------------------------------------
    def stmt(self, st):
        if isinstance(st, ast.AugAssign) and isinstance(st.target, ast.Name) and isinstance(st.op, (ast.Add, ast.Mult)):
            load = ast.copy_location(ast.Name(id=st.target.id, ctx=ast.Load()), st)
            st = ast.copy_location(ast.Assign(targets=[st.target], value=ast.copy_location(ast.BinOp(left=load, op=st.op, right=st.value), st)), st)
        if isinstance(st, ast.Assign) and len(st.targets) == 1 and isinstance(st.targets[0], ast.Name):
            name, v = st.targets[0].id, st.value
            if name in (self.tree, self.params):
                raise ExtractError("line %d: argument %s reassigned" % (st.lineno, name))
            if name in (self.ops_var, self.int_var) or (self.int_list and name == self.int_list[0] and not _is_call(v, "np.array")):
                raise ExtractError("line %d: %s assigned twice" % (st.lineno, name))
            if isinstance(v, ast.ListComp) and _is_call(v.elt, "int"):
                # Python list of the integer labels, to be wrapped by np.array (possibly re-binding the same name)
                if self.int_var is not None or self.int_list is not None or name in self.scalars:
                    raise ExtractError("line %d: second integer list" % st.lineno)
                self.int_list = (name, self.comp(v, True))
                return
            if self.int_list is not None and _is_call(v, "np.array") and len(v.args) == 1 and isinstance(v.args[0], ast.Name) \
                    and v.args[0].id == self.int_list[0]:
                if name in self.scalars:
                    raise ExtractError("line %d: %s assigned twice" % (st.lineno, name))
                self.int_var, self.int_filter = name, self.int_list[1]
                self.int_list = (None, None)         # consumed: the list may not be used again
                return
            if isinstance(v, ast.ListComp):
                if self.ops_var is not None:
                    raise ExtractError("line %d: second label list" % st.lineno)
                if name in self.scalars:
                    raise ExtractError("line %d: %s assigned twice" % (st.lineno, name))
                self.op_filter = self.comp(v, False)
                self.ops_var = name
                return
            if _is_call(v, "np.array") and len(v.args) == 1 and isinstance(v.args[0], ast.ListComp):
                if self.int_var is not None:
                    raise ExtractError("line %d: second integer array" % st.lineno)
                if name in self.scalars:
                    raise ExtractError("line %d: %s assigned twice" % (st.lineno, name))
                self.int_filter = self.comp(v.args[0], True)
                self.int_var = name
                return
            # straight-line code: a name stands for the (already substituted) expression last assigned to it
            self.scalars[name] = self.value(v)
            return
        # n[n == a] = b
        if isinstance(st, ast.Assign) and len(st.targets) == 1 and isinstance(st.targets[0], ast.Subscript):
            t = st.targets[0]
            c = t.slice
            if isinstance(t.value, ast.Name) and t.value.id == self.int_var and isinstance(c, ast.Compare) and len(c.ops) == 1 \
                    and isinstance(c.ops[0], ast.Eq) and isinstance(c.left, ast.Name) and c.left.id == self.int_var:
                try:
                    a = ast.literal_eval(c.comparators[0]); b = ast.literal_eval(st.value)
                except Exception:
                    raise ExtractError("line %d: fix-up constants are not literals" % st.lineno)
                if type(a) is int and type(b) is int:
                    if self.used_ints:
                        raise ExtractError("line %d: fix-up after the integer array was already used" % st.lineno)
                    self.fixups.append((a, b))
                    return
        # if <a != b>: x += k      |  if <a != b>: x = k  (x == 0 before)   |  if <a != b>: x = 1  else: x = 0
        if isinstance(st, ast.If) and len(st.body) == 1 and len(st.orelse) <= 1:
            ind = "(.neInd %s %s)" % self.bexp(st.test)
            name, k = self.cond_update(st.body[0])
            if st.orelse:
                name2, k2 = self.cond_update(st.orelse[0])
                if name2 != name or k[0] != "set" or k2 != ("set", "(.lit 0)"):
                    raise ExtractError("line %d: if/else is not `x = k` / `x = 0`" % st.lineno)
                self.scalars[name] = ("n", self.nmul(k[1], ind))
                return
            cur = self.scalars.get(name)
            if cur is None or cur[0] != "n":
                raise ExtractError("line %d: conditional update of %s, which is not an integer scalar" % (st.lineno, name))
            if k[0] == "inc":
                self.scalars[name] = ("n", self.nadd(cur[1], self.nmul(k[1], ind)))
                return
            if cur[1] == "(.lit 0)":
                self.scalars[name] = ("n", self.nmul(k[1], ind))
                return
        raise ExtractError("line %d: statement not recognised: %s" % (st.lineno, ast.unparse(st)[:80]))

    def cond_update(self, st):
        """(name, ("inc", k) | ("set", k)) of `x += k`, `x = x + k`, `x = k + x`, `x = k`  (k an integer expression not using x)"""
        if isinstance(st, ast.AugAssign) and isinstance(st.target, ast.Name) and isinstance(st.op, ast.Add):
            if N.names_loaded(st.value, st.target.id):
                raise ExtractError("line %d: increment uses its own target" % st.lineno)
            return st.target.id, ("inc", self.nexp(st.value))
        if isinstance(st, ast.Assign) and len(st.targets) == 1 and isinstance(st.targets[0], ast.Name):
            x, v = st.targets[0].id, st.value
            if x in (self.tree, self.params, self.ops_var, self.int_var):
                raise ExtractError("line %d: %s reassigned" % (st.lineno, x))
            if isinstance(v, ast.BinOp) and isinstance(v.op, ast.Add):
                for me, other in ((v.left, v.right), (v.right, v.left)):
                    if isinstance(me, ast.Name) and me.id == x and not N.names_loaded(other, x):
                        return x, ("inc", self.nexp(other))
            if not N.names_loaded(v, x):
                return x, ("set", self.nexp(v))
        raise ExtractError("line %d: conditional statement not recognised: %s" % (st.lineno, ast.unparse(st)[:80]))

    def value(self, v):
        for kind, f in (("n", self.nexp), ("b", self.bexp), ("r", self.rexp), ("ia", self.iarr), ("ra", self.rarr)):
            try:
                return (kind, f(v))
            except ExtractError as e:
                err = e
        raise ExtractError("line %d: right-hand side not recognised: %s" % (v.lineno, ast.unparse(v)[:80]))

    def nadd(self, a, b):
        return "(.add %s %s)" % _canon(_NRANK, a, b)

    def nmul(self, a, b):
        if a == "(.lit 1)":
            return b
        if b == "(.lit 1)":
            return a
        return "(.mul %s %s)" % _canon(_NRANK, a, b)

    used_ints = False

    # -- expressions -------------------------------------------------------------------
    def lvar(self, node):
        if isinstance(node, ast.Name) and node.id == self.tree:
            return ".tree"
        if isinstance(node, ast.Name) and node.id == self.ops_var:
            return ".ops"
        raise ExtractError("line %d: %s is not a label list" % (node.lineno, ast.unparse(node)))

    def bexp(self, e, neg=False):
        """(a, b) such that the Boolean expression `e` (negated when `neg`) is `a != b` on integer expressions"""
        if isinstance(e, ast.UnaryOp) and isinstance(e.op, ast.Not):
            return self.bexp(e.operand, not neg)
        if isinstance(e, ast.Compare) and len(e.ops) == 1 and isinstance(e.ops[0], ast.Eq if neg else ast.NotEq):
            return _canon(_NRANK, self.nexp(e.left), self.nexp(e.comparators[0]))
        if isinstance(e, ast.Name) and not neg and e.id in self.scalars and self.scalars[e.id][0] == "b":
            return self.scalars[e.id][1]
        if _is_call(e, "bool") and len(e.args) == 1:
            return self.bexp(e.args[0], neg)
        raise ExtractError("line %d: not a Boolean of the form a != b: %s" % (e.lineno, ast.unparse(e)))

    def nexp(self, e):
        if isinstance(e, ast.Constant) and type(e.value) is int and e.value >= 0:
            return "(.lit %d)" % e.value
        if isinstance(e, ast.Name) and e.id in self.scalars and self.scalars[e.id][0] == "n":
            return self.scalars[e.id][1]
        if isinstance(e, ast.Name) and e.id in self.scalars and self.scalars[e.id][0] == "b":
            return "(.neInd %s %s)" % self.scalars[e.id][1]          # True == 1, False == 0 in arithmetic
        if _is_call(e, "len") and len(e.args) == 1:
            a = e.args[0]
            if _is_call(a, "set") and len(a.args) == 1:
                return "(.lenSet %s)" % self.lvar(a.args[0])
            return "(.len %s)" % self.lvar(a)
        if _is_call(e, "int") and len(e.args) == 1:
            return "(.neInd %s %s)" % self.bexp(e.args[0])
        if isinstance(e, ast.IfExp) and isinstance(e.body, ast.Constant) and type(e.body.value) is int and e.body.value == 1 \
                and isinstance(e.orelse, ast.Constant) and type(e.orelse.value) is int and e.orelse.value == 0:
            return "(.neInd %s %s)" % self.bexp(e.test)
        if isinstance(e, ast.Compare) or (isinstance(e, ast.UnaryOp) and isinstance(e.op, ast.Not)):
            raise ExtractError("line %d: a bare Boolean is not taken as an integer: %s" % (e.lineno, ast.unparse(e)))
        if isinstance(e, ast.BinOp) and isinstance(e.op, ast.Add):
            return self.nadd(self.nexp(e.left), self.nexp(e.right))
        if isinstance(e, ast.BinOp) and isinstance(e.op, ast.Mult):
            return "(.mul %s %s)" % _canon(_NRANK, self.nexp(e.left), self.nexp(e.right))
        raise ExtractError("line %d: not an integer expression: %s" % (e.lineno, ast.unparse(e)))

    def iarr(self, e):
        if isinstance(e, ast.Name) and e.id == self.int_var:
            self.used_ints = True
            return ".ints"
        if isinstance(e, ast.Name) and e.id in self.scalars and self.scalars[e.id][0] == "ia":
            return self.scalars[e.id][1]
        if (_is_call(e, "np.abs") or _is_call(e, "np.absolute") or _is_call(e, "abs")) and len(e.args) == 1:
            return "(.abs %s)" % self.iarr(e.args[0])
        raise ExtractError("line %d: not an integer array expression: %s" % (e.lineno, ast.unparse(e)))

    def rarr(self, e):
        if isinstance(e, ast.Name) and e.id in self.scalars and self.scalars[e.id][0] == "ra":
            return self.scalars[e.id][1]
        if _is_call(e, "np.log") and len(e.args) == 1:
            return "(.log %s)" % self.iarr(e.args[0])
        raise ExtractError("line %d: not a real array expression: %s" % (e.lineno, ast.unparse(e)))

    def rexp(self, e):
        try:
            return "(.nat %s)" % self.nexp(e)
        except ExtractError:
            pass
        if isinstance(e, ast.Name) and e.id in self.scalars and self.scalars[e.id][0] == "r":
            return self.scalars[e.id][1]
        if isinstance(e, ast.BinOp) and isinstance(e.op, (ast.Add, ast.Mult)):
            return "(%s %s %s)" % ((".add" if isinstance(e.op, ast.Add) else ".mul",) + _canon(_RRANK, self.rexp(e.left), self.rexp(e.right)))
        if _is_call(e, "np.sum") and len(e.args) == 1:
            return "(.sum %s)" % self.rarr(e.args[0])
        # arr.sum() only on what is syntactically an ndarray of this translator (rarr fails on anything else)
        if isinstance(e, ast.Call) and not e.args and not e.keywords and isinstance(e.func, ast.Attribute) and e.func.attr == "sum":
            return "(.sum %s)" % self.rarr(e.func.value)
        if _is_call(e, "np.log") and len(e.args) == 1:
            return "(.log %s)" % self.rexp(e.args[0])
        raise ExtractError("line %d: real expression not recognised: %s" % (e.lineno, ast.unparse(e)))


# ---------------------------------------------------------------------------------------
# writer loop of generate_equations
# ---------------------------------------------------------------------------------------

_FILE = re.compile(r"^\{dirname\}/(\w+)_\{compl\}\.txt$")
_CAT = re.compile(r"^cat ((?:\{dirname\}/\w+_\{compl\}\.txt )+)> \{dirname\}/(\w+)_\{compl\}\.txt$")
# declared types of the two arguments of generate_equations that occur in file names (docstring: `dirname (str)`, `compl (int)`)
_TYPES = {"dirname": "str", "compl": "int"}
# calls a rank-0 bookkeeping block may make (nothing that can write a file or change the tree lists)
_BOOKKEEPING_CALLS = ("print", "len", "str", "int", "float", "sys.stdout.flush", "time.time", "max", "min", "range")


def _open_name(call, mode, S):
    """open(<dirname>/NAME_<compl>.txt, mode) -> NAME   (path compared as a string template)"""
    if not (_is_call(call, "open") and len(call.args) == 2 and isinstance(call.args[1], ast.Constant) and call.args[1].value == mode):
        return None
    try:
        m = _FILE.match(S.str(call.args[0]).render())
    except ExtractError:
        return None
    return m.group(1) if m else None


def _is_rank0(st):
    return isinstance(st, ast.If) and ast.unparse(st.test) in ("rank == 0", "0 == rank", "not rank", "rank < 1") and not st.orelse


def _bookkeeping(st, forbidden):
    """a rank-0 statement that only counts / prints progress: may not mention the tree lists, param_list or files"""
    src = ast.unparse(st)
    for n in ast.walk(st):
        if isinstance(n, ast.Name) and n.id in forbidden:
            par_ok = False
            for c in ast.walk(st):                      # only as len(<list>)
                if _is_call(c, "len") and len(c.args) == 1 and c.args[0] is n:
                    par_ok = True
            if not par_ok:
                raise ExtractError("generate_equations: rank-0 block touches the tree lists: %s" % src[:80])
        if isinstance(n, ast.Call) and ast.unparse(n.func) not in _BOOKKEEPING_CALLS:
            raise ExtractError("generate_equations: call in a rank-0 block not recognised (line %d): %s" % (n.lineno, ast.unparse(n)[:80]))
        if isinstance(n, (ast.With, ast.AsyncWith, ast.Import, ast.ImportFrom, ast.FunctionDef, ast.ClassDef, ast.Delete, ast.Global)):
            raise ExtractError("generate_equations: statement in a rank-0 block not recognised (line %d): %s" % (n.lineno, src[:80]))


def _param_names(e, S):
    """`e` is ['a%i' % j for j in range(M)] (any spelling of the string): returns M"""
    c = N.alpha(e, "_j")
    if c is None:
        return None
    g = c.generators[0]
    if g.ifs or g.is_async or not (_is_call(g.iter, "range") and len(g.iter.args) == 1):
        return None
    try:
        t = S.child({"_j": "int"}).str(c.elt)
    except ExtractError:
        return None
    if t.parts != [("lit", "a"), ("hole", "_j")]:
        return None
    return e.generators[0].iter.args[0]


def _writer(fn, module=None):
    if module is not None:
        fn = N.inline_helpers(fn, module)
    body = _body(fn)
    S = N.Strings(_TYPES)
    for nm in _TYPES:
        if nm not in [a.arg for a in fn.args.args] or any(nm in N.bound_names(st) for st in body):
            raise ExtractError("generate_equations: %s is not an argument that is never reassigned" % nm)
    loop = None
    for k, st in enumerate(body):
        if isinstance(st, ast.For) and "shape_to_functions" in ast.unparse(st):
            if loop is not None:
                raise ExtractError("generate_equations: two loops call shape_to_functions")
            loop, loop_at = st, k
    if loop is None:
        raise ExtractError("generate_equations: loop over shapes not found")
    hdr = ast.unparse(loop.iter)
    if hdr == "range(len(shapes))" and isinstance(loop.target, ast.Name):
        shape_exprs = ["shapes[%s]" % loop.target.id]
    elif hdr == "enumerate(shapes)" and isinstance(loop.target, ast.Tuple) and len(loop.target.elts) == 2 \
            and all(isinstance(x, ast.Name) for x in loop.target.elts):
        shape_exprs = ["shapes[%s]" % loop.target.elts[0].id, loop.target.elts[1].id]
    else:
        raise ExtractError("generate_equations: loop header %s" % hdr)
    if loop.orelse or "shapes" in N.bound_names(loop) or any(isinstance(n, (ast.Break, ast.Continue)) for n in ast.walk(loop)):
        raise ExtractError("generate_equations: loop over shapes has break/continue/else or rebinds `shapes`")

    # files cleared before the loop
    cleared = []
    for st in body[:loop_at]:
        if _is_rank0(st) and any(isinstance(n, ast.With) for n in ast.walk(st)):
            for x in N.unroll_literal_loops(st.body, fn):
                if isinstance(x, ast.With) and len(x.items) == 1 and ast.unparse(x.body) == "pass":
                    nm = _open_name(x.items[0].context_expr, "w", S)
                    if nm is not None:
                        cleared.append(nm)
                        continue
                raise ExtractError("generate_equations: block clearing the files not recognised (line %d): %s" % (x.lineno, ast.unparse(x)[:80]))
    if not cleared:
        raise ExtractError("generate_equations: block clearing the four files not recognised")

    all_tree = extra_tree = funs = None
    mp_var = pl_var = None
    writes = []
    for st in loop.body:
        src = ast.unparse(st)
        if isinstance(st, ast.Assign) and "shape_to_functions" in src:
            t = st.targets[0]
            if not (len(st.targets) == 1 and isinstance(t, ast.Tuple) and len(t.elts) == 5 and isinstance(t.elts[1], ast.Name)
                    and isinstance(t.elts[3], ast.Name)) or funs is not None:
                raise ExtractError("generate_equations: unpacking of shape_to_functions changed")
            if ast.unparse(st.value) not in ["shape_to_functions(%s, basis_functions)" % x for x in shape_exprs]:
                raise ExtractError("generate_equations: call %s" % ast.unparse(st.value))
            funs, all_tree, extra_tree = ast.unparse(t.elts[0]), t.elts[1].id, t.elts[3].id
            continue
        if isinstance(st, ast.Assign) and len(st.targets) == 1 and isinstance(st.targets[0], ast.Name) and pl_var is None \
                and funs is not None:
            name, v = st.targets[0].id, st.value
            if mp_var is None and ast.unparse(v) == "simplifier.get_max_param(%s, verbose=False)" % funs:
                mp_var = name
                continue
            M = _param_names(v, S)
            if M is not None:
                if (mp_var is not None and isinstance(M, ast.Name) and M.id == mp_var) or \
                        ast.unparse(M) == "simplifier.get_max_param(%s, verbose=False)" % funs:
                    pl_var = name
                    continue
                raise ExtractError("generate_equations: parameter names up to %s" % ast.unparse(M))
            raise ExtractError("generate_equations: %s = %s" % (name, ast.unparse(v)[:80]))
        if _is_rank0(st):
            forbidden = set(x for x in (all_tree, extra_tree, pl_var, mp_var, "open", "os", "shapes") if x)
            for x in N.unroll_literal_loops(st.body, fn):
                if isinstance(x, ast.With):
                    if pl_var is None:
                        raise ExtractError("generate_equations: files written before param_list is set")
                    writes.append(_with_block(x, all_tree, extra_tree, pl_var, S))
                else:
                    if all_tree is None and re.search(r"\b(all_tree|extra_tree|param_list)\b", ast.unparse(x)) and "len(" not in ast.unparse(x):
                        raise ExtractError("generate_equations: rank-0 block touches the tree lists: %s" % ast.unparse(x)[:80])
                    _bookkeeping(x, forbidden)
            continue
        raise ExtractError("generate_equations: statement in shape loop not recognised (line %d): %s" % (st.lineno, src[:80]))
    if not writes:
        raise ExtractError("generate_equations: no writer blocks found")

    # cat commands after the loop
    cats = []
    tail = ast.unparse(ast.Module(body=body[loop_at + 1:], type_ignores=[]))
    for st in body[loop_at + 1:]:
        if _is_rank0(st) and "os.system" in ast.unparse(st):
            SS = S.child()
            for x in N.unroll_literal_loops(st.body, fn):
                if isinstance(x, ast.Assign) and len(x.targets) == 1 and isinstance(x.targets[0], ast.Name):
                    if not SS.bind(x.targets[0].id, x.value):
                        raise ExtractError("generate_equations: not a string or list of strings (line %d): %s" % (x.lineno, ast.unparse(x)[:80]))
                elif isinstance(x, ast.Expr) and ast.unparse(x) == "sys.stdout.flush()":
                    pass
                elif isinstance(x, ast.Expr) and isinstance(x.value, ast.Call) and ast.unparse(x.value.func) == "os.system" \
                        and len(x.value.args) == 1 and not x.value.keywords:
                    cmd = SS.str(x.value.args[0]).render()
                    m = _CAT.match(cmd)
                    if not m:
                        raise ExtractError("generate_equations: cat command not recognised: %s" % cmd)
                    cats.append((m.group(2), re.findall(r"\{dirname\}/(\w+)_\{compl\}\.txt ", m.group(1))))
                else:
                    raise ExtractError("generate_equations: statement next to os.system not recognised (line %d): %s" % (x.lineno, ast.unparse(x)[:80]))
        elif "os.system" in ast.unparse(st) or "subprocess" in ast.unparse(st):
            raise ExtractError("generate_equations: shell command outside a rank-0 block (line %d)" % st.lineno)
    if "open(" in tail:
        raise ExtractError("generate_equations: file opened after the shape loop")
    if not cats:
        raise ExtractError("generate_equations: cat commands not found")
    span = "%s:%d-%d" % (GEN, fn.lineno, fn.end_lineno)
    return cleared, writes, cats, span


def _with_block(w, all_tree, extra_tree, pl_var, S):
    if not (isinstance(w, ast.With) and len(w.items) == 1 and isinstance(w.items[0].optional_vars, ast.Name)):
        raise ExtractError("generate_equations: rank-0 writer block contains a non-`with` statement (line %d): %s"
                           % (w.lineno, ast.unparse(w)[:60]))
    fvar = w.items[0].optional_vars.id
    name = _open_name(w.items[0].context_expr, "a", S)
    if name is None:
        raise ExtractError("generate_equations: open() not in append mode on dirname/<name>_%%i.txt (line %d)" % w.lineno)
    loops = [x for x in w.body if isinstance(x, ast.For)]
    if len(loops) != 1 or w.body[-1] is not loops[0]:
        raise ExtractError("generate_equations: writer block %s is not `setup; for ...`" % name)
    for x in w.body[:-1]:
        if not (isinstance(x, ast.Assign) and all(isinstance(t, ast.Name) and t.id in ("w", "pp") for t in x.targets)):
            raise ExtractError("generate_equations: setup statement in writer block %s: %s" % (name, ast.unparse(x)[:60]))
    d = N.direct_loop(loops[0])
    if d is None:
        raise ExtractError("generate_equations: writer block %s iterates %s" % (name, ast.unparse(loops[0].iter)))
    v, lst, b = d
    if lst == all_tree:
        src = ".allTree"
    elif lst == extra_tree:
        src = ".extraTree"
    else:
        raise ExtractError("generate_equations: writer block %s iterates %s" % (name, lst))
    b = N.inline_single_use(b, ast.Module(body=b, type_ignores=[]))
    if len(b) == 1 and ast.unparse(b[0]) == "print(aifeyn_complexity(%s, %s), file=%s)" % (v, pl_var, fvar):
        payload = ".aifeyn"
    elif len(b) >= 2 and ast.unparse(b[0]) == "s = str(%s)" % v and ast.unparse(b[-1]) == "pp.pprint(s)" and \
            all(isinstance(x, ast.If) and all(isinstance(y, ast.Assign) and all(isinstance(t, ast.Name) and t.id in ("w", "pp") for t in y.targets)
                                              for y in x.body) and not x.orelse for x in b[1:-1]):
        if "stream=%s" % fvar not in ast.unparse(w):
            raise ExtractError("generate_equations: writer block %s does not print to its own file" % name)
        payload = ".treeStr"
    else:
        raise ExtractError("generate_equations: body of writer block %s not recognised: %s" % (name, ast.unparse(loops[0])[:100]))
    return (name, src, payload)


# ---------------------------------------------------------------------------------------
# the two single-tree call sites in fit_single.py
# ---------------------------------------------------------------------------------------

FIT = "esr/fitting/fit_single.py"
_MAXPARAM = "simplifier.get_max_param([generator.node_to_string(0, generator.check_tree(generator.labels_to_shape(%s, %s))[2], %s)])"


def _param_rule(P, L, B):
    """classify the expression passed as `param_list`:
    'paramLikeLabels'   [l for l in labels if l.startswith('a') and l[1:].isdigit()]
    'maxParamOfPrinted' ['a%i' % j for j in range(get_max_param([node_to_string(0, check_tree(labels_to_shape(labels, basis))[2], labels)]))]"""
    c = N.alpha(P, "_v")
    if c is None:
        raise ExtractError("param_list is not a single comprehension: %s" % ast.unparse(P)[:120])
    g = c.generators[0]
    if isinstance(g.iter, ast.Name) and g.iter.id == L and isinstance(c.elt, ast.Name) and c.elt.id == "_v":
        want = [N.dump(ast.parse(x, mode="eval").body) for x in ("_v.startswith('a')", "_v[1:].isdigit()")]
        if [N.dump(x) for x in N.conjuncts(g.ifs)] == want:
            return "paramLikeLabels"
    M = _param_names(P, N.Strings({}))
    if M is not None:
        M = copy.deepcopy(M)
        if isinstance(M, ast.Call):                       # `verbose` only switches printing
            M.keywords = [kw for kw in M.keywords if not (kw.arg == "verbose" and N.is_atom(kw.value))]
        if N.dump(M) == N.dump(ast.parse(_MAXPARAM % (L, B, L), mode="eval").body):
            return "maxParamOfPrinted"
    raise ExtractError("param_list rule not recognised: %s" % ast.unparse(P)[:200])


def _call_site(fn, module):
    fn = N.loops_to_comps(N.inline_helpers(fn, module, value_level=True))
    params = [a.arg for a in fn.args.args]
    if len(params) < 2:
        raise ExtractError("%s: signature" % fn.name)
    L, B = params[0], params[1]
    fl = N.Flow(fn, "aifeyn_complexity")
    if not fl.calls:
        raise ExtractError("%s: no call of aifeyn_complexity" % fn.name)
    rules = set()
    for c in fl.calls:
        if c["keywords"] or len(c["args"]) != 2 or c["args"][0] is None or c["args"][1] is None:
            raise ExtractError("%s line %d: arguments of aifeyn_complexity cannot be traced back to the function's inputs" % (fn.name, c["lineno"]))
        if N.dump(c["args"][0]) != N.dump(ast.Name(id=L, ctx=ast.Load())):
            raise ExtractError("%s line %d: first argument of aifeyn_complexity is not the unmodified `%s`" % (fn.name, c["lineno"], L))
        rules.add(_param_rule(c["args"][1], L, B))
    if len(rules) != 1:
        raise ExtractError("%s: calls of aifeyn_complexity with different parameter rules %r" % (fn.name, sorted(rules)))
    return rules.pop()


def call_sites(stage):
    """{function: dict(rule=... | error=...)} for the two single-tree entry points"""
    tree = extract._parse(stage, FIT)
    out = {}
    for name in ("single_function", "tree_to_aifeyn"):
        try:
            out[name] = dict(rule=_call_site(extract.find_def(tree, name), tree))
        except ExtractError as e:
            out[name] = dict(error=str(e))
    return out


@extract.extractor("Aifeyn")
def aifeyn(stage):
    tree = extract._parse(stage, GEN)
    a = _Aifeyn(extract.find_def(tree, "aifeyn_complexity"), tree)
    cleared, writes, cats, wspan = _writer(extract.find_def(tree, "generate_equations"), tree)
    out = "import ESRVerif.Model.AifeynSyntax\n" + extract.header("Aifeyn", [a.span, wspan]) + "open ESR.Aifeyn\n\n"
    out += "/-- `%s = [tt for tt in tree if ...]` -/\ndef opFilter : LPred := %s\n\n" % (a.ops_var, a.op_filter)
    out += "/-- `%s = np.array([int(tt) for tt in tree if ...])` -/\ndef intFilter : LPred := %s\n\n" % (a.int_var, a.int_filter)
    out += "/-- `%s[%s == a] = b`, in source order -/\ndef fixups : List (Int × Int) := %s\n\n" % (
        a.int_var, a.int_var, llist("(%d, %d)" % ab for ab in a.fixups))
    out += "/-- the return expression, scalar intermediates inlined -/\ndef ret : RExp :=\n  %s\n\n" % a.ret
    out += "/-- files truncated by rank 0 before the loop over shapes -/\ndef cleared : List String := %s\n\n" % llist(lstr(c) for c in cleared)
    out += "/-- `with open(.., 'a')` blocks inside the loop over shapes, in source order -/\ndef writes : List Write := %s\n\n" % llist(
        "⟨%s, %s, %s⟩" % (lstr(n), s, p) for n, s, p in writes)
    out += "/-- how `param_list` of a shape is obtained -/\ndef paramRule : ParamRule := .maxParamOfShapeFuns\n\n"
    out += "/-- `cat part... > target` commands after the loop -/\ndef cats : List (String × List String) := %s\n" % llist(
        "(%s, %s)" % (lstr(t), llist(lstr(p) for p in parts)) for t, parts in cats)
    return out + extract.footer("Aifeyn")
