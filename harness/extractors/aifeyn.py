"""Generated/Aifeyn.lean:

* the body of `aifeyn_complexity` (generator.py) as values of the little expression language of
  lean/ESRVerif/Model/AifeynSyntax.lean: operator filter, integer filter, `n[n==a]=b` fix-ups and the
  return expression with the scalar intermediates (`has_param`, `nop`, ...) inlined;
* the effect summary of the writer loop of `generate_equations`: files cleared, which `with open(.., 'a')`
  block prints what from which list, how `param_list` is obtained, and the two `cat` commands.

Fail closed: any statement / expression outside the recognised shapes raises ExtractError.
"""
import ast, re
import extract
from extract import ExtractError, lstr, llist

GEN = "esr/generation/generator.py"
extract.MODELLED += [
    (GEN, None, "aifeyn_complexity"),
    (GEN, None, "generate_equations"),
    (GEN, None, "labels_to_shape"),
    (GEN, None, "is_float"),
    (GEN, None, "node_to_string"),
    ("esr/generation/simplifier.py", None, "get_max_param"),
    ("esr/generation/simplifier.py", None, "count_params"),
    ("esr/fitting/fit_single.py", None, "tree_to_aifeyn"),
]


def _body(fn):
    b = fn.body
    if b and isinstance(b[0], ast.Expr) and isinstance(b[0].value, ast.Constant) and isinstance(b[0].value.value, str):
        b = b[1:]
    return b


def _is_call(node, name):
    """`name(...)` or `np.name(...)` with positional args only."""
    if not (isinstance(node, ast.Call) and not node.keywords):
        return False
    f = node.func
    if isinstance(f, ast.Name):
        return f.id == name
    if isinstance(f, ast.Attribute) and isinstance(f.value, ast.Name) and f.value.id in ("np", "numpy"):
        return "np." + f.attr == name
    return False


class _Aifeyn(object):
    def __init__(self, fn):
        args = [a.arg for a in fn.args.args]
        if len(args) != 2 or fn.args.vararg or fn.args.kwarg or fn.args.kwonlyargs or fn.args.defaults:
            raise ExtractError("aifeyn_complexity: signature %r not (tree, param_list)" % (args,))
        self.tree, self.params = args
        self.ops_var = None
        self.int_var = None
        self.op_filter = None
        self.int_filter = None
        self.fixups = []
        self.scalars = {}            # name -> ("n"|"r", lean text)
        self.ret = None
        body = _body(fn)
        if not body or not isinstance(body[-1], ast.Return) or body[-1].value is None:
            raise ExtractError("aifeyn_complexity: last statement is not `return <expr>`")
        for st in body[:-1]:
            self.stmt(st)
        if self.ops_var is None or self.int_var is None:
            raise ExtractError("aifeyn_complexity: operator list or integer array comprehension not found")
        self.ret = self.rexp(body[-1].value)
        self.span = "%s:%d-%d" % (GEN, fn.lineno, fn.end_lineno)

    # -- comprehension conditions ---------------------------------------------------
    def comp(self, lc, want_int):
        if not (isinstance(lc, ast.ListComp) and len(lc.generators) == 1):
            raise ExtractError("line %d: not a single-generator list comprehension" % lc.lineno)
        g = lc.generators[0]
        if g.is_async or not isinstance(g.target, ast.Name) or not (isinstance(g.iter, ast.Name) and g.iter.id == self.tree):
            raise ExtractError("line %d: comprehension does not iterate `for tt in %s`" % (lc.lineno, self.tree))
        tt = g.target.id
        if want_int:
            if not (_is_call(lc.elt, "int") and len(lc.elt.args) == 1 and isinstance(lc.elt.args[0], ast.Name) and lc.elt.args[0].id == tt):
                raise ExtractError("line %d: integer comprehension element is not int(%s)" % (lc.lineno, tt))
        else:
            if not (isinstance(lc.elt, ast.Name) and lc.elt.id == tt):
                raise ExtractError("line %d: operator comprehension element is not the loop variable" % lc.lineno)
        if not g.ifs:
            raise ExtractError("line %d: comprehension without condition" % lc.lineno)
        preds = [self.pred(c, tt) for c in g.ifs]
        out = preds[0]
        for p in preds[1:]:
            out = "(.and %s %s)" % (out, p)
        return out

    def pred(self, c, tt):
        if isinstance(c, ast.BoolOp):
            k = ".and" if isinstance(c.op, ast.And) else ".or"
            vals = [self.pred(v, tt) for v in c.values]
            out = vals[0]
            for v in vals[1:]:
                out = "(%s %s %s)" % (k, out, v)
            return out
        if isinstance(c, ast.UnaryOp) and isinstance(c.op, ast.Not):
            return "(.not %s)" % self.pred(c.operand, tt)
        if isinstance(c, ast.Compare) and len(c.ops) == 1 and isinstance(c.left, ast.Name) and c.left.id == tt \
                and isinstance(c.comparators[0], ast.Name) and c.comparators[0].id == self.params:
            if isinstance(c.ops[0], ast.NotIn):
                return "(.not .inParams)"
            if isinstance(c.ops[0], ast.In):
                return ".inParams"
        # tt.lstrip("-").isdigit()
        if isinstance(c, ast.Call) and not c.args and not c.keywords and isinstance(c.func, ast.Attribute) and c.func.attr == "isdigit":
            inner = c.func.value
            if isinstance(inner, ast.Call) and not inner.keywords and len(inner.args) == 1 and isinstance(inner.func, ast.Attribute) \
                    and inner.func.attr == "lstrip" and isinstance(inner.func.value, ast.Name) and inner.func.value.id == tt \
                    and isinstance(inner.args[0], ast.Constant) and isinstance(inner.args[0].value, str):
                return "(.stripIsDigit %s)" % lstr(inner.args[0].value)
            if isinstance(inner, ast.Name) and inner.id == tt:
                return "(.stripIsDigit \"\")"
        raise ExtractError("line %d: label condition not recognised: %s" % (c.lineno, ast.unparse(c)))

    # -- statements --------------------------------------------------------------------
    def stmt(self, st):
        if isinstance(st, ast.Assign) and len(st.targets) == 1 and isinstance(st.targets[0], ast.Name):
            name, v = st.targets[0].id, st.value
            if name in (self.tree, self.params):
                raise ExtractError("line %d: argument %s reassigned" % (st.lineno, name))
            if name in self.scalars or name in (self.ops_var, self.int_var):
                raise ExtractError("line %d: %s assigned twice" % (st.lineno, name))
            if isinstance(v, ast.ListComp):
                if self.ops_var is not None:
                    raise ExtractError("line %d: second label list" % st.lineno)
                self.op_filter = self.comp(v, False)
                self.ops_var = name
                return
            if _is_call(v, "np.array") and len(v.args) == 1 and isinstance(v.args[0], ast.ListComp):
                if self.int_var is not None:
                    raise ExtractError("line %d: second integer array" % st.lineno)
                self.int_filter = self.comp(v.args[0], True)
                self.int_var = name
                return
            try:
                self.scalars[name] = ("n", self.nexp(v))
            except ExtractError:
                self.scalars[name] = ("r", self.rexp(v))
            return
        # n[n == a] = b
        if isinstance(st, ast.Assign) and len(st.targets) == 1 and isinstance(st.targets[0], ast.Subscript):
            t = st.targets[0]
            c = t.slice
            if isinstance(t.value, ast.Name) and t.value.id == self.int_var and isinstance(c, ast.Compare) and len(c.ops) == 1 \
                    and isinstance(c.ops[0], ast.Eq) and isinstance(c.left, ast.Name) and c.left.id == self.int_var:
                try:
                    a = ast.literal_eval(c.comparators[0]); b = ast.literal_eval(st.value)
                except Exception:
                    raise ExtractError("line %d: fix-up constants are not literals" % st.lineno)
                if type(a) is int and type(b) is int:
                    if self.used_ints:
                        raise ExtractError("line %d: fix-up after the integer array was already used" % st.lineno)
                    self.fixups.append((a, b))
                    return
        raise ExtractError("line %d: statement not recognised: %s" % (st.lineno, ast.unparse(st)[:80]))

    used_ints = False

    # -- expressions -------------------------------------------------------------------
    def lvar(self, node):
        if isinstance(node, ast.Name) and node.id == self.tree:
            return ".tree"
        if isinstance(node, ast.Name) and node.id == self.ops_var:
            return ".ops"
        raise ExtractError("line %d: %s is not a label list" % (node.lineno, ast.unparse(node)))

    def nexp(self, e):
        if isinstance(e, ast.Constant) and type(e.value) is int and e.value >= 0:
            return "(.lit %d)" % e.value
        if isinstance(e, ast.Name) and e.id in self.scalars and self.scalars[e.id][0] == "n":
            return self.scalars[e.id][1]
        if _is_call(e, "len") and len(e.args) == 1:
            a = e.args[0]
            if _is_call(a, "set") and len(a.args) == 1:
                return "(.lenSet %s)" % self.lvar(a.args[0])
            return "(.len %s)" % self.lvar(a)
        if _is_call(e, "int") and len(e.args) == 1 and isinstance(e.args[0], ast.Compare) and len(e.args[0].ops) == 1 \
                and isinstance(e.args[0].ops[0], ast.NotEq):
            return "(.neInd %s %s)" % (self.nexp(e.args[0].left), self.nexp(e.args[0].comparators[0]))
        if isinstance(e, ast.BinOp) and isinstance(e.op, (ast.Add, ast.Mult)):
            return "(%s %s %s)" % (".add" if isinstance(e.op, ast.Add) else ".mul", self.nexp(e.left), self.nexp(e.right))
        raise ExtractError("line %d: not an integer expression: %s" % (e.lineno, ast.unparse(e)))

    def iarr(self, e):
        if isinstance(e, ast.Name) and e.id == self.int_var:
            self.used_ints = True
            return ".ints"
        if (_is_call(e, "np.abs") or _is_call(e, "np.absolute") or _is_call(e, "abs")) and len(e.args) == 1:
            return "(.abs %s)" % self.iarr(e.args[0])
        raise ExtractError("line %d: not an integer array expression: %s" % (e.lineno, ast.unparse(e)))

    def rarr(self, e):
        if _is_call(e, "np.log") and len(e.args) == 1:
            return "(.log %s)" % self.iarr(e.args[0])
        raise ExtractError("line %d: not a real array expression: %s" % (e.lineno, ast.unparse(e)))

    def rexp(self, e):
        try:
            return "(.nat %s)" % self.nexp(e)
        except ExtractError:
            pass
        if isinstance(e, ast.Name) and e.id in self.scalars and self.scalars[e.id][0] == "r":
            return self.scalars[e.id][1]
        if isinstance(e, ast.BinOp) and isinstance(e.op, (ast.Add, ast.Mult)):
            return "(%s %s %s)" % (".add" if isinstance(e.op, ast.Add) else ".mul", self.rexp(e.left), self.rexp(e.right))
        if _is_call(e, "np.sum") and len(e.args) == 1:
            return "(.sum %s)" % self.rarr(e.args[0])
        if _is_call(e, "np.log") and len(e.args) == 1:
            return "(.log %s)" % self.rexp(e.args[0])
        raise ExtractError("line %d: real expression not recognised: %s" % (e.lineno, ast.unparse(e)))


# ---------------------------------------------------------------------------------------
# writer loop of generate_equations
# ---------------------------------------------------------------------------------------

_FILE = re.compile(r"^/(\w+)_%i\.txt$")


def _open_name(call, mode):
    """open(dirname + '/NAME_%i.txt'%compl, mode) -> NAME"""
    if not (_is_call(call, "open") and len(call.args) == 2 and isinstance(call.args[1], ast.Constant) and call.args[1].value == mode):
        return None
    p = call.args[0]
    if isinstance(p, ast.BinOp) and isinstance(p.op, ast.Add) and isinstance(p.left, ast.Name) and p.left.id == "dirname" \
            and isinstance(p.right, ast.BinOp) and isinstance(p.right.op, ast.Mod) and isinstance(p.right.left, ast.Constant) \
            and isinstance(p.right.left.value, str) and ast.unparse(p.right.right) == "compl":
        m = _FILE.match(p.right.left.value)
        if m:
            return m.group(1)
    return None


def _writer(fn):
    body = _body(fn)
    loop = None
    for k, st in enumerate(body):
        if isinstance(st, ast.For) and "shape_to_functions" in ast.unparse(st):
            if loop is not None:
                raise ExtractError("generate_equations: two loops call shape_to_functions")
            loop, loop_at = st, k
    if loop is None:
        raise ExtractError("generate_equations: loop over shapes not found")
    if ast.unparse(loop.iter) != "range(len(shapes))" or not isinstance(loop.target, ast.Name):
        raise ExtractError("generate_equations: loop header %s" % ast.unparse(loop.iter))
    ivar = loop.target.id

    # files cleared before the loop
    cleared = None
    for st in body[:loop_at]:
        if isinstance(st, ast.If) and ast.unparse(st.test) == "rank == 0" and len(st.body) == 1 and isinstance(st.body[0], ast.For):
            f = st.body[0]
            if isinstance(f.iter, ast.List) and len(f.body) == 1 and isinstance(f.body[0], ast.With):
                w = f.body[0]
                src = ast.unparse(w.items[0].context_expr)
                if src == "open(dirname + '/%%s_%%i.txt' %% (%s, compl), 'w')" % f.target.id and ast.unparse(w.body) == "pass":
                    cleared = [ast.literal_eval(x) for x in f.iter.elts]
    if cleared is None:
        raise ExtractError("generate_equations: block clearing the four files not recognised")

    all_tree = extra_tree = funs = None
    param_ok = max_ok = False
    writes = []
    for st in loop.body:
        src = ast.unparse(st)
        if isinstance(st, ast.Assign) and "shape_to_functions" in src:
            t = st.targets[0]
            if not (isinstance(t, ast.Tuple) and len(t.elts) == 5 and isinstance(t.elts[1], ast.Name) and isinstance(t.elts[3], ast.Name)):
                raise ExtractError("generate_equations: unpacking of shape_to_functions changed")
            if ast.unparse(st.value) != "shape_to_functions(shapes[%s], basis_functions)" % ivar:
                raise ExtractError("generate_equations: call %s" % ast.unparse(st.value))
            funs, all_tree, extra_tree = ast.unparse(t.elts[0]), t.elts[1].id, t.elts[3].id
            continue
        if isinstance(st, ast.Assign) and len(st.targets) == 1 and ast.unparse(st.targets[0]) == "max_param":
            if funs is None or ast.unparse(st.value) != "simplifier.get_max_param(%s, verbose=False)" % funs:
                raise ExtractError("generate_equations: max_param = %s" % ast.unparse(st.value))
            max_ok = True
            continue
        if isinstance(st, ast.Assign) and len(st.targets) == 1 and ast.unparse(st.targets[0]) == "param_list":
            if ast.unparse(st.value) != "['a%i' % j for j in range(max_param)]" or not max_ok:
                raise ExtractError("generate_equations: param_list = %s" % ast.unparse(st.value))
            param_ok = True
            continue
        if isinstance(st, ast.If) and ast.unparse(st.test) == "rank == 0" and not st.orelse:
            if any(isinstance(x, ast.With) for x in st.body):
                if not param_ok:
                    raise ExtractError("generate_equations: files written before param_list is set")
                for w in st.body:
                    writes.append(_with_block(w, all_tree, extra_tree))
                continue
            # bookkeeping / progress printing only: may not touch the tree lists or files
            if re.search(r"\b(%s|%s|param_list|open)\b" % (all_tree or "all_tree", extra_tree or "extra_tree"), src) and "len(" not in src:
                raise ExtractError("generate_equations: rank-0 block touches the tree lists: %s" % src[:80])
            if "open(" in src:
                raise ExtractError("generate_equations: rank-0 block opens a file: %s" % src[:80])
            continue
        raise ExtractError("generate_equations: statement in shape loop not recognised (line %d): %s" % (st.lineno, src[:80]))
    if not writes:
        raise ExtractError("generate_equations: no writer blocks found")

    # cat commands after the loop
    cats = []
    tail = ast.unparse(ast.Module(body=body[loop_at + 1:], type_ignores=[]))
    for st in body[loop_at + 1:]:
        if isinstance(st, ast.If) and ast.unparse(st.test) == "rank == 0":
            pend = None
            for x in st.body:
                if isinstance(x, ast.Assign) and isinstance(x.value, ast.BinOp) and isinstance(x.value.op, ast.Mod) \
                        and isinstance(x.value.left, ast.Constant) and isinstance(x.value.left.value, str) and x.value.left.value.startswith("cat "):
                    m = re.match(r"^cat ((?:%s/\w+_%i\.txt )+)> %s/(\w+)_%i\.txt$", x.value.left.value)
                    if not m:
                        raise ExtractError("generate_equations: cat command not recognised: %s" % x.value.left.value)
                    parts = re.findall(r"%s/(\w+)_%i\.txt", m.group(1))
                    args = [ast.unparse(a) for a in x.value.right.elts] if isinstance(x.value.right, ast.Tuple) else None
                    want = []
                    for _ in range(len(parts) + 1):
                        want += ["dirname", "compl"]
                    if args != want:
                        raise ExtractError("generate_equations: cat arguments %r" % (args,))
                    pend = (x.targets[0].id, m.group(2), parts)
                elif isinstance(x, ast.Expr) and ast.unparse(x).startswith("os.system("):
                    if pend is None or ast.unparse(x) != "os.system(%s)" % pend[0]:
                        raise ExtractError("generate_equations: os.system without its cat string")
                    cats.append((pend[1], pend[2]))
                    pend = None
    if "open(" in tail:
        raise ExtractError("generate_equations: file opened after the shape loop")
    if not cats:
        raise ExtractError("generate_equations: cat commands not found")
    span = "%s:%d-%d" % (GEN, fn.lineno, fn.end_lineno)
    return cleared, writes, cats, span


def _with_block(w, all_tree, extra_tree):
    if not (isinstance(w, ast.With) and len(w.items) == 1 and isinstance(w.items[0].optional_vars, ast.Name)):
        raise ExtractError("generate_equations: rank-0 writer block contains a non-`with` statement (line %d): %s"
                           % (w.lineno, ast.unparse(w)[:60]))
    fvar = w.items[0].optional_vars.id
    name = _open_name(w.items[0].context_expr, "a")
    if name is None:
        raise ExtractError("generate_equations: open() not in append mode on dirname/<name>_%%i.txt (line %d)" % w.lineno)
    loops = [x for x in w.body if isinstance(x, ast.For)]
    if len(loops) != 1 or w.body[-1] is not loops[0]:
        raise ExtractError("generate_equations: writer block %s is not `setup; for ...`" % name)
    for x in w.body[:-1]:
        if not (isinstance(x, ast.Assign) and all(isinstance(t, ast.Name) and t.id in ("w", "pp") for t in x.targets)):
            raise ExtractError("generate_equations: setup statement in writer block %s: %s" % (name, ast.unparse(x)[:60]))
    f = loops[0]
    if not (isinstance(f.iter, ast.Name) and isinstance(f.target, ast.Name)) or f.orelse:
        raise ExtractError("generate_equations: writer block %s iterates %s" % (name, ast.unparse(f.iter)))
    if f.iter.id == all_tree:
        src = ".allTree"
    elif f.iter.id == extra_tree:
        src = ".extraTree"
    else:
        raise ExtractError("generate_equations: writer block %s iterates %s" % (name, f.iter.id))
    v = f.target.id
    b = f.body
    if len(b) == 1 and ast.unparse(b[0]) == "print(aifeyn_complexity(%s, param_list), file=%s)" % (v, fvar):
        payload = ".aifeyn"
    elif len(b) >= 2 and ast.unparse(b[0]) == "s = str(%s)" % v and ast.unparse(b[-1]) == "pp.pprint(s)" and \
            all(isinstance(x, ast.If) and all(isinstance(y, ast.Assign) and all(isinstance(t, ast.Name) and t.id in ("w", "pp") for t in y.targets)
                                              for y in x.body) and not x.orelse for x in b[1:-1]):
        if "stream=%s" % fvar not in ast.unparse(w):
            raise ExtractError("generate_equations: writer block %s does not print to its own file" % name)
        payload = ".treeStr"
    else:
        raise ExtractError("generate_equations: body of writer block %s not recognised: %s" % (name, ast.unparse(f)[:100]))
    return (name, src, payload)


@extract.extractor("Aifeyn")
def aifeyn(stage):
    tree = extract._parse(stage, GEN)
    a = _Aifeyn(extract.find_def(tree, "aifeyn_complexity"))
    cleared, writes, cats, wspan = _writer(extract.find_def(tree, "generate_equations"))
    out = "import ESRVerif.Model.AifeynSyntax\n" + extract.header("Aifeyn", [a.span, wspan]) + "open ESR.Aifeyn\n\n"
    out += "/-- `%s = [tt for tt in tree if ...]` -/\ndef opFilter : LPred := %s\n\n" % (a.ops_var, a.op_filter)
    out += "/-- `%s = np.array([int(tt) for tt in tree if ...])` -/\ndef intFilter : LPred := %s\n\n" % (a.int_var, a.int_filter)
    out += "/-- `%s[%s == a] = b`, in source order -/\ndef fixups : List (Int × Int) := %s\n\n" % (
        a.int_var, a.int_var, llist("(%d, %d)" % ab for ab in a.fixups))
    out += "/-- the return expression, scalar intermediates inlined -/\ndef ret : RExp :=\n  %s\n\n" % a.ret
    out += "/-- files truncated by rank 0 before the loop over shapes -/\ndef cleared : List String := %s\n\n" % llist(lstr(c) for c in cleared)
    out += "/-- `with open(.., 'a')` blocks inside the loop over shapes, in source order -/\ndef writes : List Write := %s\n\n" % llist(
        "⟨%s, %s, %s⟩" % (lstr(n), s, p) for n, s, p in writes)
    out += "/-- how `param_list` of a shape is obtained -/\ndef paramRule : ParamRule := .maxParamOfShapeFuns\n\n"
    out += "/-- `cat part... > target` commands after the loop -/\ndef cats : List (String × List String) := %s\n" % llist(
        "(%s, %s)" % (lstr(t), llist(lstr(p) for p in parts)) for t, parts in cats)
    return out + extract.footer("Aifeyn")
