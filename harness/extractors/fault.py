"""Generated/Fault.lean: the time-limited blocks of esr/generation/simplifier.py and what their handlers do.

For each `try: with time_limit(..): BODY  except TimeoutException: HANDLER` (or `except Exception` where that is the
handler that takes the timeout): the per-function state BODY mutates (`X[i] = ..`, `X[i].append(..)`), what was saved
right before the `try` and what HANDLER restores, handlers inside BODY that would intercept the TimeoutException first,
groups of consecutive appends to several shared lists (a fault between them leaves the lists misaligned) and the lists
HANDLER truncates back.
"""
import ast
import extract
from extract import ExtractError, lstr

REL = "esr/generation/simplifier.py"
FUNCS = ["sympy_simplify", "expand_or_factor", "check_results"]
CATCH_ALL = {"Exception", "BaseException", None}


def _hname(h):
    if h.type is None:
        return None
    return ast.unparse(h.type)


def _is_time_limit_with(st):
    return isinstance(st, ast.With) and any(isinstance(it.context_expr, ast.Call) and ast.unparse(it.context_expr.func).endswith("time_limit")
                                            for it in st.items)


def _sub_base(t):
    """X[i] -> 'X' (for a subscript of a plain name)"""
    if isinstance(t, ast.Subscript) and isinstance(t.value, ast.Name):
        return t.value.id
    return None


def _reraises_timeout_first(tr):
    for h in tr.handlers:
        n = _hname(h)
        if n == "TimeoutException":
            return any(isinstance(s, ast.Raise) and s.exc is None for s in h.body)
        if n in CATCH_ALL:
            return False
    return False


def _blocks(fn):
    out = []

    def visit(body):
        for k, st in enumerate(body):
            if isinstance(st, ast.Try) and any(_is_time_limit_with(s) for s in st.body):
                w = [s for s in st.body if _is_time_limit_with(s)][0]
                pre = body[max(0, k - 4):k]
                out.append((st, w, pre))
            for sub in ("body", "orelse", "finalbody"):
                visit(getattr(st, sub, []) or [])
            for h in getattr(st, "handlers", []) or []:
                visit(h.body)

    visit(fn.body)
    # time_limit blocks not wrapped by a try at all
    wrapped = {id(w) for _, w, _ in out}
    for n in ast.walk(fn):
        if _is_time_limit_with(n) and id(n) not in wrapped:
            # allowed only if some enclosing try (not directly) handles it; find the innermost enclosing try
            enclosing = [t for t in ast.walk(fn) if isinstance(t, ast.Try) and any(n is d for b in t.body for d in ast.walk(b))]
            if not enclosing:
                raise ExtractError("time_limit block at line %d is not inside any try" % n.lineno)
            t = min(enclosing, key=lambda t: sum(1 for _ in ast.walk(t)))
            out.append((t, n, []))
    return sorted(out, key=lambda x: x[1].lineno)


def analyse(stage):
    tree = extract._parse(stage, REL)
    res = []
    for name in FUNCS:
        fn = extract.find_def(tree, name)
        for tr, w, pre in _blocks(fn):
            hs = [_hname(h) for h in tr.handlers]
            taking = None
            for h in tr.handlers:
                if _hname(h) == "TimeoutException" or _hname(h) in CATCH_ALL:
                    taking = h; break
            catches = taking is not None
            restores, truncs = [], []
            if taking is not None:
                for s in ast.walk(ast.Module(body=taking.body, type_ignores=[])):
                    if isinstance(s, ast.Assign):
                        for t in s.targets:
                            b = _sub_base(t)
                            if b and isinstance(s.value, ast.Name):
                                restores.append((b, s.value.id))
                    if isinstance(s, ast.Delete):
                        for t in s.targets:
                            b = _sub_base(t)
                            if b and isinstance(t.slice, ast.Slice) and t.slice.upper is None:
                                truncs.append(b)
            saved = {}
            for s in pre:
                if isinstance(s, ast.Assign) and isinstance(s.targets[0], ast.Name):
                    b = _sub_base(s.value)
                    if b:
                        saved[s.targets[0].id] = b
            restored = sorted({b for b, src in restores if saved.get(src) == b})
            mutates, inplace = set(), False
            groups = []

            def scan(body):
                nonlocal inplace
                run = []
                for s in body:
                    nm = None
                    if isinstance(s, ast.Expr) and isinstance(s.value, ast.Call) and isinstance(s.value.func, ast.Attribute) and s.value.func.attr == "append":
                        tgt = s.value.func.value
                        if isinstance(tgt, ast.Name):
                            nm = tgt.id
                        else:
                            b = _sub_base(tgt)
                            if b:
                                mutates.add(b); inplace = True
                    if nm is not None:
                        run.append(nm)
                    else:
                        if len(set(run)) >= 2:
                            groups.append(run)
                        run = []
                    if isinstance(s, ast.Assign):
                        for t in s.targets:
                            b = _sub_base(t)
                            if b:
                                mutates.add(b)
                    for sub in ("body", "orelse", "finalbody"):
                        if getattr(s, sub, None):
                            scan(getattr(s, sub))
                    for h in getattr(s, "handlers", []) or []:
                        scan(h.body)
                if len(set(run)) >= 2:
                    groups.append(run)

            scan(w.body)
            # per-function state only (indexed by the loop variable): ignore locals like all_subs[...] if any
            inter = []
            for t in ast.walk(ast.Module(body=w.body, type_ignores=[])):
                if isinstance(t, ast.Try):
                    if any(_hname(h) in CATCH_ALL for h in t.handlers) and not _reraises_timeout_first(t):
                        inter += [h.lineno for h in t.handlers if _hname(h) in CATCH_ALL]
            res.append(dict(fn=name, line=w.lineno, catches=catches, handler=_hname(taking) if taking is not None else "-",
                            mutates=sorted(mutates), restores=restored, saved=sorted(set(saved.values())), inplace=inplace,
                            interceptors=inter, groups=groups, truncates=sorted(set(truncs))))
    if not res:
        raise ExtractError("no time_limit block found in simplifier.py")
    return res


def _ls(xs):
    return "[" + ", ".join(lstr(x) for x in xs) + "]"


@extract.extractor("Fault")
def gen(stage):
    bl = analyse(stage)
    t = extract.header("Fault", [REL])
    t += ("structure Block where\n  fn : String\n  line : Nat\n  catchesTimeout : Bool\n  handler : String\n  mutates : List String\n"
          "  restores : List String\n  savedBefore : List String\n  invInPlace : Bool\n  interceptors : List Nat\n"
          "  appendGroups : List (List String)\n  truncates : List String\n  deriving Repr, DecidableEq\n\n"
          "/-- every `with time_limit` block of sympy_simplify / expand_or_factor / check_results -/\ndef blocks : List Block := [\n")
    t += ",\n".join("  ⟨%s, %d, %s, %s, %s, %s, %s, %s, [%s], [%s], %s⟩" % (
        lstr(b["fn"]), b["line"], "true" if b["catches"] else "false", lstr(b["handler"] or "bare"), _ls(b["mutates"]), _ls(b["restores"]),
        _ls(b["saved"]), "true" if b["inplace"] else "false", ", ".join(map(str, b["interceptors"])),
        ", ".join(_ls(g) for g in b["groups"]), _ls(b["truncates"])) for b in bl)
    t += "\n  ]\n"
    t += extract.footer("Fault")
    return t
