"""Generated/Fault.lean: the time-limited blocks of esr/generation/simplifier.py and what their handlers do.

For each `try: with time_limit(..): BODY  except TimeoutException: HANDLER` (or `except Exception` where that is the
handler that takes the timeout): the per-function state BODY mutates (`X[i] = ..`, `X[i].append(..)`), what was saved
before the `try` and what HANDLER restores, handlers inside BODY (or inside helpers BODY calls) that would intercept the
TimeoutException first, groups of appends to several shared lists in one statement list (a fault between them leaves the
lists misaligned), the lists HANDLER cuts back to their common length, and any other tracked state HANDLER may change.

The source is normalised first (harness/extractors/_norm_c15.py, rewrites N1..N8: canonical names of the three local
lists, tuple/chained assignment, tuple aliases, unrolled loops over literal tuples, one level of helper inlining, the
spellings of append / truncate / common length), so that a refactor which keeps the effects regenerates the same table
(up to line numbers).  What is read, and how it fails closed:

 * BODY is a may-analysis: every store / in-place change / append anywhere in it counts.  A tracked list that is handed
   to something the translator cannot follow (aliased, passed to a call that is not a reader builtin or an inlined
   helper, returned) is an ExtractError.
 * HANDLER is a must-analysis for what it undoes: only unconditional statements `X[i] = saved` (saved = `X[i]` read
   before the `try`, same index, neither the saved name, the index variable nor X[..] re-assigned in between or inside
   BODY) count as restores, and only unconditional cuts of lists to the common length of exactly those lists (N7, N8) or to
   their own length read before the `try` count as truncations.  A restore, truncation or `raise` under a condition,
   or a cut to a length the translator cannot read, is an ExtractError.  Any other change of tracked state in HANDLER
   (conditional or not) is listed in `handlerMutates`.
 * the handler that takes the timeout is the first one naming TimeoutException, Exception, BaseException or nothing
   (also inside a tuple of classes); if it re-raises unconditionally the block does not catch its timeout.
 * stores through two subscripts (`inv_subs[i][j] = ..` in check_results, a list re-read from the library files) are not
   per-function state of the blocks and are not tracked (as before).
"""
import ast, copy
import extract
from extract import ExtractError, lstr
from extractors import _norm_c15 as N

REL = "esr/generation/simplifier.py"
FUNCS = ["sympy_simplify", "expand_or_factor", "check_results"]
CATCH_ALL = {"Exception", "BaseException", None}
TIMEOUT = "TimeoutException"


def _hnames(h):
    """class names an except clause lists (last attribute component); [None] for a bare except"""
    if h.type is None:
        return [None]
    ts = h.type.elts if isinstance(h.type, ast.Tuple) else [h.type]
    return [t.attr if isinstance(t, ast.Attribute) else ast.unparse(t) for t in ts]


def _hname(h):
    ns = _hnames(h)
    if TIMEOUT in ns:
        return TIMEOUT
    for n in ns:
        if n in CATCH_ALL:
            return n
    return ns[0]


def _takes(h):
    return any(n == TIMEOUT or n in CATCH_ALL for n in _hnames(h))


def _is_time_limit_with(st):
    return isinstance(st, ast.With) and any(isinstance(it.context_expr, ast.Call) and ast.unparse(it.context_expr.func).endswith("time_limit")
                                            for it in st.items)


def _reraises_timeout_first(tr):
    """the first clause of this try that takes a TimeoutException re-raises it unconditionally"""
    for h in tr.handlers:
        if _takes(h):
            return any(isinstance(s, ast.Raise) and s.exc is None for s in h.body)
    return True     # no clause takes it


def _swallowing_handlers(body):
    """line numbers of except clauses in the statements that would take a TimeoutException and not pass it on"""
    out = []
    for t in ast.walk(ast.Module(body=body, type_ignores=[])):
        if isinstance(t, ast.Try) and not _reraises_timeout_first(t):
            out += [h.lineno for h in t.handlers if _takes(h)][:1]
    return out


def _blocks(fn):
    out = []

    def visit(body):
        for k, st in enumerate(body):
            if isinstance(st, ast.Try) and any(_is_time_limit_with(s) for s in st.body):
                w = [s for s in st.body if _is_time_limit_with(s)][0]
                out.append((st, w, body[:k]))
            for sub in ("body", "orelse", "finalbody"):
                visit(getattr(st, sub, []) or [])
            for h in getattr(st, "handlers", []) or []:
                visit(h.body)

    visit(fn.body)
    # time_limit blocks not wrapped by a try at all
    wrapped = {id(w) for _, w, _ in out}
    for n in ast.walk(fn):
        if _is_time_limit_with(n) and id(n) not in wrapped:
            # allowed only if some enclosing try (not directly) handles it; find the innermost enclosing try
            enclosing = [t for t in ast.walk(fn) if isinstance(t, ast.Try) and any(n is d for b in t.body for d in ast.walk(b))]
            if not enclosing:
                raise ExtractError("time_limit block at line %d is not inside any try" % n.lineno)
            t = min(enclosing, key=lambda t: sum(1 for _ in ast.walk(t)))
            out.append((t, n, []))
    return sorted(out, key=lambda x: x[1].lineno)


# ---------------------------------------------------------------------------------------------------------------
# effects of statements
# ---------------------------------------------------------------------------------------------------------------

def _own_exprs(st):
    """the expressions a statement evaluates itself (not those of statements nested in it)"""
    if isinstance(st, (ast.If, ast.While)):
        return [st.test]
    if isinstance(st, (ast.For, ast.AsyncFor)):
        return [st.iter]
    if isinstance(st, (ast.With, ast.AsyncWith)):
        return [it.context_expr for it in st.items]
    if isinstance(st, ast.Try):
        return []
    if isinstance(st, ast.Match):
        return [st.subject]
    return [st]


def _stmt_effects(st, local):
    """effects of one statement's own expressions: list of (kind, name, node)
    kinds: store X (X[idx] = ..), inplace X (X[idx] changed in place), append L, trunc L (node = lower bound), othermut L"""
    eff = []
    if isinstance(st, (ast.Assign, ast.AnnAssign, ast.AugAssign)):
        se = N.self_extension(st)
        if se is not None and se not in local:
            eff.append(("append", se, st))
        for t, v, aug in N.assign_pairs(st):
            b = N.sub_base(t)
            if b is not None:
                sl = t.slice
                if isinstance(sl, ast.Slice):
                    if not aug and sl.upper is None and sl.step is None and sl.lower is not None \
                            and isinstance(v, (ast.List, ast.Tuple)) and not v.elts:
                        eff.append(("trunc", b, sl.lower))
                    else:
                        eff.append(("othermut", b, st))
                else:
                    eff.append(("store", b, (t, v)))
                    if aug:
                        eff.append(("inplace", b, st))
            elif isinstance(t, ast.Name):
                if aug and t.id not in local:
                    eff.append(("aug", t.id, st))       # `L += ..`: an append if L is one of the shared lists
            elif isinstance(t, ast.Attribute):
                pass
    if isinstance(st, ast.Delete):
        for t in st.targets:
            b = N.sub_base(t)
            if b is not None:
                sl = t.slice
                if isinstance(sl, ast.Slice) and sl.upper is None and sl.step is None and sl.lower is not None:
                    eff.append(("trunc", b, sl.lower))
                else:
                    eff.append(("othermut", b, st))
    for e in _own_exprs(st):
        for c in ast.walk(e):
            if isinstance(c, ast.Call) and isinstance(c.func, ast.Attribute) and c.func.attr in N.MUTATORS:
                r = c.func.value
                b = N.sub_base(r)
                if b is not None:
                    eff.append(("inplace" if c.func.attr in N.MUT_APPEND else "inplace-other", b, c))
                elif isinstance(r, ast.Name) and r.id not in local:
                    eff.append(("append" if c.func.attr in N.MUT_APPEND else "othermut", r.id, c))
    return eff


def _children(st):
    out = []
    for f in ("body", "orelse", "finalbody"):
        if isinstance(getattr(st, f, None), list):
            out.append(getattr(st, f))
    for h in getattr(st, "handlers", []) or []:
        out.append(h.body)
    for c in getattr(st, "cases", []) or []:
        out.append(c.body)
    return out


SIMPLE = (ast.Assign, ast.AnnAssign, ast.AugAssign, ast.Expr, ast.Pass, ast.Delete, ast.Import, ast.ImportFrom, ast.Assert)


def _scan_body(body, local, shared_hint):
    """may-analysis of a with-body: (mutates, inplace?, append groups, every effect)"""
    mutates, groups, alleff = set(), [], []
    inplace = [False]

    def is_append(kind, name):
        return kind == "append" or (kind == "aug" and name in shared_hint)

    def scan(stmts):
        run = []

        def flush():
            if len(set(run)) >= 2:
                groups.append(list(run))
            del run[:]

        for s in stmts:
            if isinstance(s, (ast.FunctionDef, ast.AsyncFunctionDef, ast.ClassDef, ast.Global, ast.Nonlocal)):
                raise ExtractError("line %d: %s inside a time-limited block" % (s.lineno, type(s).__name__))
            eff = _stmt_effects(s, local)
            alleff.extend(eff)
            for kind, name, _ in eff:
                if kind in ("store", "inplace", "inplace-other"):
                    mutates.add(name)
                if kind in ("inplace", "inplace-other"):
                    inplace[0] = True
            apps = [name for kind, name, _ in eff if is_append(kind, name)]
            if isinstance(s, SIMPLE):
                run.extend(apps)
            else:
                # compound statement or transfer of control: the record being written ends here
                run.extend(apps)
                flush()
                for ch in _children(s):
                    scan(ch)
        flush()

    scan(body)
    return mutates, inplace[0], groups, alleff


def _scan_saves(pre, defs):
    """what the statements before the `try` leave saved: name -> ('elem', X, idx text) | ('tuple', [(X, idx), ..]) | ('len', L)"""
    saved = {}

    def elem(v):
        b = N.sub_base(v)
        if b is not None and not isinstance(v.slice, ast.Slice):
            return (b, ast.unparse(v.slice))
        return None

    def forget_name(n):
        saved.pop(n, None)
        for k in [k for k, e in saved.items() if (e[0] == "elem" and n in _names_in(e[2])) or
                  (e[0] == "tuple" and any(n in _names_in(i) for _, i in e[1]))]:
            del saved[k]

    def forget_base(b):
        for k in [k for k, e in saved.items() if (e[0] == "elem" and e[1] == b) or (e[0] == "tuple" and any(x == b for x, _ in e[1]))
                  or (e[0] == "len" and e[1] == b)]:
            del saved[k]

    for st in pre:
        # state changed by this statement (anywhere in it) invalidates what was read from it
        for n in ast.walk(st):
            if isinstance(n, (ast.Subscript, ast.Attribute)) and isinstance(n.ctx, (ast.Store, ast.Del)):
                r = N.root_name(n)
                if r:
                    forget_base(r)
            if isinstance(n, ast.AugAssign):
                r = N.root_name(n.target)
                if r:
                    forget_base(r)
            if isinstance(n, ast.Call):
                if isinstance(n.func, ast.Attribute) and n.func.attr in N.MUTATORS:
                    r = N.root_name(n.func.value)
                    if r:
                        forget_base(r)
                if isinstance(n.func, ast.Name) and n.func.id in defs and N.may_change_state(defs[n.func.id], defs):
                    for a in list(n.args) + [k.value for k in n.keywords]:
                        for x in ast.walk(a):
                            if isinstance(x, ast.Name):
                                forget_base(x.id)
        for n in N.stores(st):
            forget_name(n)
            forget_base(n)
        if isinstance(st, (ast.Assign, ast.AnnAssign)):
            for t, v, _ in N.assign_pairs(st):
                if not isinstance(t, ast.Name) or v is None:
                    continue
                e = elem(v)
                if e is not None:
                    saved[t.id] = ("elem", e[0], e[1])
                elif isinstance(v, (ast.Tuple, ast.List)) and v.elts and all(elem(x) is not None for x in v.elts):
                    saved[t.id] = ("tuple", [elem(x) for x in v.elts])
                elif N._len_of(v) is not None:
                    saved[t.id] = ("len", N._len_of(v))
    return saved


def _names_in(text):
    try:
        return {n.id for n in ast.walk(ast.parse(text, mode="eval")) if isinstance(n, ast.Name)}
    except SyntaxError:
        return set()


def _all_effects(stmts, local):
    out = []
    for s in stmts:
        out += _stmt_effects(s, local)
        for ch in _children(s):
            out += _all_effects(ch, local)
    return out


def _scan_handler(body, saved, tracked, hlocal):
    """must-analysis of the handler that takes the timeout"""
    restored, truncs, other = set(), {}, set()
    reraises = False
    lens = {}                    # handler-local name -> set of lists whose common length it holds
    for s in body:
        wp = N.while_pop_trunc(s)
        if wp is not None:
            effs = [("trunc", wp[0], wp[1])]
        elif isinstance(s, SIMPLE):
            effs = _stmt_effects(s, hlocal)
        elif isinstance(s, ast.Raise):
            reraises = True
            break
        elif isinstance(s, (ast.Return, ast.Break, ast.Continue)):
            break
        else:
            # a compound statement: nothing in it may be counted as done; a restore / cut / raise in it cannot be decided
            for kind, name, node in _all_effects([s], hlocal):
                if name not in tracked:
                    continue
                if kind == "trunc" or (kind == "store" and isinstance(node[1], ast.Name) and node[1].id in saved):
                    raise ExtractError("line %d: the timeout handler restores or cuts %s only under a condition" % (s.lineno, name))
                other.add(name)
            if any(isinstance(n, ast.Raise) for n in ast.walk(s)):
                raise ExtractError("line %d: the timeout handler raises under a condition" % s.lineno)
            continue
        # handler-local lengths
        if isinstance(s, (ast.Assign, ast.AnnAssign)):
            for t, v, _ in N.assign_pairs(s):
                if isinstance(t, ast.Name):
                    lens.pop(t.id, None)
                    cl = N.common_length_of(v) if v is not None else None
                    if cl is not None:
                        lens[t.id] = cl
            # `X[i], Y[i] = saved_pair`
            if isinstance(s, ast.Assign) and len(s.targets) == 1 and isinstance(s.targets[0], (ast.Tuple, ast.List)) \
                    and isinstance(s.value, ast.Name) and saved.get(s.value.id, ("",))[0] == "tuple":
                pairs = saved[s.value.id][1]
                ts = s.targets[0].elts
                if len(ts) == len(pairs) and all(N.sub_base(t) == b and ast.unparse(t.slice) == i for t, (b, i) in zip(ts, pairs)):
                    restored.update(b for b, _ in pairs)
                    continue
        for kind, name, node in effs:
            if kind == "store":
                t, v = node
                e = saved.get(v.id) if isinstance(v, ast.Name) else None
                if e is not None and e[0] == "elem" and e[1] == name and e[2] == ast.unparse(t.slice):
                    restored.add(name)
                elif name in tracked:
                    other.add(name)
            elif kind == "trunc":
                key = None
                if isinstance(node, ast.Name) and node.id in lens:
                    key = frozenset(lens[node.id])
                elif isinstance(node, ast.Name) and saved.get(node.id, ("",))[0] == "len" and saved[node.id][1] == name:
                    key = frozenset([name])
                else:
                    cl = N.common_length_of(node)
                    if cl is not None:
                        key = frozenset(cl)
                if key is None:
                    if name in tracked:
                        raise ExtractError("line %d: cannot read the length %s is cut back to (%s)" % (s.lineno, name, ast.unparse(node)[:60]))
                    continue
                truncs.setdefault(key, set()).add(name)
            elif name in tracked:
                other.add(name)
    good = set()
    for key, names in truncs.items():
        if set(key) == names:
            good |= names            # cut to the common length of exactly these lists
        else:
            other |= (names & tracked) or names
    return restored, good, other, reraises


def _escapes(stmts, tracked, what):
    """a tracked list used where the translator cannot follow it"""
    parent = {}
    for top in stmts:
        for n in ast.walk(top):
            for c in ast.iter_child_nodes(n):
                parent[c] = n
    for top in stmts:
        for n in ast.walk(top):
            if not (isinstance(n, ast.Name) and n.id in tracked and isinstance(n.ctx, ast.Load)):
                continue
            p = parent.get(n)
            ok = False
            if isinstance(p, (ast.Subscript, ast.Attribute)) and p.value is n:
                ok = True
            elif isinstance(p, ast.Starred):
                ok = False
            elif isinstance(p, ast.Call):
                ok = (isinstance(p.func, ast.Name) and p.func.id in N.READERS) or getattr(p, "_inlined", False)
            elif isinstance(p, (ast.Compare, ast.BoolOp)) or (isinstance(p, ast.UnaryOp) and isinstance(p.op, ast.Not)):
                ok = True
            elif isinstance(p, (ast.If, ast.While, ast.IfExp)) and p.test is n:
                ok = True
            elif isinstance(p, (ast.For, ast.comprehension)) and p.iter is n:
                ok = True
            elif isinstance(p, (ast.Tuple, ast.List)):
                g = parent.get(p)
                ok = (isinstance(g, (ast.For, ast.comprehension)) and g.iter is p) or \
                     (isinstance(g, ast.Call) and isinstance(g.func, ast.Name) and g.func.id in N.READERS)
            elif isinstance(p, ast.BinOp) and isinstance(p.op, ast.Add) and isinstance(parent.get(p), ast.Assign) \
                    and N.self_extension(parent.get(p)) == n.id:
                ok = True
            elif isinstance(p, ast.AugAssign):
                ok = False
            if not ok:
                raise ExtractError("line %d: the list %s is used in %s in a way the translator cannot follow (%s)" % (
                    getattr(n, "lineno", 0), n.id, what, ast.unparse(p)[:60] if p is not None else "?"))


def analyse(stage):
    tree = extract._parse(stage, REL)
    res = []
    for name in FUNCS:
        fn = extract.find_def(tree, name)
        fn = N.rename_locals(fn, N.canonical_names(tree, fn))                       # N1
        defs = N.local_defs(tree, fn)
        canon = set()
        mc = [n for n in tree.body if isinstance(n, ast.FunctionDef) and n.name == "make_changes"]
        if mc and any(isinstance(c, ast.Call) and ast.unparse(c.func).endswith("make_changes") for c in ast.walk(fn)):
            canon = {a.arg for a in mc[0].args.args[3:6]}
        blocks = []
        for tr, w, pre in _blocks(fn):
            taking = None
            for h in tr.handlers:
                if _takes(h):
                    taking = h
                    break
            inl = N.Inliner(defs, skip=("time_limit", name))
            body = N.unroll(inl.run(w.body))                                          # N5, N3, N4
            hbody = N.unroll(inl.run(taking.body, strict=True)) if taking is not None else []
            blocks.append(dict(tr=tr, w=w, pre=pre, taking=taking, body=body, hbody=hbody))
        # lists that are appended to / cut somewhere in the blocks of this function
        shared = set()
        for b in blocks:
            local = set(N.stores(b["body"], skip_aug=True))
            for kind, nm, _ in _all_effects(b["body"], local):
                if kind == "append":
                    shared.add(nm)
            for kind, nm, _ in _all_effects(b["hbody"], set()):
                if kind == "trunc":
                    shared.add(nm)
        tracked = set(canon) | shared
        scanned = []
        for b in blocks:
            local = set(N.stores(b["body"], skip_aug=True))
            mutates, inplace, groups, alleff = _scan_body(b["body"], local, shared - local)
            tracked |= mutates
            scanned.append((local, mutates, inplace, groups))
        for b, (local, mutates, inplace, groups) in zip(blocks, scanned):
            tr, w, taking = b["tr"], b["w"], b["taking"]
            saved = _scan_saves(b["pre"], defs)
            # a snapshot name, or the variable it is indexed by, that BODY re-assigns is not the value before the try
            bst = set(N.stores(w.body))
            for k in [k for k, e in saved.items() if k in bst or
                      (e[0] == "elem" and _names_in(e[2]) & bst) or (e[0] == "tuple" and any(_names_in(i) & bst for _, i in e[1]))]:
                del saved[k]
            restored, truncs, other, reraises = set(), set(), set(), False
            if taking is not None:
                hlocal = set(N.stores(b["hbody"], skip_aug=True)) - tracked
                restored, truncs, other, reraises = _scan_handler(b["hbody"], saved, tracked, hlocal)
                _escapes(b["hbody"], tracked - local, "the handler of the block at line %d" % w.lineno)
            _escapes(b["body"], tracked - local, "the time-limited block at line %d" % w.lineno)
            catches = taking is not None and not reraises
            # handlers between the raise and the restoring handler: in BODY itself and in every local helper BODY reaches
            inter = _swallowing_handlers(w.body)
            seen, todo = set(), [c.func.id for c in ast.walk(ast.Module(body=w.body, type_ignores=[]))
                                 if isinstance(c, ast.Call) and isinstance(c.func, ast.Name) and c.func.id in defs]
            while todo:
                f = todo.pop()
                if f in seen or f in ("time_limit", name):
                    continue
                seen.add(f)
                inter += _swallowing_handlers(defs[f].body)
                todo += [c.func.id for c in ast.walk(defs[f]) if isinstance(c, ast.Call) and isinstance(c.func, ast.Name) and c.func.id in defs]
            savedb = set()
            for e in saved.values():
                if e[0] == "elem":
                    savedb.add(e[1])
                elif e[0] == "tuple":
                    savedb.update(x for x, _ in e[1])
            res.append(dict(fn=name, line=w.lineno, catches=catches, handler=_hname(taking) if taking is not None else "-",
                            mutates=sorted(mutates), restores=sorted(restored), saved=sorted(savedb), inplace=inplace,
                            interceptors=sorted(set(inter)), groups=groups, truncates=sorted(truncs), hmut=sorted(other)))
    if not res:
        raise ExtractError("no time_limit block found in simplifier.py")
    return res


def mutation_lines(stage):
    """source lines (of the anchored functions and of the state-changing local helpers they call) that record something:
    an append to a bare list, an in-place change of `X[i]`, a store to an `X[i]` that is elsewhere changed in place (the
    pending chain), or a call of such a helper.  Used by props/c15.py to inject around them first; a hint, not part of the table."""
    tree = extract._parse(stage, REL)
    lines = set()
    for name in FUNCS:
        try:
            fn = extract.find_def(tree, name)
        except ExtractError:
            continue
        defs = N.local_defs(tree, fn)
        helpers = {}
        for c in ast.walk(fn):
            if isinstance(c, ast.Call) and isinstance(c.func, ast.Name) and c.func.id in defs and c.func.id not in FUNCS + ["time_limit"]:
                try:
                    if N.may_change_state(defs[c.func.id], defs):
                        helpers[c.func.id] = defs[c.func.id]
                        lines.add(c.lineno)
                except Exception:
                    pass
        effs = []
        for f in [fn] + list(helpers.values()):
            for st in ast.walk(f):
                if isinstance(st, ast.stmt) and not isinstance(st, (ast.FunctionDef, ast.ClassDef)):
                    try:
                        effs += [(k, nm, st.lineno) for k, nm, _ in _stmt_effects(st, set())]
                    except Exception:
                        pass
        chained = {nm for k, nm, _ in effs if k in ("inplace", "inplace-other")}
        lines |= {ln for k, nm, ln in effs if k in ("inplace", "inplace-other", "append") or (k == "store" and nm in chained)}
    return lines


def _ls(xs):
    return "[" + ", ".join(lstr(x) for x in xs) + "]"


# ---------------------------------------------------------------------------------------------------------------
# check_results as the verifier of the published rows
# ---------------------------------------------------------------------------------------------------------------

PARSERS = ("literal_eval",)


def analyse_verifier(stage):
    """What `fault_schedule_sound_with_verifier` needs about check_results: every chain entry is parsed (`literal_eval`) INSIDE the
    time-limited block whose `try` has a handler taking the parse error, that handler puts the function on the un-merge list, and the
    only way a function leaves the loop before that `try` is the listed skip conditions (text of the tests guarding a
    `continue`/`break`/`return`, in source order).  Fails closed: a parse outside the block, no parse at all, several time-limited
    blocks, an unguarded `continue`, a skip inside the block before the parse -> ExtractError."""
    tree = extract._parse(stage, REL)
    fn = extract.find_def(tree, "check_results")
    blocks = _blocks(fn)
    if len(blocks) != 1:
        raise ExtractError("check_results: expected exactly one time-limited block, found %d" % len(blocks))
    tr, w, _ = blocks[0]
    # the loop over the functions that holds the try
    loops = [n for n in ast.walk(fn) if isinstance(n, (ast.For, ast.While)) and any(d is tr for d in ast.walk(n))]
    if not loops:
        raise ExtractError("check_results: the time-limited block is not inside a loop over the functions")
    loop = max(loops, key=lambda n: sum(1 for _ in ast.walk(n)))         # outermost
    if tr not in loop.body:
        raise ExtractError("check_results: the try of the time-limited block is not a direct statement of the loop over the functions")
    pre = loop.body[:loop.body.index(tr)]
    skips = []

    def jumps(stmts):
        return [n for s_ in stmts for n in ast.walk(s_) if isinstance(n, (ast.Continue, ast.Break, ast.Return))]

    def scan(stmts, where):
        for st in stmts:
            if isinstance(st, (ast.Continue, ast.Break, ast.Return)):
                raise ExtractError("check_results line %d: unconditional %s before the parameter maps are checked" % (st.lineno, type(st).__name__))
            if isinstance(st, ast.If):
                if jumps(st.body) or jumps(st.orelse):
                    if jumps(st.orelse) or not all(isinstance(x, (ast.Continue, ast.Break, ast.Return, ast.Expr, ast.Pass)) for x in st.body):
                        raise ExtractError("check_results line %d: cannot read the skip condition" % st.lineno)
                    skips.append(where + ast.unparse(st.test))
                continue
            if isinstance(st, (ast.For, ast.While, ast.With, ast.Try, ast.Match)) and jumps([st]):
                # a jump inside an inner loop only leaves that loop if it is break/continue of it; anything else cannot be decided here
                inner = [n for n in jumps([st]) if isinstance(n, ast.Return) or not isinstance(st, (ast.For, ast.While))]
                if inner:
                    raise ExtractError("check_results line %d: a jump inside a compound statement before the parameter maps are checked" % st.lineno)

    scan(pre, "")
    # inside the try: statements before the with, and the with body up to the parse
    parses = [c for c in ast.walk(fn) if isinstance(c, ast.Call) and (getattr(c.func, "attr", None) in PARSERS or getattr(c.func, "id", None) in PARSERS)]
    if not parses:
        raise ExtractError("check_results: no literal_eval of the recorded parameter maps found")
    inside = all(any(d is c for b in w.body for d in ast.walk(b)) for c in parses)
    for st in tr.body:
        if st is w:
            break
        if jumps([st]):
            raise ExtractError("check_results line %d: a jump inside the try before the time-limited block" % st.lineno)
    # a `continue` inside the block ahead of (or around) the parse would let entries through unparsed
    for n in jumps(w.body):
        raise ExtractError("check_results line %d: a jump inside the time-limited block" % n.lineno)
    # ... and so would a condition around the parse: the parse must sit under loops only (one parse per entry)
    for c in parses:
        for b in w.body:
            for n in ast.walk(b):
                if isinstance(n, (ast.If, ast.Try, ast.IfExp, ast.Match)) and any(d is c for d in ast.walk(n)):
                    raise ExtractError("check_results line %d: the parse of a recorded map is conditional" % n.lineno)
    taking = None
    for h in tr.handlers:
        if any(n in CATCH_ALL for n in _hnames(h)):
            taking = h
            break
    # an earlier clause naming only narrower classes (e.g. TimeoutException alone) does not take a parse error
    catches = taking is not None and not any(isinstance(s_, ast.Raise) for s_ in ast.walk(ast.Module(body=taking.body, type_ignores=[])))
    happ = []
    if taking is not None:
        if any(isinstance(s_, (ast.If, ast.For, ast.While, ast.Try, ast.With, ast.Continue, ast.Break, ast.Return)) for s_ in taking.body):
            raise ExtractError("check_results line %d: the handler that takes a parse error is not straight-line" % taking.lineno)
        for kind, nm, _ in _all_effects(taking.body, set()):
            if kind in ("append", "aug"):
                happ.append(nm)
    return dict(parse_inside=inside, catches=catches, happ=sorted(set(happ)), skips=skips)


@extract.extractor("Fault")
def gen(stage):
    bl = analyse(stage)
    t = extract.header("Fault", [REL])
    t += ("structure Block where\n  fn : String\n  line : Nat\n  catchesTimeout : Bool\n  handler : String\n  mutates : List String\n"
          "  restores : List String\n  savedBefore : List String\n  invInPlace : Bool\n  interceptors : List Nat\n"
          "  appendGroups : List (List String)\n  truncates : List String\n  handlerMutates : List String\n  deriving Repr, DecidableEq\n\n"
          "/-- every `with time_limit` block of sympy_simplify / expand_or_factor / check_results -/\ndef blocks : List Block := [\n")
    t += ",\n".join("  ⟨%s, %d, %s, %s, %s, %s, %s, %s, [%s], [%s], %s, %s⟩" % (
        lstr(b["fn"]), b["line"], "true" if b["catches"] else "false", lstr(b["handler"] or "bare"), _ls(b["mutates"]), _ls(b["restores"]),
        _ls(b["saved"]), "true" if b["inplace"] else "false", ", ".join(map(str, b["interceptors"])),
        ", ".join(_ls(g) for g in b["groups"]), _ls(b["truncates"]), _ls(b["hmut"])) for b in bl)
    t += "\n  ]\n"
    v = analyse_verifier(stage)
    t += ("\n/-- `check_results` as the verifier of the published rows: where the recorded maps are parsed, what takes a parse error, and the\n"
          "only conditions under which a function is not checked at all -/\nstructure Verifier where\n  parseInsideTry : Bool\n"
          "  handlerTakesParseError : Bool\n  handlerAppends : List String\n  skips : List String\n  deriving Repr, DecidableEq\n\n"
          "def verifier : Verifier := ⟨%s, %s, %s, %s⟩\n" % ("true" if v["parse_inside"] else "false", "true" if v["catches"] else "false",
                                                          _ls(v["happ"]), _ls(v["skips"])))
    t += extract.footer("Fault")
    return t
