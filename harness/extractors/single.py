"""Generated/Single.lean: how fit_single.single_function assembles its result (which routines, which sum).

single_function is read by symbolic execution (extractors/_norm_c20.py, which lists the normalisations N1-N8 it
implies): one run per truth assignment of the flags the function branches on (`likelihood.is_mse`, `return_params`,
`verbose`).  What is tabulated is the *value* returned on each path, in a normal form without local names:

  <module>.<routine>[i]      i-th element of the result of the (only) call of that routine on the path
  <module>.<routine>@k[i]    ... of its k-th call, when the routine is called more than once on the path
  <module>.<routine>()       the whole result of the call
  a + b + c                  the left-nested float sum ((a + b) + c), operands in source order
  likelihood.run_sympify()   a method of a parameter: named by the parameter

so renamed locals, `_` for unused results, tuple vs separate assignment, a result variable instead of two returns,
`x if c else y`, `from m import f` vs `import m as g; g.f`, a straight-line same-module helper / closure (inlined, one level),
re-wrapped calls, comments and print formatting give the same table.  The association and order of the sum are kept
(floating point).  Shapes the reader does not cover (loops, try, a branch on a computed value, a tracked routine called
inside a comprehension, ...) raise ExtractError: the committed table then stands in and props/c20.py ties it to the
code by tracing the real routines inside the real single_function (FALLBACK['Single']).
"""
import ast
import extract
from extract import ExtractError, lstr
from extractors import _norm_c20 as N

extract.MODELLED += [("esr/fitting/fit_single.py", None, "single_function"), ("esr/fitting/fit_single.py", None, "fit_from_string")]

# the routines whose order of execution is tabulated (normal-form names)
TRACKED = ("esr.fitting.test_all.optimise_fun", "likelihood.run_sympify", "esr.fitting.test_all_Fisher.convert_params",
           "esr.generation.generator.aifeyn_complexity")
MSE, RP, VB = "likelihood.is_mse", "return_params", "verbose"


def read(stage):
    """-> dict(dl_terms, term_source, call_order, returns, returns_mse, routine_module)"""
    tree = extract._parse(stage, "esr/fitting/fit_single.py")
    fn = extract.find_def(tree, "single_function")
    short = set(t.rsplit(".", 1)[-1] for t in TRACKED)
    reader = N.Reader(tree, fn, strict=lambda name: name in TRACKED or name.rsplit(".", 1)[-1] in short)
    atoms, paths = reader.paths()
    unknown = [a for a in atoms if a not in (MSE, RP, VB)]
    if unknown:
        raise ExtractError("single_function branches on %s (only %s, %s, %s are understood)" % (", ".join(unknown), MSE, RP, VB))
    if MSE not in atoms:
        raise ExtractError("single_function does not branch on %s" % MSE)

    def key(asg, with_verbose):
        k = "mse=%d,params=%d" % (int(asg.get(MSE, False)), int(asg.get(RP, False)))
        return k + (",verbose=%d" % int(asg.get(VB, False)) if with_verbose else "")

    # every path assigns a subset of the atoms (an atom not reached on a path does not influence it)
    rows = {}
    for asg, val, calls, counts in paths:
        if val[0] != "tuple":
            raise ExtractError("single_function returns %s, not a tuple built in the function (conditions %r)" % (N.render(val, counts), asg))
        rows.setdefault(key(asg, False), []).append((asg, val, [c for c in calls if c in TRACKED], counts))
    returns, returns_mse, dls, orders = [], [], [], []
    for k in sorted(rows):
        group = rows[k]
        texts = [[N.render(e, g[3]) for e in g[1][1]] for g in group]
        dep = any(t != texts[0] for t in texts) or any(g[2] != group[0][2] for g in group)
        for g, t in zip(group, texts):
            name = key(g[0], True) if dep else k
            (returns_mse if g[0].get(MSE, False) else returns).append((name, t))
            if not g[0].get(MSE, False):
                if len(g[1][1]) < 2:
                    raise ExtractError("single_function returns fewer than two values on path %s" % name)
                dls.append([N.render(x, g[3]) for x in N.sum_terms(g[1][1][1])])
                orders.append(g[2])
            if not dep:
                break
    if not returns:
        raise ExtractError("single_function: no path with %s false" % MSE)
    # a difference between paths is a fact about the code, not a reading problem: it goes into the table (every row of
    # `returns` is covered by returned_DL_is_dlTerms; the marker below makes call_order fail)
    order = list(orders[0]) if all(o == orders[0] for o in orders) else ["<differs between paths>"] + [" ; ".join(o) for o in orders]
    src = []
    for t in dls[0]:
        if t.endswith("]") and "[" in t:
            src.append((t[:t.rindex("[")], t[t.rindex("[") + 1:-1]))
        elif t.endswith("()"):
            src.append((t[:-2], "all"))
        else:
            src.append((t, "?"))
    mods = []
    for c in orders[0]:
        m, f = c.rsplit(".", 1)
        if (f, m) not in mods:
            mods.append((f, m))
    return dict(dl_terms=dls[0], term_source=src, call_order=order, returns=returns, returns_mse=returns_mse, routine_module=mods)


@extract.extractor("Single")
def gen(stage):
    r = read(stage)
    pair = lambda a, b: "(%s, %s)" % (lstr(a), lstr(b))
    row = lambda k, vs: "(%s, [%s])" % (lstr(k), ", ".join(lstr(v) for v in vs))
    t = extract.header("Single", ["esr/fitting/fit_single.py:single_function"])
    t += "/-- the terms of the returned description length (second returned value, likelihood with a description length), a left-nested sum in source order -/\n"
    t += "def dlTerms : List String := [%s]\n" % ", ".join(lstr(x) for x in r["dl_terms"])
    t += "/-- (routine, index in its result tuple / `all`) each term is -/\n"
    t += "def termSource : List (String × String) := [%s]\n" % ", ".join(pair(a, b) for a, b in r["term_source"])
    t += "/-- (routine, module or parameter it is reached through) for the routines of `callOrder` -/\n"
    t += "def routineModule : List (String × String) := [%s]\n" % ", ".join(pair(a, b) for a, b in r["routine_module"])
    t += "/-- the tracked routines in execution order (same on every path with a description length) -/\n"
    t += "def callOrder : List String := [%s]\n" % ", ".join(lstr(f) for f in r["call_order"])
    t += "/-- per path (flags the function branches on), the returned tuple, element by element -/\n"
    t += "def returns : List (String × List String) := [%s]\n" % ",\n  ".join(row(k, v) for k, v in r["returns"])
    t += "/-- the paths without a description length (`likelihood.is_mse`), not used by a theorem -/\n"
    t += "def returnsMse : List (String × List String) := [%s]\n" % ",\n  ".join(row(k, v) for k, v in r["returns_mse"])
    return t + extract.footer("Single")
