"""Generated/Single.lean: how fit_single.single_function assembles its result (which routines, which sum)."""
import ast
import extract
from extract import ExtractError, lstr

extract.MODELLED += [("esr/fitting/fit_single.py", None, "single_function"), ("esr/fitting/fit_single.py", None, "fit_from_string")]


@extract.extractor("Single")
def gen(stage):
    tree = extract._parse(stage, "esr/fitting/fit_single.py")
    fn = extract.find_def(tree, "single_function")
    imports = {}
    for n in tree.body:
        if isinstance(n, ast.ImportFrom):
            for a in n.names:
                imports[a.asname or a.name] = n.module
        elif isinstance(n, ast.Import):
            for a in n.names:
                imports[a.asname or a.name.split(".")[-1]] = a.name
    dl = None
    calls = []
    for n in ast.walk(fn):
        if isinstance(n, ast.Assign) and len(n.targets) == 1 and ast.unparse(n.targets[0]) == "DL" and isinstance(n.value, ast.BinOp):
            dl = n.value
        if isinstance(n, ast.Call):
            f = ast.unparse(n.func)
            if f in ("optimise_fun", "convert_params", "generator.aifeyn_complexity", "likelihood.run_sympify"):
                calls.append((n.lineno, f))
    if dl is None:
        raise ExtractError("single_function: `DL = ...` sum not found")

    def terms(e):
        if isinstance(e, ast.BinOp) and isinstance(e.op, ast.Add):
            return terms(e.left) + terms(e.right)
        if isinstance(e, ast.Name):
            return [e.id]
        raise ExtractError("single_function: DL is not a sum of names: %s" % ast.unparse(e))

    ts = terms(dl)
    # the returned tuple
    rets = [ast.unparse(r.value) for r in ast.walk(fn) if isinstance(r, ast.Return) and r.value is not None]
    # where the three terms come from
    src = {}
    for n in ast.walk(fn):
        if isinstance(n, ast.Assign) and isinstance(n.value, ast.Call):
            f = ast.unparse(n.value.func)
            for t in n.targets:
                for nm in ([e.id for e in t.elts if isinstance(e, ast.Name)] if isinstance(t, ast.Tuple) else [t.id] if isinstance(t, ast.Name) else []):
                    src[nm] = f
    t = extract.header("Single", ["esr/fitting/fit_single.py:single_function"])
    t += "/-- the terms of `DL = ...` in source order -/\ndef dlTerms : List String := [%s]\n" % ", ".join(lstr(x) for x in ts)
    t += "/-- routine whose result each term is (last assignment in the function) -/\ndef termSource : List (String × String) := [%s]\n" % ", ".join(
        "(%s, %s)" % (lstr(x), lstr(src.get(x, "?"))) for x in ts)
    t += "/-- module each routine is imported from -/\ndef routineModule : List (String × String) := [%s]\n" % ", ".join(
        "(%s, %s)" % (lstr(k), lstr(imports.get(k.split(".")[0], "?"))) for k in ["optimise_fun", "convert_params", "generator"])
    t += "def callOrder : List String := [%s]\n" % ", ".join(lstr(f) for _, f in sorted(calls))
    t += "def returns : List String := [%s]\n" % ", ".join(lstr(r) for r in rets)
    return t + extract.footer("Single")
