"""Self-test of the DirProto translator (C14): behaviour-preserving shapes must give the table of the reference shape,
property-relevant changes must give a different table or an ExtractError.  Not an extractor (underscore prefix).

    /venv/bin/python harness/extractors/_test_dirproto.py      -> prints ALL OK, exit 0
"""
import sys, os, shutil, tempfile, textwrap, re
sys.path.insert(0, os.path.dirname(os.path.dirname(os.path.abspath(__file__))))
import extract
from extractors import dirproto
LK = '''
import os
class Likelihood:
    def __init__(self, data_file, cov_file, run_name, data_dir=None, fn_set='core_maths'):
%s
#EXTRA#
class Sub(Likelihood):
    def __init__(self, a):
        super().__init__(a, a, a)
'''
TA = '''
import os, sys
from mpi4py import MPI
comm = MPI.COMM_WORLD
rank = comm.Get_rank()
size = comm.Get_size()
%s
def get_functions(comp, likelihood, unique=True):
%s
'''
LK0 = '''
        self.like_dir = data_dir + "/fitting/"
        os.makedirs(self.like_dir, exist_ok=True)
'''
GF0 = '''
    if rank == 0:
        for dirname in [likelihood.base_out_dir, likelihood.out_dir, likelihood.temp_dir]:
            if not os.path.isdir(dirname):
                print('Making dir:', dirname)
                os.mkdir(dirname)
    comm.Barrier()
    if rank==0:
        print("Number of cores:", size, flush=True)
'''
SCRATCH = tempfile.mkdtemp(prefix='dirproto_test.', dir=os.environ.get('ESRV_TMP') or None)


def table(lk=LK0, gf=GF0, pre='', lkextra=''):
    d = os.path.join(SCRATCH, 'stage')
    shutil.rmtree(d, ignore_errors=True)
    os.makedirs(d + '/esr/fitting')
    open(d + '/esr/fitting/likelihood.py', 'w').write((LK % textwrap.indent(textwrap.dedent(lk), ' ' * 8)).replace('#EXTRA#', lkextra))
    open(d + '/esr/fitting/test_all.py', 'w').write(TA % (pre, textwrap.indent(textwrap.dedent(gf), ' ' * 4)))
    try:
        t = dirproto.gen(d)
    except extract.ExtractError as e:
        return 'ERR: %s' % e
    return re.search(r'protocols : List Protocol := \[\n(.*?)\n  \]', t, re.S).group(1)
BASE = table()
print(BASE)
ok = True
def same(name, **kw):
    global ok
    t = table(**kw)
    if t != BASE:
        ok = False
        print('FAIL same', name, '\n', t)
    else:
        print('ok same', name)
def differs(name, expect, **kw):
    global ok
    t = table(**kw)
    if t == BASE or expect not in t:
        ok = False
        print('FAIL differs', name, '\n', t)
    else:
        print('ok differs', name, '->', t.replace('\n', ' | ')[:230])

same('continue guard, tuple', gf='''
    if rank == 0:
        for dirname in (likelihood.base_out_dir, likelihood.out_dir, likelihood.temp_dir):
            if os.path.isdir(dirname):
                continue
            print('Making dir:', dirname)
            os.mkdir(dirname)
    comm.Barrier()
''')
same('unrolled duplicates', gf='''
    if rank == 0:
        if not os.path.isdir(likelihood.base_out_dir):
            os.mkdir(likelihood.base_out_dir)
        if not os.path.isdir(likelihood.out_dir):
            os.mkdir(likelihood.out_dir)
        if not os.path.isdir(likelihood.temp_dir):
            os.mkdir(likelihood.temp_dir)
    comm.Barrier()
''')
same('helper module-level + hoisted root + merged print', pre='''
def _ensure_dir(path, verbose=True):
    if os.path.isdir(path):
        return
    if verbose:
        print('Making dir:', path)
    os.mkdir(path)
''', gf='''
    is_root = rank == 0
    if is_root:
        _ensure_dir(likelihood.base_out_dir)
        _ensure_dir(likelihood.out_dir)
        _ensure_dir(path=likelihood.temp_dir)
        print("x")
    if is_root:
        print("y")
    comm.Barrier()
''')
same('nested closure, named tuple, index loop', gf='''
    def mk(d):
        if not os.path.isdir(d):
            print('Making dir:', d)
            os.mkdir(d)
    dirs = (likelihood.base_out_dir, likelihood.out_dir, likelihood.temp_dir)
    if not rank:
        for k in range(len(dirs)):
            mk(dirs[k])
    comm.Barrier()
''')
same('enumerate, else pass, negated rank', gf='''
    dirs = [likelihood.base_out_dir, likelihood.out_dir, likelihood.temp_dir]
    if rank != 0:
        pass
    else:
        for k, d in enumerate(dirs):
            if os.path.isdir(d):
                pass
            else:
                os.mkdir(d)
    comm.Barrier()
''')
same('conjunct rank test inside loop, barrier after loop', gf='''
    for d in (likelihood.base_out_dir, likelihood.out_dir, likelihood.temp_dir):
        if rank == 0 and not os.path.isdir(d):
            os.mkdir(d)
    comm.Barrier()
''')
same('de morgan', gf='''
    for d in (likelihood.base_out_dir, likelihood.out_dir, likelihood.temp_dir):
        if not (rank != 0 or os.path.isdir(d)):
            os.mkdir(d)
    comm.Barrier()
''')
same('hoisted existence test', gf='''
    if 0 == rank:
        for d in (likelihood.base_out_dir, likelihood.out_dir, likelihood.temp_dir):
            present = os.path.isdir(d)
            if not present:
                os.mkdir(d)
    comm.Barrier()
''')
same('helper containing rank test, called by all', pre='''
def _setup_dirs(lik):
    if rank == 0:
        for d in (lik.base_out_dir, lik.out_dir, lik.temp_dir):
            if not os.path.isdir(d):
                os.mkdir(d)
''', gf='''
    _setup_dirs(likelihood)
    comm.Barrier()
''')
same('lk: hoisted local + guarded makedirs + method helper', lk='''
        like_dir = data_dir + "/fitting/"
        self.like_dir = like_dir
        self._mk(like_dir)
''', lkextra='''
    def _mk(self, d):
        if not os.path.isdir(d):
            os.makedirs(d, exist_ok=True)
''')
same('lk: staticmethod', lk='''
        self.like_dir = data_dir + "/fitting/"
        Likelihood._mk(self.like_dir)
''', lkextra='''
    @staticmethod
    def _mk(d):
        os.makedirs(name=d, exist_ok=True)
''')
# ---- must NOT be read as the safe table ---------------------------------------------------------------------------
differs('all ranks check-then-mkdir', 'false, false, [⟨.checkMkdir', gf='''
    for dirname in [likelihood.base_out_dir, likelihood.out_dir, likelihood.temp_dir]:
        if not os.path.isdir(dirname):
            os.mkdir(dirname)
    comm.Barrier()
''')
differs('no barrier', 'true, false', gf=GF0.replace('    comm.Barrier()\n', ''))
differs('barrier after file use', 'true, false', gf='''
    if rank == 0:
        for dirname in [likelihood.base_out_dir, likelihood.out_dir, likelihood.temp_dir]:
            if not os.path.isdir(dirname):
                os.mkdir(dirname)
    f = open(likelihood.out_dir + '/x', 'w')
    comm.Barrier()
''')
differs('barrier only on rank 0', 'true, false', gf='''
    if rank == 0:
        for dirname in [likelihood.base_out_dir, likelihood.out_dir, likelihood.temp_dir]:
            if not os.path.isdir(dirname):
                os.mkdir(dirname)
        comm.Barrier()
''')
differs('unguarded', 'ERR: unguarded', gf='''
    if rank == 0:
        os.mkdir(likelihood.out_dir)
    comm.Barrier()
''')
differs('guard on another dir', 'ERR: unguarded', gf='''
    if rank == 0:
        if not os.path.isdir(likelihood.base_out_dir):
            os.mkdir(likelihood.out_dir)
    comm.Barrier()
''')
differs('guard positive', 'ERR: unguarded', gf='''
    if rank == 0:
        if os.path.isdir(likelihood.out_dir):
            os.mkdir(likelihood.out_dir)
    comm.Barrier()
''')
differs('rank 1 only', 'false, false, [⟨.checkMkdir', gf='''
    if rank == 1:
        if not os.path.isdir(likelihood.out_dir):
            os.mkdir(likelihood.out_dir)
    comm.Barrier()
''')
differs('or-test', 'ERR: unguarded', gf='''
    if rank == 0:
        if unique or not os.path.isdir(likelihood.out_dir):
            os.mkdir(likelihood.out_dir)
    comm.Barrier()
''')
differs('rank0 or X', 'false, false', gf='''
    if rank == 0 or unique:
        if not os.path.isdir(likelihood.out_dir):
            os.mkdir(likelihood.out_dir)
    comm.Barrier()
''')
differs('stale hoisted test', 'ERR: unguarded', gf='''
    if rank == 0:
        e1 = os.path.isdir(likelihood.out_dir)
        os.makedirs(likelihood.out_dir, exist_ok=True)
        if not e1:
            os.mkdir(likelihood.out_dir)
    comm.Barrier()
''')
differs('rebound dir name', 'ERR: unguarded', gf='''
    if rank == 0:
        d = likelihood.out_dir
        if not os.path.isdir(d):
            d = likelihood.temp_dir
            os.mkdir(d)
    comm.Barrier()
''')
differs('two-level helper', 'ERR: helper', pre='''
def _a(p):
    if not os.path.isdir(p):
        os.mkdir(p)
def _b(p):
    _a(p)
''', gf='''
    if rank == 0:
        _b(likelihood.out_dir)
    comm.Barrier()
''')
differs('pathlib', 'ERR: directory creation by', gf='''
    if rank == 0:
        Path(likelihood.out_dir).mkdir(exist_ok=True)
    comm.Barrier()
''')
differs('creation moved away', 'ERR: no directory-creation step found in test_all.get_functions', gf='''
    comm.Barrier()
''')
differs('makedirs without exist_ok all ranks', 'ERR: unguarded', lk='''
        self.like_dir = data_dir + "/fitting/"
        os.makedirs(self.like_dir)
''')
differs('lk check then mkdir', 'false, false, [⟨.checkMkdir', lk='''
        self.like_dir = data_dir + "/fitting/"
        if not os.path.isdir(self.like_dir):
            os.mkdir(self.like_dir)
''')
differs('lk helper check then mkdir', 'false, false, [⟨.checkMkdir', lk='''
        self.like_dir = data_dir + "/fitting/"
        self._mk(self.like_dir)
''', lkextra='''
    def _mk(self, d):
        if os.path.isdir(d):
            return
        os.mkdir(d)
''')
differs('inherited helper in subclass', 'ERR: call of', lk=LK0, lkextra='''
    def _mk(self, d):
        os.mkdir(d)
class Other(Likelihood):
    def __init__(self):
        self._mk("x")
''')
differs('second mkdir under one test', 'ERR: unguarded', gf='''
    if rank == 0:
        if not os.path.isdir(likelihood.out_dir):
            os.mkdir(likelihood.out_dir)
            os.mkdir(likelihood.out_dir)
    comm.Barrier()
''')
differs('while loop non-literal', 'true, true, [⟨.checkMkdir, 0⟩]', gf='''
    if rank == 0:
        for dirname in likelihood.all_dirs:
            if not os.path.isdir(dirname):
                os.mkdir(dirname)
    comm.Barrier()
''')
differs('rank shadowed by local', 'false, false', gf='''
    rank = 0
    if rank == 0:
        if not os.path.isdir(likelihood.out_dir):
            os.mkdir(likelihood.out_dir)
    comm.Barrier()
''')
differs('helper in comprehension', 'ERR: directory creation inside a lambda/comprehension', pre='''
def _a(p):
    if not os.path.isdir(p):
        os.mkdir(p)
''', gf='''
    if rank == 0:
        [_a(d) for d in (likelihood.out_dir,)]
    comm.Barrier()
''')
differs('param rebound in branch', 'ERR: unguarded', gf='''
    if rank == 0:
        if unique:
            likelihood = None
        if not os.path.isdir(likelihood.out_dir):
            likelihood = comp
            os.mkdir(likelihood.out_dir)
    comm.Barrier()
''')
same('local rank via Get_rank', gf='''
    me = comm.Get_rank()
    if me == 0:
        for dirname in [likelihood.base_out_dir, likelihood.out_dir, likelihood.temp_dir]:
            if not os.path.isdir(dirname):
                os.mkdir(dirname)
    comm.Barrier()
''')
same('helper with early return for other ranks', pre='''
def _setup_dirs(lik):
    """doc"""
    if rank != 0:
        return
    for d in (lik.base_out_dir, lik.out_dir, lik.temp_dir):
        if not os.path.isdir(d):
            os.mkdir(d)
''', gf='''
    _setup_dirs(likelihood)
    comm.Barrier()
''')
differs('helper where other ranks open a file', 'true, false', pre='''
def _setup_dirs(lik):
    if rank == 0:
        for d in (lik.base_out_dir, lik.out_dir, lik.temp_dir):
            if not os.path.isdir(d):
                os.mkdir(d)
    else:
        open(lik.out_dir + "/x", "w")
''', gf='''
    _setup_dirs(likelihood)
    comm.Barrier()
''')
shutil.rmtree(SCRATCH, ignore_errors=True)
print('ALL OK' if ok else 'SOME FAILED')
sys.exit(0 if ok else 1)
