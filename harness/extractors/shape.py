"""Generated/Shape.lean: the pre-filter rules of get_allowed_shapes and the operator bases of duplicate_checker.main."""
import ast
import extract
from extract import ExtractError, lstr, llist

extract.MODELLED += [
    ("esr/generation/generator.py", None, "check_tree"),
    ("esr/generation/generator.py", None, "get_allowed_shapes"),
    ("esr/generation/generator.py", None, "shape_to_functions"),
    ("esr/generation/generator.py", None, "generate_equations"),
]


def _prefilter_from_assign(node, guard):
    """cand = cand[cand[:,C] REL K]  ->  (guard, col, ne, const)"""
    if not (isinstance(node, ast.Assign) and len(node.targets) == 1 and isinstance(node.targets[0], ast.Name)
            and node.targets[0].id == "cand" and isinstance(node.value, ast.Subscript)
            and isinstance(node.value.value, ast.Name) and node.value.value.id == "cand"):
        return None
    cmp_ = node.value.slice
    if not (isinstance(cmp_, ast.Compare) and len(cmp_.ops) == 1 and isinstance(cmp_.left, ast.Subscript)):
        return None
    sub = cmp_.left
    if not (isinstance(sub.value, ast.Name) and sub.value.id == "cand" and isinstance(sub.slice, ast.Tuple) and len(sub.slice.elts) == 2):
        raise ExtractError("prefilter: unexpected index at line %d" % node.lineno)
    first, col = sub.slice.elts
    if not (isinstance(first, ast.Slice) and first.lower is None and first.upper is None):
        raise ExtractError("prefilter: row index is not ':' at line %d" % node.lineno)
    try:
        c = ast.literal_eval(col)
    except Exception:
        raise ExtractError("prefilter: column not a literal at line %d" % node.lineno)
    colname = {0: "first", -1: "last", -2: "penult"}.get(c)
    if colname is None:
        raise ExtractError("prefilter: column %r not modelled (line %d)" % (c, node.lineno))
    op = cmp_.ops[0]
    if isinstance(op, ast.NotEq):
        ne = True
    elif isinstance(op, ast.Eq):
        ne = False
    else:
        raise ExtractError("prefilter: relation %s not modelled (line %d)" % (type(op).__name__, node.lineno))
    try:
        k = ast.literal_eval(cmp_.comparators[0])
        assert isinstance(k, int) and k >= 0
    except Exception:
        raise ExtractError("prefilter: constant not a natural literal at line %d" % node.lineno)
    return (guard, colname, ne, k, node.lineno)


def _guard(test):
    """`compl > 1` or `cand.shape[1] > 1`  -> strict lower bound on the string length"""
    if isinstance(test, ast.Compare) and len(test.ops) == 1 and isinstance(test.ops[0], ast.Gt):
        try:
            k = ast.literal_eval(test.comparators[0])
        except Exception:
            raise ExtractError("prefilter guard: bound not literal")
        l = test.left
        if isinstance(l, ast.Name) and l.id == "compl":
            return k
        if ast.unparse(l) == "cand.shape[1]":
            return k
    raise ExtractError("prefilter guard not recognised: %s" % ast.unparse(test))


def prefilters(stage):
    fn = extract.find_def(extract._parse(stage, "esr/generation/generator.py"), "get_allowed_shapes")
    # the rank==0 block
    blk = None
    for n in fn.body:
        if isinstance(n, ast.If) and ast.unparse(n.test) == "rank == 0":
            blk = n.body
    if blk is None:
        raise ExtractError("get_allowed_shapes: `if rank == 0` block not found")
    rules = []
    seen_product = False
    for n in blk:
        if isinstance(n, ast.Assign) and "itertools.product('012', repeat=compl)" in ast.unparse(n.value):
            seen_product = True
            continue
        r = _prefilter_from_assign(n, 0)
        if r:
            rules.append(r); continue
        if isinstance(n, ast.If) and len(n.body) == 1 and not n.orelse:
            r = _prefilter_from_assign(n.body[0], None)
            if r:
                rules.append((_guard(n.test),) + r[1:]); continue
        if isinstance(n, ast.Assign) and isinstance(n.targets[0], ast.Name) and n.targets[0].id == "msk":
            break
        if isinstance(n, ast.Expr) and isinstance(n.value, ast.Constant):
            continue
        raise ExtractError("get_allowed_shapes: unrecognised statement before the mask loop at line %d: %s" % (n.lineno, ast.unparse(n)[:60]))
    if not seen_product:
        raise ExtractError("get_allowed_shapes: candidate product over '012' not found")
    return rules


def bases(stage):
    fn = extract.find_def(extract._parse(stage, "esr/generation/duplicate_checker.py"), "main")
    out = []
    node = None
    for n in fn.body:
        if isinstance(n, ast.If) and "runname ==" in ast.unparse(n.test):
            node = n; break
    if node is None:
        raise ExtractError("duplicate_checker.main: runname if-chain not found")
    while node is not None:
        t = node.test
        if isinstance(t, ast.Compare) and isinstance(t.left, ast.Name) and t.left.id == "runname" and isinstance(t.ops[0], ast.Eq):
            name = ast.literal_eval(t.comparators[0])
            if not (len(node.body) == 1 and isinstance(node.body[0], ast.Assign) and node.body[0].targets[0].id == "basis_functions"):
                raise ExtractError("basis branch %r has an unexpected body" % name)
            b = ast.literal_eval(node.body[0].value)
            if not (isinstance(b, list) and len(b) == 3 and all(isinstance(c, list) and all(isinstance(x, str) for x in c) for c in b)):
                raise ExtractError("basis %r is not three lists of strings" % name)
            out.append((name, b, node.lineno))
        elif "ESR_VERIF" in ast.unparse(t):
            pass                                    # the guarded verification hook
        else:
            raise ExtractError("unrecognised runname branch: %s" % ast.unparse(t))
        node = node.orelse[0] if (len(node.orelse) == 1 and isinstance(node.orelse[0], ast.If)) else None
    return out


@extract.extractor("Shape")
def gen(stage):
    rules = prefilters(stage)
    bs = bases(stage)
    t = extract.header("Shape", ["esr/generation/generator.py:get_allowed_shapes", "esr/generation/duplicate_checker.py:main"])
    t += "inductive Col where | first | last | penult deriving Repr, DecidableEq\n"
    t += ("/-- `cand = cand[cand[:,col] REL const]`, applied when the string length is > minLenExcl. -/\n"
          "structure Prefilter where\n  minLenExcl : Nat\n  col : Col\n  ne : Bool\n  const : Nat\n  deriving Repr, DecidableEq\n\n")
    t += "def prefilters : List Prefilter := [\n"
    for k_, (g, c, ne, k, ln) in enumerate(rules):
        t += "  ⟨%d, .%s, %s, %d⟩%s  -- generator.py:%d\n" % (g, c, "true" if ne else "false", k, "," if k_ + 1 < len(rules) else "", ln)
    t += "  ]\n\n"
    t += "structure Basis where\n  name : String\n  nullary : List String\n  unary : List String\n  binary : List String\n  deriving Repr, DecidableEq\n\n"
    t += "def bases : List Basis := [\n"
    t += ",\n".join("  ⟨%s, %s, %s, %s⟩" % (lstr(n), llist(map(lstr, b[0])), llist(map(lstr, b[1])), llist(map(lstr, b[2]))) for n, b, ln in bs)
    t += "\n  ]\n"
    t += extract.footer("Shape")
    return t
