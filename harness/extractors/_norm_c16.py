"""AST normalisation and local value flow shared by the C16 extractors (effects.py, memstate.py).  Not an extractor itself
(underscore prefix: not auto-loaded).  Everything here is part of the trusted translator.

A. `inline_helpers(module tree)`  -- ONE level of helper inlining (a copy of the tree is returned, the input is untouched).
   A statement  `T = h(args)` / `h(args)` / `return h(args)`  in a function `g` is replaced by the body of `h` when
     * `h` is a module-level function of the same module whose name starts with one underscore (defined once, never
       re-bound at module level), or a closure defined once at the top level of `g` before the statement (never re-bound);
       `g` does not otherwise bind the name `h`;
     * `h` has no decorator, no *args/**kwargs, only constant defaults (numbers, strings, None, booleans, tuples of those;
       a default OBJECT would be state shared between calls and is never inlined);
     * the body of `h` (docstring dropped) holds no `return` except as its last top-level statement, no yield/await,
       global/nonlocal, nested def/class/lambda, import, match, walrus, and no call of locals/globals/vars/eval/exec/dir/super;
       `h` does not call itself;
     * the call has no *x/**x argument and no walrus, and binds every parameter;
     * (module-level `h`) no global name read by `h` is a local name of `g` (it would be captured).
   Rewrite: every local name of `h` (parameters, assigned names, loop/with/except/comprehension targets) gets a fresh
   prefix; a parameter that `h` never re-binds and whose argument is a constant, or a local name of `g` (which nothing but
   `g`'s own statements can re-bind; `g` must hold no `nonlocal` and not declare the name `global`), is replaced by the argument itself; every other
   parameter becomes `fresh = argument`, in call order (positional, then keywords as written, then defaults), before the
   body; the final `return e` becomes `T = e` / `e` / `return e`  (`T = None` when `h` returns nothing).
   Python semantics kept: order of evaluation of the arguments, of the body and of the returned expression; every name
   resolves to the object it resolved to in the call (locals renamed apart, globals shared because same module, closure
   variables late-bound in `g`'s scope exactly where the call was).  Not kept (not observable by ESR): the traceback of
   an exception, the frame depth, `h.__defaults__` look-up at call time.
   A helper that does not satisfy the conditions is left as a call: the analyses then treat it as any other callee and fail
   closed where they cannot (memstate: a returned alias of a mutable cell that is not a plain name; see there).

B. `stmts_in_order(fn)`, `calls_in_order(fn)`  -- statements / calls of a function in execution order of the source
   (inlined blocks in place), replacing comparisons of line numbers.

C. `KeyFlow(fn)`  -- flow-insensitive facts about the names of one function, used to recognise the registration of the
   parameter symbols in the shared sympy symbol table however the loop is written:
     key expression   "a3", "a%i" % e, "a%d" % e, f"a{e}", "a{}".format(e), "a" + str(e), a key NAME, L[e] for a key LIST L
     key list         [k for ...] / tuple(...)/list(...)/sorted(...) of a generator whose element is a key expression, a display of
                      key expressions, [] and (), list(L)/tuple(L)/sorted(L)/L[a:b]/L1 if c else L2 of key lists, a key-list name
     key-list name    every binding of the name in the function is `name = <key list>` (also pairwise `a, b = x, y`) and neither the
                      name nor a name assigned from it is the receiver of a mutating method, of a subscript store/delete or of an
                      augmented assignment
     key name         every binding is `name = <key expression>` or the name iterates a key list: `for name in L`,
                      `for name, v in zip(L, V)` (position-wise), `for i, name in enumerate(L)`, the same in comprehensions
     key pairs        zip(L, V), {k: v for ...}/{k: v, ...} with key expressions as keys, a list/generator of 2-tuples
                      whose first component is a key expression, dict(<key pairs>)
   `D.update(<key pairs>)` on a dict `D` is then the same as the loop `for k, v in <pairs>: D[k] = v` (dict.update of an
   iterable of pairs / of a dict assigns item by item, in order), i.e. a store into a<i> keys only.
   What is claimed is only the FORM of the keys written (as before for `D["a%i" % i] = ...`); that no other key of the
   table changes is observed on every run (memory fingerprints of the table without its a<i> keys).
"""
import ast, copy, re

MUTATING_METHODS = {"append", "extend", "insert", "pop", "remove", "sort", "reverse", "clear", "__setitem__", "__delitem__", "__iadd__"}
_FORBIDDEN_CALLS = {"locals", "globals", "vars", "eval", "exec", "dir", "super", "__import__"}
_FORBIDDEN_NODES = (ast.Yield, ast.YieldFrom, ast.Await, ast.Global, ast.Nonlocal, ast.FunctionDef, ast.AsyncFunctionDef, ast.ClassDef, ast.Lambda,
                    ast.Import, ast.ImportFrom, ast.NamedExpr) + ((ast.Match,) if hasattr(ast, "Match") else ())


# ----------------------------------------------------------------------------------------------------------------------
# A. helper inlining

def _strip_doc(body):
    if body and isinstance(body[0], ast.Expr) and isinstance(body[0].value, ast.Constant) and isinstance(body[0].value.value, str):
        return body[1:]
    return body


def _const_default(e):
    if isinstance(e, ast.Constant):
        return True
    if isinstance(e, ast.UnaryOp) and isinstance(e.op, (ast.USub, ast.UAdd)) and isinstance(e.operand, ast.Constant):
        return True
    if isinstance(e, ast.Tuple):
        return all(_const_default(x) for x in e.elts)
    return False


def _bound_names(fn):
    """names bound in the scope of fn (parameters included; bodies of nested def/class/lambda excluded, comprehension targets included)"""
    out = set()
    a = fn.args
    for x in a.posonlyargs + a.args + a.kwonlyargs + ([a.vararg] if a.vararg else []) + ([a.kwarg] if a.kwarg else []):
        out.add(x.arg)

    def rec(n):
        if isinstance(n, (ast.FunctionDef, ast.AsyncFunctionDef, ast.ClassDef)):
            out.add(n.name)
            return
        if isinstance(n, ast.Lambda):
            return
        if isinstance(n, ast.Name) and isinstance(n.ctx, (ast.Store, ast.Del)):
            out.add(n.id)
        elif isinstance(n, ast.ExceptHandler) and n.name:
            out.add(n.name)
        elif isinstance(n, (ast.Import, ast.ImportFrom)):
            for al in n.names:
                out.add((al.asname or al.name).split(".")[0])
        for c in ast.iter_child_nodes(n):
            rec(c)
    for st in fn.body:
        rec(st)
    return out


def _helper_ok(h):
    """None when `h` may be inlined, else the reason"""
    if isinstance(h, ast.AsyncFunctionDef) or h.decorator_list:
        return "decorated/async"
    a = h.args
    if a.vararg or a.kwarg:
        return "*args/**kwargs"
    for d in list(a.defaults) + [k for k in a.kw_defaults if k is not None]:
        if not _const_default(d):
            return "default object"
    body = _strip_doc(h.body)
    for i, st in enumerate(body):
        last = (i == len(body) - 1)
        for n in ast.walk(st):
            if isinstance(n, _FORBIDDEN_NODES):
                return type(n).__name__
            if isinstance(n, ast.Return) and not (last and n is st):
                return "return inside the body"
            if isinstance(n, ast.Call) and isinstance(n.func, ast.Name) and (n.func.id in _FORBIDDEN_CALLS or n.func.id == h.name):
                return "call of %s" % n.func.id
            if isinstance(n, ast.Name) and n.id in ("__class__",):
                return "__class__"
    return None


def _bind(h, call):
    """[(param, argument expr or default expr, is_default)] in evaluation order, or None"""
    if any(isinstance(x, ast.Starred) for x in call.args) or any(k.arg is None for k in call.keywords):
        return None
    if any(isinstance(n, ast.NamedExpr) for x in list(call.args) + [k.value for k in call.keywords] for n in ast.walk(x)):
        return None
    a = h.args
    pos = a.posonlyargs + a.args
    if len(call.args) > len(pos):
        return None
    got, order = {}, []
    for p, v in zip(pos, call.args):
        got[p.arg] = v; order.append((p.arg, v, False))
    names = [p.arg for p in a.args + a.kwonlyargs]
    for k in call.keywords:
        if k.arg not in names or k.arg in got:
            return None
        got[k.arg] = k.value; order.append((k.arg, k.value, False))
    dpos = dict(zip([p.arg for p in pos[len(pos) - len(a.defaults):]], a.defaults))
    for p in pos:
        if p.arg not in got:
            if p.arg not in dpos:
                return None
            order.append((p.arg, dpos[p.arg], True))
    for p, d in zip(a.kwonlyargs, a.kw_defaults):
        if p.arg not in got:
            if d is None:
                return None
            order.append((p.arg, d, True))
    return order


class _Rename(ast.NodeTransformer):
    def __init__(self, mapping):
        self.mapping = mapping          # name -> replacement expression (ast.Name / ast.Constant)

    def visit_Name(self, n):
        r = self.mapping.get(n.id)
        if r is None:
            return n
        if isinstance(r, ast.Name):
            return ast.copy_location(ast.Name(id=r.id, ctx=n.ctx), n)
        if isinstance(n.ctx, ast.Load):
            return ast.copy_location(copy.deepcopy(r), n)
        raise AssertionError("store into a substituted parameter")

    def visit_ExceptHandler(self, n):
        self.generic_visit(n)
        r = self.mapping.get(n.name) if n.name else None
        if r is not None:
            n.name = r.id
        return n


def _rebound_in(h, name):
    for n in ast.walk(ast.Module(body=_strip_doc(h.body), type_ignores=[])):
        if isinstance(n, ast.Name) and n.id == name and isinstance(n.ctx, (ast.Store, ast.Del)):
            return True
        if isinstance(n, ast.ExceptHandler) and n.name == name:
            return True
    return False


class _Inliner(object):
    def __init__(self, module):
        self.module = module
        self.report = []
        self.top = {}
        counts = {}
        for n in ast.walk(ast.Module(body=[s for s in module.body if not isinstance(s, (ast.FunctionDef, ast.AsyncFunctionDef, ast.ClassDef))], type_ignores=[])):
            if isinstance(n, ast.Name) and isinstance(n.ctx, (ast.Store, ast.Del)):
                counts[n.id] = counts.get(n.id, 0) + 2
            elif isinstance(n, (ast.FunctionDef, ast.AsyncFunctionDef, ast.ClassDef)):
                counts[n.name] = counts.get(n.name, 0) + 2
            elif isinstance(n, (ast.Import, ast.ImportFrom)):
                for al in n.names:
                    x = (al.asname or al.name).split(".")[0]
                    counts[x] = counts.get(x, 0) + 2
        for s in module.body:
            if isinstance(s, (ast.FunctionDef, ast.AsyncFunctionDef, ast.ClassDef)):
                counts[s.name] = counts.get(s.name, 0) + 1
        for s in module.body:
            if isinstance(s, ast.FunctionDef) and counts.get(s.name) == 1 and re.match(r"^_[A-Za-z0-9][A-Za-z0-9_]*$", s.name) and _helper_ok(s) is None:
                self.top[s.name] = s
        # a module-level `global h` rebinding from inside some function
        for n in ast.walk(module):
            if isinstance(n, ast.Global):
                for x in n.names:
                    self.top.pop(x, None)

    def run(self):
        for s in self.module.body:
            if isinstance(s, ast.FunctionDef):
                self.caller(s)
            elif isinstance(s, ast.ClassDef):
                for b in s.body:
                    if isinstance(b, ast.FunctionDef):
                        self.caller(b)
        ast.fix_missing_locations(self.module)
        return self.module

    def caller(self, g):
        self.g = g
        self.glocals = _bound_names(g)
        self.g_has_nonlocal = any(isinstance(n, ast.Nonlocal) for n in ast.walk(g))
        self.g_globals = {x for n in ast.walk(g) if isinstance(n, ast.Global) for x in n.names}
        self.k = 0
        # closures: defined once at the top level of g, never otherwise bound
        self.closures = {}
        stores = {}
        for n in ast.walk(g):
            if n is g:
                continue
            if isinstance(n, ast.Name) and isinstance(n.ctx, (ast.Store, ast.Del)):
                stores[n.id] = stores.get(n.id, 0) + 1
            elif isinstance(n, (ast.FunctionDef, ast.AsyncFunctionDef, ast.ClassDef)):
                stores[n.name] = stores.get(n.name, 0) + 1
            elif isinstance(n, ast.arg):
                stores[n.arg] = stores.get(n.arg, 0) + 1
        for i, s in enumerate(g.body):
            if isinstance(s, ast.FunctionDef) and stores.get(s.name) == 1 and _helper_ok(s) is None:
                self.closures[s.name] = (s, i)
        g.body = self.block(g.body, top_index=True)

    def block(self, body, top_index=False):
        out = []
        for i, st in enumerate(body):
            self.pos = i if top_index else None
            rep = self.try_stmt(st, i if top_index else None)
            if rep is not None:
                out.extend(rep)
                continue
            if not isinstance(st, (ast.FunctionDef, ast.AsyncFunctionDef, ast.ClassDef)):
                for f in ("body", "orelse", "finalbody"):
                    if isinstance(getattr(st, f, None), list) and getattr(st, f) and isinstance(getattr(st, f)[0], ast.stmt):
                        setattr(st, f, self.block(getattr(st, f)))
                for h in getattr(st, "handlers", []) or []:
                    h.body = self.block(h.body)
                for c in getattr(st, "cases", []) or []:
                    c.body = self.block(c.body)
            out.append(st)
        return out

    def resolve(self, name, top_pos):
        if name in self.closures:
            return self.closures[name][0], True
        if name in self.top and name not in self.glocals:
            return self.top[name], False
        return None, False

    def try_stmt(self, st, top_pos):
        if isinstance(st, ast.Assign) and isinstance(st.value, ast.Call):
            call, kind = st.value, "assign"
        elif isinstance(st, ast.Expr) and isinstance(st.value, ast.Call):
            call, kind = st.value, "expr"
        elif isinstance(st, ast.Return) and isinstance(st.value, ast.Call):
            call, kind = st.value, "return"
        else:
            return None
        if not isinstance(call.func, ast.Name):
            return None
        h, closure = self.resolve(call.func.id, top_pos)
        if h is None or h is self.g:
            return None
        if closure and not self._defined_before(h, st):
            return None
        order = _bind(h, call)
        if order is None:
            return None
        hlocals = _bound_names(h)
        body = _strip_doc(h.body)
        if not closure:
            free = {n.id for s in body for n in ast.walk(s) if isinstance(n, ast.Name) and n.id not in hlocals}
            free |= {n.id for _, v, isdef in order if isdef for n in ast.walk(v) if isinstance(n, ast.Name)}
            if free & self.glocals:
                return None
        self.k += 1
        prefix = "_inl%d_%s_" % (self.k, h.name.strip("_"))
        while any(x.startswith(prefix) for x in self.glocals):
            self.k += 1
            prefix = "_inl%d_%s_" % (self.k, h.name.strip("_"))
        mapping = {x: ast.Name(id=prefix + x, ctx=ast.Load()) for x in hlocals}
        pre = []
        for p, v, isdef in order:
            direct = False
            if not _rebound_in(h, p):
                if isinstance(v, ast.Constant) or (isdef and _const_default(v)):
                    direct = True
                elif isinstance(v, ast.Name) and v.id in self.glocals and v.id not in self.g_globals and not self.g_has_nonlocal and not isdef:
                    direct = True
            if direct:
                mapping[p] = copy.deepcopy(v)
            else:
                t = ast.Assign(targets=[ast.Name(id=prefix + p, ctx=ast.Store())], value=copy.deepcopy(v))
                pre.append(ast.copy_location(t, st))
        new = []
        ret = None
        for s in body:
            s2 = _Rename(mapping).visit(copy.deepcopy(s))
            if isinstance(s2, ast.Return):
                ret = s2.value if s2.value is not None else ast.Constant(value=None)
                continue
            new.append(s2)
        if ret is None:
            ret = ast.Constant(value=None)
        if kind == "assign":
            fin = ast.Assign(targets=st.targets, value=ret)
        elif kind == "return":
            fin = ast.Return(value=ret)
        else:
            fin = ast.Expr(value=ret)
        fin = ast.copy_location(fin, st)
        if not hasattr(ret, "lineno"):
            ast.copy_location(ret, st)
        self.glocals |= {prefix + x for x in hlocals}
        self.report.append((self.g.name, h.name, st.lineno))
        out = pre + new + [fin]
        for s in out:
            s._inlined_from = h.name
        return out

    def _defined_before(self, h, st):
        """the closure's def statement precedes (at the top level of g) the top-level statement that holds `st`"""
        idx = self.closures[h.name][1]
        for i, s in enumerate(self.g.body):
            if s is st or any(n is st for n in ast.walk(s)):
                return idx < i
        return False


def inline_helpers(tree):
    """-> (normalised copy of the module tree, [(caller, helper, line)])"""
    t = copy.deepcopy(tree)
    inl = _Inliner(t)
    inl.run()
    return t, inl.report


# ----------------------------------------------------------------------------------------------------------------------
# B. source order

def stmts_in_order(fn):
    """every statement of fn (nested blocks included, nested defs included as one statement and then their bodies), in source order"""
    out = []

    def rec(body):
        for st in body:
            out.append(st)
            for f in ("body", "orelse"):
                b = getattr(st, f, None)
                if isinstance(b, list) and b and isinstance(b[0], ast.stmt):
                    rec(b)
            for h in getattr(st, "handlers", []) or []:
                rec(h.body)
            b = getattr(st, "finalbody", None)
            if b:
                rec(b)
            for c in getattr(st, "cases", []) or []:
                rec(c.body)
    rec(fn.body)
    return out


def _own_exprs(st):
    """expressions evaluated by the statement itself (not by the statements of its nested blocks)"""
    if isinstance(st, (ast.FunctionDef, ast.AsyncFunctionDef)):
        return list(st.decorator_list) + list(st.args.defaults) + [k for k in st.args.kw_defaults if k is not None]
    if isinstance(st, ast.ClassDef):
        return list(st.decorator_list) + list(st.bases) + [k.value for k in st.keywords]
    if isinstance(st, (ast.For, ast.AsyncFor)):
        return [st.iter, st.target]
    if isinstance(st, (ast.While, ast.If)):
        return [st.test]
    if isinstance(st, (ast.With, ast.AsyncWith)):
        return [x for it in st.items for x in ([it.context_expr] + ([it.optional_vars] if it.optional_vars is not None else []))]
    if isinstance(st, ast.Try) or (hasattr(ast, "TryStar") and isinstance(st, ast.TryStar)):
        return [h.type for h in st.handlers if h.type is not None]
    if hasattr(ast, "Match") and isinstance(st, ast.Match):
        return [st.subject]
    return [st]


def calls_in_order(fn):
    """[(index of the enclosing statement in stmts_in_order, Call)] in source order"""
    out = []
    for i, st in enumerate(stmts_in_order(fn)):
        cs = []
        for e in _own_exprs(st):
            cs += [n for n in ast.walk(e) if isinstance(n, ast.Call)]
        cs.sort(key=lambda c: (getattr(c, "lineno", 0), getattr(c, "col_offset", 0)))
        out += [(i, c) for c in cs]
    return out


# ----------------------------------------------------------------------------------------------------------------------
# C. key flow

_AKEY_CONST = re.compile(r"^a\d+$")


def _call_name(e):
    return e.func.id if isinstance(e, ast.Call) and isinstance(e.func, ast.Name) else None


class KeyFlow(object):
    def __init__(self, fn):
        self.fn = fn
        self.bind = {}       # name -> [("assign", expr) | ("elem", expr) | ("other",)]
        self.spoiled = set() # names mutated in place
        self.collect()
        # a list mutated through an alias (`other = names; other.append(..)`) is mutated itself
        grew = True
        while grew:
            grew = False
            for name in list(self.spoiled):
                for b in self.bind.get(name, []):
                    if b[0] == "assign":
                        for n in ast.walk(b[1]):
                            if isinstance(n, ast.Name) and n.id not in self.spoiled:
                                self.spoiled.add(n.id); grew = True
        self.klists, self.knames = set(), set()
        changed = True
        while changed:
            changed = False
            for name, bs in self.bind.items():
                if name in self.spoiled or not bs:
                    continue
                if name not in self.klists and all(b[0] == "assign" and self.is_klist(b[1]) for b in bs):
                    self.klists.add(name); changed = True
                if name not in self.knames and all((b[0] == "assign" and self.is_key(b[1])) or (b[0] == "elem" and self.is_klist(b[1])) for b in bs):
                    self.knames.add(name); changed = True

    # -- bindings
    def add(self, name, b):
        self.bind.setdefault(name, []).append(b)

    def bind_target(self, t, b):
        if isinstance(t, ast.Name):
            self.add(t.id, b)
        elif isinstance(t, (ast.Tuple, ast.List)):
            if b[0] == "assign" and isinstance(b[1], (ast.Tuple, ast.List)) and len(b[1].elts) == len(t.elts) \
                    and not any(isinstance(x, ast.Starred) for x in list(t.elts) + list(b[1].elts)):
                for x, v in zip(t.elts, b[1].elts):
                    self.bind_target(x, ("assign", v))
            else:
                for x in t.elts:
                    self.bind_target(x.value if isinstance(x, ast.Starred) else x, ("other",))
        elif isinstance(t, ast.Starred):
            self.bind_target(t.value, ("other",))
        elif isinstance(t, (ast.Subscript, ast.Attribute)):
            if isinstance(t, ast.Subscript) and isinstance(t.value, ast.Name):
                self.spoiled.add(t.value.id)

    def bind_iter(self, target, it):
        """`for target in it` / comprehension generator"""
        nm = _call_name(it)
        if nm == "zip" and isinstance(target, (ast.Tuple, ast.List)) and len(target.elts) == len(it.args) and not it.keywords \
                and not any(isinstance(x, ast.Starred) for x in list(target.elts) + list(it.args)):
            for x, a in zip(target.elts, it.args):
                self.bind_target(x, ("elem", a)) if isinstance(x, ast.Name) else self.bind_target(x, ("other",))
        elif nm == "enumerate" and isinstance(target, (ast.Tuple, ast.List)) and len(target.elts) == 2 and it.args and not isinstance(it.args[0], ast.Starred):
            self.bind_target(target.elts[0], ("other",))
            self.bind_target(target.elts[1], ("elem", it.args[0])) if isinstance(target.elts[1], ast.Name) else self.bind_target(target.elts[1], ("other",))
        elif isinstance(target, ast.Name):
            self.add(target.id, ("elem", it))
        else:
            self.bind_target(target, ("other",))

    def collect(self):
        a = self.fn.args
        for x in a.posonlyargs + a.args + a.kwonlyargs + ([a.vararg] if a.vararg else []) + ([a.kwarg] if a.kwarg else []):
            self.add(x.arg, ("other",))
        for n in ast.walk(self.fn):
            if n is self.fn:
                continue
            if isinstance(n, ast.Assign):
                for t in n.targets:
                    self.bind_target(t, ("assign", n.value))
            elif isinstance(n, ast.AnnAssign):
                self.bind_target(n.target, ("assign", n.value) if n.value is not None else ("other",))
            elif isinstance(n, ast.AugAssign):
                self.bind_target(n.target, ("other",))
                if isinstance(n.target, ast.Name):
                    self.spoiled.add(n.target.id)
            elif isinstance(n, (ast.For, ast.AsyncFor)):
                self.bind_iter(n.target, n.iter)
            elif isinstance(n, ast.comprehension):
                self.bind_iter(n.target, n.iter)
            elif isinstance(n, (ast.With, ast.AsyncWith)):
                for it in n.items:
                    if it.optional_vars is not None:
                        self.bind_target(it.optional_vars, ("other",))
            elif isinstance(n, ast.NamedExpr):
                self.bind_target(n.target, ("assign", n.value))
            elif isinstance(n, ast.ExceptHandler) and n.name:
                self.add(n.name, ("other",))
            elif isinstance(n, (ast.FunctionDef, ast.AsyncFunctionDef, ast.ClassDef)):
                self.add(n.name, ("other",))
            elif isinstance(n, ast.arg):
                self.add(n.arg, ("other",))
            elif isinstance(n, (ast.Import, ast.ImportFrom)):
                for al in n.names:
                    self.add((al.asname or al.name).split(".")[0], ("other",))
            elif isinstance(n, ast.Delete):
                for t in n.targets:
                    if isinstance(t, ast.Name):
                        self.add(t.id, ("other",))
                    elif isinstance(t, ast.Subscript) and isinstance(t.value, ast.Name):
                        self.spoiled.add(t.value.id)
            elif isinstance(n, ast.Call) and isinstance(n.func, ast.Attribute) and isinstance(n.func.value, ast.Name) and n.func.attr in MUTATING_METHODS:
                self.spoiled.add(n.func.value.id)
            elif isinstance(n, (ast.Global, ast.Nonlocal)):
                for x in n.names:
                    self.add(x, ("other",))

    # -- predicates
    def is_key(self, s):
        if isinstance(s, ast.Constant) and isinstance(s.value, str):
            return bool(_AKEY_CONST.match(s.value))
        if isinstance(s, ast.Name):
            return s.id in self.knames
        if isinstance(s, ast.BinOp) and isinstance(s.op, ast.Mod) and isinstance(s.left, ast.Constant) and isinstance(s.left.value, str):
            return bool(re.match(r"^a%[id]$", s.left.value)) and not (isinstance(s.right, ast.Tuple) and len(s.right.elts) != 1)
        if isinstance(s, ast.BinOp) and isinstance(s.op, ast.Add) and isinstance(s.left, ast.Constant) and s.left.value == "a" \
                and _call_name(s.right) == "str" and len(s.right.args) == 1:
            return True
        if isinstance(s, ast.JoinedStr) and len(s.values) == 2 and isinstance(s.values[0], ast.Constant) and s.values[0].value == "a" \
                and isinstance(s.values[1], ast.FormattedValue):
            return True
        if isinstance(s, ast.Call) and isinstance(s.func, ast.Attribute) and s.func.attr == "format" and isinstance(s.func.value, ast.Constant) \
                and s.func.value.value in ("a{}", "a{0}", "a{:d}") and len(s.args) == 1 and not s.keywords:
            return True
        if isinstance(s, ast.Subscript) and not isinstance(s.slice, ast.Slice) and self.is_klist(s.value):
            return True
        return False

    def is_klist(self, v, gen=False):
        """`gen`: a generator expression is accepted (only where it is consumed on the spot: a generator bound to a name could be
        exhausted by an earlier use)"""
        if isinstance(v, ast.Name):
            return v.id in self.klists
        if isinstance(v, (ast.List, ast.Tuple)):
            return all(self.is_key(x) for x in v.elts)
        if isinstance(v, ast.ListComp) or (gen and isinstance(v, ast.GeneratorExp)):
            return self.is_key(v.elt)
        if isinstance(v, ast.IfExp):
            return self.is_klist(v.body, gen) and self.is_klist(v.orelse, gen)
        if isinstance(v, ast.Subscript) and isinstance(v.slice, ast.Slice):
            return self.is_klist(v.value)
        if _call_name(v) in ("list", "tuple", "sorted") and len(v.args) == 1 and not v.keywords:
            return self.is_klist(v.args[0], True)
        return False

    def is_kpairs(self, v):
        if _call_name(v) == "zip" and len(v.args) == 2 and not v.keywords and not any(isinstance(x, ast.Starred) for x in v.args):
            return self.is_klist(v.args[0], True)
        if isinstance(v, ast.DictComp):
            return self.is_key(v.key)
        if isinstance(v, ast.Dict):
            return all(k is not None and self.is_key(k) for k in v.keys)
        if isinstance(v, (ast.ListComp, ast.GeneratorExp)):
            return isinstance(v.elt, ast.Tuple) and len(v.elt.elts) == 2 and self.is_key(v.elt.elts[0])
        if _call_name(v) == "dict" and len(v.args) == 1 and not v.keywords:
            return self.is_kpairs(v.args[0])
        return False

    def update_of_keys(self, call):
        """`X.update(<key pairs>)`: returns the receiver expression X, else None"""
        if isinstance(call, ast.Call) and isinstance(call.func, ast.Attribute) and call.func.attr == "update" and len(call.args) == 1 \
                and not call.keywords and not isinstance(call.args[0], ast.Starred) and self.is_kpairs(call.args[0]):
            return call.func.value
        return None
