"""Extractor `Subs` (C17, shared with C05/C03): from esr/generation/simplifier.py and duplicate_checker.py

* the construction of `all_dup` in `get_all_dup` (one entry per `all_dup = / +=` statement, the comprehension variable,
  the dict it builds, and the `comb` expression),
* the `.replace(a, b)` sequence of `load_subs`, the literal compared with to detect the unrecoverable marker, the csv
  delimiter of the reader and of every writer of an inv_subs file, the `np.array_split` / `subs[ii[0]:ii[-1]+1]` block
  expression and the scatter / gather / chain calls,
* the inverse-substitution templates `str({all_a[j]: <expr>})` of `sympy_simplify` and every other expression it records.

Fail closed: any unrecognised statement shape raises ExtractError.
"""
import ast
import extract
from extract import ExtractError, lstr, llist

SIMP = "esr/generation/simplifier.py"
DUPC = "esr/generation/duplicate_checker.py"

extract.MODELLED.extend([
    (SIMP, None, "get_all_dup"),
    (SIMP, None, "simplify_inv_subs"),
    (SIMP, None, "load_subs"),
    (SIMP, None, "convert_params"),
])

# unparsed inverse expression -> (model family, domain of n)
FAMILIES = {
    "all_a[j] / n": "scale",
    "pow_abs(all_a[j], 1 / n)": "evenroot",
    "all_a[j] ** (1 / n)": "oddroot",
    "pow_abs(all_a[j], 1 / (n + 1))": "evenroot1",
    "pow_abs(all_a[j], 1 / (n + 1)) * sympy.sign(all_a[j])": "oddroot1",
    "sqrt_abs(all_a[j])": "sqrtabs",
    "all_a[j] ** (1 / 3)": "cuberoot",
    "pow_abs(all_a[j], 1 / 3)": "cuberootabs",
    "square(all_a[j])": "square",
    "sympy.exp(all_a[j])": "exp",
    "log_abs(all_a[j])": "logabs",
}


def lchars(s):
    def one(c):
        if c == "'":
            return "'\\''"
        if c == "\\":
            return "'\\\\'"
        if c == "\n":
            return "'\\n'"
        if c == "\r":
            return "'\\r'"
        if c == "\t":
            return "'\\t'"
        if not (32 <= ord(c) < 127):
            return "Char.ofNat %d" % ord(c)
        return "'%s'" % c
    return "[" + ", ".join(one(c) for c in s) + "]"


# ------------------------------------------------------------------------------------------------
# get_all_dup
# ------------------------------------------------------------------------------------------------

def _uexpr(node, var):
    if isinstance(node, ast.Name) and node.id == var:
        return ".x"
    if isinstance(node, ast.Constant) and isinstance(node.value, int) and not isinstance(node.value, bool) and node.value >= 0:
        return "(.nat %d)" % node.value
    if isinstance(node, ast.UnaryOp) and isinstance(node.op, ast.USub):
        return "(.neg %s)" % _uexpr(node.operand, var)
    if isinstance(node, ast.BinOp):
        op = {ast.Mult: "mul", ast.Div: "div", ast.Pow: "pow"}.get(type(node.op))
        if op:
            return "(.%s %s %s)" % (op, _uexpr(node.left, var), _uexpr(node.right, var))
    raise ExtractError("get_all_dup: unsupported value expression %s (line %d)" % (ast.unparse(node), node.lineno))


def _pair_index(node):
    # all_a[c[i]]
    if (isinstance(node, ast.Subscript) and isinstance(node.value, ast.Name) and node.value.id == "all_a"
            and isinstance(node.slice, ast.Subscript) and isinstance(node.slice.value, ast.Name) and node.slice.value.id == "c"
            and isinstance(node.slice.slice, ast.Constant) and node.slice.slice.value in (0, 1)):
        return node.slice.slice.value
    raise ExtractError("get_all_dup: unsupported pair entry %s (line %d)" % (ast.unparse(node), node.lineno))


def _dup_stmt(value):
    if not (isinstance(value, ast.ListComp) and len(value.generators) == 1 and not value.generators[0].ifs):
        raise ExtractError("get_all_dup: all_dup not built by a single list comprehension (line %d)" % value.lineno)
    gen = value.generators[0]
    elt = value.elt
    if not (isinstance(elt, ast.Call) and isinstance(elt.func, ast.Name) and elt.func.id == "str" and len(elt.args) == 1
            and isinstance(elt.args[0], ast.Dict)):
        raise ExtractError("get_all_dup: element is not str({...}) (line %d)" % elt.lineno)
    d = elt.args[0]
    if not (isinstance(gen.target, ast.Name) and isinstance(gen.iter, ast.Name)):
        raise ExtractError("get_all_dup: unsupported comprehension (line %d)" % value.lineno)
    if gen.iter.id == "all_a":
        var = gen.target.id
        if not (len(d.keys) == 1 and isinstance(d.keys[0], ast.Name) and d.keys[0].id == var):
            raise ExtractError("get_all_dup: one-parameter entry must have the single key `%s` (line %d)" % (var, d.lineno))
        return ".unary %s" % _uexpr(d.values[0], var), ast.unparse(value)
    if gen.iter.id == "comb" and gen.target.id == "c":
        items = ["(%d, %d)" % (_pair_index(k), _pair_index(v)) for k, v in zip(d.keys, d.values)]
        return ".pair %s" % llist(items), ast.unparse(value)
    raise ExtractError("get_all_dup: comprehension over %s not recognised (line %d)" % (gen.iter.id, value.lineno))


def _get_all_dup(tree):
    fn = extract.find_def(tree, "get_all_dup")
    stmts, srcs = [], []
    comb_src = None
    seen_return = False
    for st in fn.body:
        u = ast.unparse(st)
        if isinstance(st, ast.Expr) and isinstance(st.value, ast.Constant) and isinstance(st.value.value, str):
            continue
        if u == "if max_param == 0:\n    return []":
            continue
        if u == "param_list = ['a%i' % i for i in range(max_param)]":
            continue
        if u == "all_a = sympy.symbols(' '.join(param_list), real=True)":
            continue
        if u == "if max_param == 1:\n    all_a = [all_a]":
            continue
        if isinstance(st, ast.Assign) and len(st.targets) == 1 and isinstance(st.targets[0], ast.Name):
            name = st.targets[0].id
            if name == "comb":
                comb_src = ast.unparse(st.value)
                continue
            if name == "all_dup":
                if stmts:
                    raise ExtractError("get_all_dup: all_dup re-assigned (line %d)" % st.lineno)
                a, b = _dup_stmt(st.value); stmts.append(a); srcs.append(b)
                continue
        if isinstance(st, ast.AugAssign) and isinstance(st.target, ast.Name) and st.target.id == "all_dup" and isinstance(st.op, ast.Add):
            a, b = _dup_stmt(st.value); stmts.append(a); srcs.append(b)
            continue
        if u == "return all_dup":
            seen_return = True
            continue
        raise ExtractError("get_all_dup: unrecognised statement at line %d: %s" % (st.lineno, u.splitlines()[0]))
    if not seen_return or not stmts:
        raise ExtractError("get_all_dup: no all_dup construction / return found")
    if comb_src is None and any(".pair" in s for s in stmts):
        raise ExtractError("get_all_dup: comb not defined")
    return stmts, srcs, comb_src or "", (fn.lineno, fn.end_lineno)


# ------------------------------------------------------------------------------------------------
# load_subs
# ------------------------------------------------------------------------------------------------

def _const_str(node, what):
    if isinstance(node, ast.Constant) and isinstance(node.value, str):
        return node.value
    raise ExtractError("%s: expected a string literal, got %s (line %d)" % (what, ast.unparse(node), node.lineno))


def _csv_delims(tree, fname, which):
    out = []
    for n in ast.walk(tree):
        if (isinstance(n, ast.Call) and isinstance(n.func, ast.Attribute) and isinstance(n.func.value, ast.Name)
                and n.func.value.id == "csv" and n.func.attr == which):
            kw = {k.arg: k.value for k in n.keywords}
            if set(kw) - {"delimiter"}:
                raise ExtractError("%s: csv.%s with unmodelled options %s (line %d)" % (fname, which, sorted(kw), n.lineno))
            d = _const_str(kw["delimiter"], "csv.%s delimiter" % which) if "delimiter" in kw else ","
            if len(d) != 1:
                raise ExtractError("%s: csv delimiter %r is not one character" % (fname, d))
            out.append((d, n.lineno))
    return out


def _slice_offsets(node):
    """subs[ii[0] (+a) : ii[-1] (+b)]  ->  (a, b)"""
    def off(e, idx):
        def is_ii(x):
            return (isinstance(x, ast.Subscript) and isinstance(x.value, ast.Name) and x.value.id == "ii"
                    and ast.unparse(x.slice) == idx)
        if is_ii(e):
            return 0
        if isinstance(e, ast.BinOp) and isinstance(e.op, (ast.Add, ast.Sub)) and is_ii(e.left) \
                and isinstance(e.right, ast.Constant) and isinstance(e.right.value, int):
            v = e.right.value if isinstance(e.op, ast.Add) else -e.right.value
            if v < 0:
                raise ExtractError("load_subs: negative slice offset (line %d)" % e.lineno)
            return v
        raise ExtractError("load_subs: slice bound %s not recognised (line %d)" % (ast.unparse(e), e.lineno))
    if not (isinstance(node, ast.Subscript) and isinstance(node.value, ast.Name) and node.value.id == "subs"
            and isinstance(node.slice, ast.Slice) and node.slice.step is None
            and node.slice.lower is not None and node.slice.upper is not None):
        raise ExtractError("load_subs: block expression %s not recognised" % ast.unparse(node))
    return off(node.slice.lower, "0"), off(node.slice.upper, "-1")


def _load_subs(tree):
    fn = extract.find_def(tree, "load_subs")
    src = ast.unparse(fn)
    need = [
        "subs = [r for r in reader]",
        "i = np.array_split(np.arange(len(subs)), size)",
        "ii = np.atleast_1d(i[r])",
        "all_subs = comm.scatter(all_subs, root=0)",
        "all_subs = comm.gather(all_subs, root=0)",
        "all_subs = list(itertools.chain(*all_subs))",
        "all_subs = comm.bcast(all_subs, root=0)",
        "d = ast.literal_eval(all_subs[i][j])",
        "k = [sympy.sympify(kk, locals=locs) for kk in k]",
        "v = [sympy.sympify(vv, locals=locs) for vv in v]",
        "all_subs[i][j] = dict(zip(k, v))",
    ]
    for s in need:
        if s not in src:
            raise ExtractError("load_subs: expected statement not found: %s" % s)
    # the block each rank receives
    block = None
    for n in ast.walk(fn):
        if isinstance(n, ast.Assign) and ast.unparse(n.targets[0]) == "all_subs[r]" and isinstance(n.value, ast.Subscript):
            if block is not None:
                raise ExtractError("load_subs: two block assignments")
            block = (_slice_offsets(n.value), ast.unparse(n.value), n.lineno)
    if block is None:
        raise ExtractError("load_subs: block assignment all_subs[r] = subs[...] not found")
    # the per-cell loop
    inner = None
    for n in ast.walk(fn):
        if isinstance(n, ast.For) and ast.unparse(n.iter) == "range(len(all_subs[i]))" and isinstance(n.target, ast.Name) and n.target.id == "j":
            inner = n
    if inner is None:
        raise ExtractError("load_subs: per-cell loop not found")
    seq = []
    nan_lit = None
    for k, st in enumerate(inner.body):
        if (isinstance(st, ast.Assign) and ast.unparse(st.targets[0]) == "all_subs[i][j]" and isinstance(st.value, ast.Call)
                and isinstance(st.value.func, ast.Attribute) and st.value.func.attr == "replace"
                and ast.unparse(st.value.func.value) == "all_subs[i][j]" and len(st.value.args) == 2 and not st.value.keywords):
            if nan_lit is not None:
                raise ExtractError("load_subs: replace after the nan test (line %d)" % st.lineno)
            a = _const_str(st.value.args[0], "replace"); b = _const_str(st.value.args[1], "replace")
            if a == "":
                raise ExtractError("load_subs: empty replace pattern")
            seq.append((a, b, st.lineno))
        elif isinstance(st, ast.If) and isinstance(st.test, ast.Compare) and ast.unparse(st.test.left) == "all_subs[i][j]" \
                and len(st.test.ops) == 1 and isinstance(st.test.ops[0], ast.Eq):
            nan_lit = _const_str(st.test.comparators[0], "nan test")
            if ast.unparse(st.body[0]) != "all_subs[i][j] = np.nan" or len(st.body) != 1:
                raise ExtractError("load_subs: nan branch not recognised (line %d)" % st.lineno)
            if k != len(inner.body) - 1:
                raise ExtractError("load_subs: statements after the nan test (line %d)" % st.lineno)
        else:
            raise ExtractError("load_subs: unrecognised per-cell statement at line %d: %s" % (st.lineno, ast.unparse(st).splitlines()[0]))
    if nan_lit is None or not seq:
        raise ExtractError("load_subs: replace sequence / nan test not found")
    return seq, nan_lit, block, (fn.lineno, fn.end_lineno)


# ------------------------------------------------------------------------------------------------
# sympy_simplify: what can be recorded
# ------------------------------------------------------------------------------------------------

def _templates(tree):
    fn = extract.find_def(tree, "sympy_simplify")
    out = []

    def inv_of(lst, dom):
        if not (isinstance(lst, ast.List) and len(lst.elts) == 4):
            raise ExtractError("sympy_simplify: template is not a 4-element list (line %d)" % lst.lineno)
        e = lst.elts[3]
        if not (isinstance(e, ast.Call) and isinstance(e.func, ast.Name) and e.func.id == "str" and len(e.args) == 1
                and isinstance(e.args[0], ast.Dict) and len(e.args[0].keys) == 1 and ast.unparse(e.args[0].keys[0]) == "all_a[j]"):
            raise ExtractError("sympy_simplify: inverse is not str({all_a[j]: ...}) (line %d)" % e.lineno)
        flag = lst.elts[2]
        if not (isinstance(flag, ast.Constant) and flag.value in (0, 1)):
            raise ExtractError("sympy_simplify: template flag not 0/1 (line %d)" % lst.lineno)
        inv = ast.unparse(e.args[0].values[0])
        out.append((FAMILIES.get(inv, "unknown"), dom, inv, ast.unparse(lst.elts[0]), ast.unparse(lst.elts[1]), flag.value, lst.lineno))

    def from_value(v):
        if isinstance(v, ast.ListComp):
            g = v.generators
            if not (len(g) == 1 and isinstance(g[0].target, ast.Name) and g[0].target.id == "n" and isinstance(g[0].iter, ast.Name)
                    and g[0].iter.id in ("numbers", "even", "odd") and not g[0].ifs):
                raise ExtractError("sympy_simplify: template comprehension not recognised (line %d)" % v.lineno)
            inv_of(v.elt, g[0].iter.id)
        elif isinstance(v, ast.List):
            for e in v.elts:
                inv_of(e, "-")
        else:
            raise ExtractError("sympy_simplify: all_expr value not recognised (line %d)" % v.lineno)

    found = False
    for n in ast.walk(fn):
        if isinstance(n, ast.For) and isinstance(n.target, ast.Name) and n.target.id == "j" and ast.unparse(n.iter) == "range(len(param_list))":
            body = n.body[0].body if (len(n.body) == 1 and isinstance(n.body[0], ast.If)) else n.body
            for st in body:
                if isinstance(st, ast.Assign) and ast.unparse(st.targets[0]) == "all_expr":
                    from_value(st.value); found = True
                elif isinstance(st, ast.AugAssign) and ast.unparse(st.target) == "all_expr":
                    from_value(st.value)
    if not found:
        raise ExtractError("sympy_simplify: template table (all_expr) not found")
    # the domains of n
    src = ast.unparse(fn)
    for s in ["numbers = [atom for atom in sym_fun[i].atoms() if atom.is_number and atom.is_finite]",
              "even = [n for n in numbers if n.is_Integer and n.is_even]",
              "odd = [n for n in numbers if n.is_Integer and n.is_odd]",
              "if 'zoo' in str(expr[3]):"]:
        if s not in src:
            raise ExtractError("sympy_simplify: expected statement not found: %s" % s)
    # every other recorded expression
    sites = []
    for n in ast.walk(fn):
        x = None
        if isinstance(n, ast.Call) and isinstance(n.func, ast.Attribute) and n.func.attr == "append" and len(n.args) == 1 \
                and ast.unparse(n.func.value) in ("inv_subs_fun[i]", "new_inv_subs"):
            x = n.args[0]
        elif isinstance(n, ast.Assign) and ast.unparse(n.targets[0]) == "inv_subs_fun[i]" and isinstance(n.value, ast.List) \
                and len(n.value.elts) == 1:
            x = n.value.elts[0]
        if x is not None:
            sites.append(ast.unparse(x))
    kinds = []
    for s in sorted(set(sites)):
        k = {"expr[3]": "template", "str(np.nan)": "nan", "str({all_a[j]: -all_a[j]})": "neg",
             "str(try_subs[p])": "perm", "str(s)": "rename",
             "str({expr[0]: all_a[c[v]]})": "pair-keep", "str({expr[0]: sympy.Abs(all_a[c[v]])})": "pair-keep"}.get(s, "unknown")
        kinds.append((k, s))
    return out, kinds, (fn.lineno, fn.end_lineno)


@extract.extractor("Subs")
def gen(stage):
    tree = extract._parse(stage, SIMP)
    dtree = extract._parse(stage, DUPC)
    stmts, srcs, comb_src, span1 = _get_all_dup(tree)
    seq, nan_lit, block, span2 = _load_subs(tree)
    tmpl, kinds, span3 = _templates(tree)
    rd = [d for d, ln in _csv_delims(extract.find_def(tree, "load_subs"), SIMP, "reader")]
    wr = _csv_delims(tree, SIMP, "writer") + _csv_delims(dtree, DUPC, "writer")
    if len(rd) != 1:
        raise ExtractError("load_subs: expected exactly one csv.reader")
    if not wr:
        raise ExtractError("no csv.writer of inv_subs files found")
    t = extract.header("Subs", ["%s:%d-%d (get_all_dup)" % ((SIMP,) + span1), "%s:%d-%d (load_subs)" % ((SIMP,) + span2),
                                "%s:%d-%d (sympy_simplify)" % ((SIMP,) + span3), DUPC])
    t += "/-- value of a one-parameter `all_dup` entry `{a: e}`; `x` is the comprehension variable -/\n"
    t += "inductive UExpr\n  | x\n  | nat (n : Nat)\n  | neg (e : UExpr)\n  | mul (a b : UExpr)\n  | div (a b : UExpr)\n  | pow (a b : UExpr)\n  deriving DecidableEq, Repr\n\n"
    t += "/-- one `all_dup = / +=` statement of get_all_dup -/\n"
    t += "inductive DupStmt\n  | unary (e : UExpr)                 -- [str({a: e}) for a in all_a]\n"
    t += "  | pair (items : List (Nat × Nat))    -- [str({all_a[c[i]]: all_a[c[j]], …}) for c in comb], as (i, j)\n  deriving DecidableEq, Repr\n\n"
    for s in srcs:
        t += "-- %s\n" % s
    t += "def allDupStmts : List DupStmt := %s\n\n" % llist(stmts)
    t += "def combSource : String := %s\n\n" % lstr(comb_src)
    t += "-- load_subs: %s\n" % "; ".join("line %d .replace(%r, %r)" % (ln, a, b) for a, b, ln in seq)
    t += "def replaceSeq : List (List Char × List Char) :=\n  %s\n\n" % llist(["(%s, %s)" % (lchars(a), lchars(b)) for a, b, ln in seq])
    t += "def nanLiteral : List Char := %s\n\n" % lchars(nan_lit)
    t += "-- line %d: all_subs[r] = %s\n" % (block[2], block[1])
    t += "def sliceLo : Nat := %d\ndef sliceHi : Nat := %d\n\n" % block[0]
    t += "def readerDelimiter : Char := %s\n" % lchars(rd[0])[1:-1]
    t += "-- csv.writer calls at lines %s\n" % ", ".join(str(ln) for d, ln in wr)
    t += "def writerDelimiters : List Char := %s\n\n" % lchars("".join(d for d, ln in wr))
    t += "/-- (model family, domain of n, inverse expression) per entry of `all_expr` in sympy_simplify -/\n"
    t += "def templates : List (String × String × String) :=\n  %s\n\n" % ("[" + ",\n   ".join(
        "(%s, %s, %s)" % (lstr(f), lstr(dom), lstr(inv)) for f, dom, inv, pat, rep, flag, ln in tmpl) + "]")
    t += "/-- every expression sympy_simplify appends to a chain: (kind, source) -/\n"
    t += "def recordSites : List (String × String) :=\n  %s\n" % ("[" + ",\n   ".join("(%s, %s)" % (lstr(k), lstr(s)) for k, s in kinds) + "]")
    t += extract.footer("Subs")
    return t


def template_sources(stage):
    """For the harness: the template table with the source text of pattern / replacement / inverse."""
    tmpl, kinds, _ = _templates(extract._parse(stage, SIMP))
    return [dict(family=f, domain=dom, inverse=inv, pattern=pat, replacement=rep, flag=flag, line=ln)
            for f, dom, inv, pat, rep, flag, ln in tmpl], kinds
