"""Extractor `Subs` (C17, shared with C05/C03): from esr/generation/simplifier.py and duplicate_checker.py

* the construction of `all_dup` in `get_all_dup` (one entry per list the function concatenates into its result: the
  dict it builds per parameter / per pair, and the order of the indices `comb` pairs up),
* the `.replace(a, b)` sequence of `load_subs`, the literal compared with to detect the unrecoverable marker, the csv
  delimiter of the reader and of every writer of an inv_subs file, the `np.array_split` / `subs[ii[0]:ii[-1]+1]` block
  expression and the scatter / gather / chain calls,
* the inverse-substitution templates `str({all_a[j]: <expr>})` of `sympy_simplify` and every other expression it records.

How the two anchored functions are read (robust to behaviour-preserving refactors, fail closed otherwise):

1. `_norm_c17.normalise_function` (N1-N10, listed in that module's docstring: helper inlining, assignment splitting,
   conditional expressions, guard inversion / else-after-jump, negation forms, merged ifs, unrolled literal loops,
   appending loop <-> comprehension, single-use pure temporaries).
2. get_all_dup: `_DupEval` evaluates the normalised body symbolically.  Locals are followed by the VALUE they hold
   (`("names",)`, `("syms",)`, `("idx", asc|desc)`, `("comb", order)`, `("dups", ...)`), so renamed locals, hoisted
   temporaries, reordered independent statements, `np.flip(x)` / `x[::-1]` / `range(n-1,-1,-1)` / `reversed` /
   `sorted(reverse=True)`, `for c in comb` with `c[0], c[1]` or `for p, q in comb`, iteration over the symbols / their
   indices / `enumerate`, `=`/`+=`/`+`/`.extend`/append loops all give the same table.  Required and checked: the
   `max_param == 0 -> []` guard comes first (sympy.symbols('') raises), the single-symbol fix `if max_param == 1`,
   no one-shot iterator bound to a name, pairs over DESCENDING indices only.
3. load_subs: the read / split / scatter / gather / chain / bcast statements are matched by `_norm_c17.unify` patterns
   whose metavariables bind the locals consistently (renaming-proof; alternatives for `list(reader)` and
   `chain.from_iterable`); the per-cell statements are evaluated symbolically by `_CellEval`: the cell text is followed
   through `.replace` chains on the cell itself or on locals, through a row alias / `enumerate`, and the result must be
   `np.nan if quoted == <literal> else (dict(zip(sympify keys, sympify values)) of literal_eval(quoted)), str()-ed when
   not use_sympy` with one and the same fully quoted text in the test and in literal_eval.  A csv delimiter may be a
   module-level string constant bound once.

4. load_subs, exception structure of the per-row conversion (`loadSubsRows : RowConversion`): the row loop body may wrap the
   per-cell loop in `try: ... except TimeoutException:` and / or `with time_limit(<seconds>):` (either order); names bound in
   the row loop BEFORE them to the row itself are aliases, to `list(row)` / `row[:]` / `row.copy()` / `copy.copy(row)` /
   `copy.deepcopy(row)` / `[x for x in row]` snapshots (a snapshot written inside the per-cell loop is an error); the handler
   may print and must put the row back with one `B[i] = name` or `row[:] = name` (a copy of an alias is an alias);
   `restoresFrom` = none (no handler) | snapshot | alias.  `inPlace` lists every write to the cell in source order
   (`_CellEval.writes`).  Trailing parameters of load_subs beyond the four known ones need constant defaults.

Fail closed: any unrecognised statement shape raises ExtractError.
"""
import ast
import extract
from extract import ExtractError, lstr, llist
from extractors import _norm_c17 as N

SIMP = "esr/generation/simplifier.py"
DUPC = "esr/generation/duplicate_checker.py"

extract.MODELLED.extend([
    (SIMP, None, "get_all_dup"),
    (SIMP, None, "simplify_inv_subs"),
    (SIMP, None, "load_subs"),
    (SIMP, None, "convert_params"),
])

# unparsed inverse expression -> (model family, domain of n)
FAMILIES = {
    "all_a[j] / n": "scale",
    "pow_abs(all_a[j], 1 / n)": "evenroot",
    "all_a[j] ** (1 / n)": "oddroot",
    "pow_abs(all_a[j], 1 / (n + 1))": "evenroot1",
    "pow_abs(all_a[j], 1 / (n + 1)) * sympy.sign(all_a[j])": "oddroot1",
    "sqrt_abs(all_a[j])": "sqrtabs",
    "all_a[j] ** (1 / 3)": "cuberoot",
    "pow_abs(all_a[j], 1 / 3)": "cuberootabs",
    "square(all_a[j])": "square",
    "sympy.exp(all_a[j])": "exp",
    "log_abs(all_a[j])": "logabs",
}


def lchars(s):
    def one(c):
        if c == "'":
            return "'\\''"
        if c == "\\":
            return "'\\\\'"
        if c == "\n":
            return "'\\n'"
        if c == "\r":
            return "'\\r'"
        if c == "\t":
            return "'\\t'"
        if not (32 <= ord(c) < 127):
            return "Char.ofNat %d" % ord(c)
        return "'%s'" % c
    return "[" + ", ".join(one(c) for c in s) + "]"


# ------------------------------------------------------------------------------------------------
# get_all_dup: symbolic evaluation of the (normalised) body
# ------------------------------------------------------------------------------------------------
#
# Values a local of get_all_dup can hold, as far as the translator follows them:
#   ("n",)                       the parameter max_param
#   ("int", c)                   an int literal
#   ("idx", order, reiter)       the ints 0..n-1 ascending ("asc") or descending ("desc"); reiter = may be iterated twice
#   ("enum", v)                  enumerate(v)
#   ("names",)                   ['a0', ..., 'a<n-1>']
#   ("symsraw",)                 sympy.symbols(' '.join(names), real=True)   (a single Symbol when n == 1)
#   ("syms",)                    the same after `if n == 1: x = [x]`: indexable / iterable for every n >= 1
#   ("comb", order, reiter)      2-combinations of ("idx", order)
#   ("dups", (stmt, ...), (src, ...))   the list under construction

class _DupEval(object):
    def __init__(self, fn):
        a = fn.args
        if len(a.args) != 1 or a.vararg or a.kwarg or a.kwonlyargs or a.posonlyargs or a.defaults:
            raise ExtractError("get_all_dup: signature is not (max_param)")
        self.n = a.args[0].arg
        self.env = {}
        self.guard0 = False
        self.result = None
        self.comb_src = None

    def err(self, node, msg):
        raise ExtractError("get_all_dup: %s (line %d)" % (msg, getattr(node, "lineno", 0)))

    # --- expressions ---------------------------------------------------------------------------------
    def is_n(self, node):
        try:
            return self.ev(node) == ("n",)
        except ExtractError:
            return False

    def ev(self, node):
        if isinstance(node, ast.Name):
            if node.id == self.n:
                return ("n",)
            if node.id in self.env:
                return self.env[node.id]
            self.err(node, "unknown name %s" % node.id)
        if isinstance(node, ast.Constant) and isinstance(node.value, int) and not isinstance(node.value, bool):
            return ("int", node.value)
        if isinstance(node, ast.List) and not node.elts:
            return ("dups", (), ())
        if isinstance(node, ast.ListComp):
            return self.comp(node)
        if isinstance(node, ast.BinOp) and isinstance(node.op, ast.Add):
            a, b = self.ev(node.left), self.ev(node.right)
            if a[0] == "dups" and b[0] == "dups":
                return ("dups", a[1] + b[1], a[2] + b[2])
            self.err(node, "unsupported + of %s and %s" % (a[0], b[0]))
        if isinstance(node, ast.Subscript) and isinstance(node.slice, ast.Slice):
            sl = node.slice
            if sl.lower is None and sl.upper is None and sl.step is not None and N.u(sl.step) == "-1":
                v = self.ev(node.value)
                if v[0] == "idx" and v[2]:
                    return ("idx", "desc" if v[1] == "asc" else "asc", True)
            self.err(node, "unsupported slice %s" % N.u(node))
        if isinstance(node, ast.Call):
            f = N.call_name(node)
            args, kw = node.args, {k.arg: k.value for k in node.keywords}
            if any(isinstance(x, ast.Starred) for x in args) or None in kw:
                self.err(node, "unsupported call %s" % N.u(node))
            if f in ("range", "np.arange", "numpy.arange") and not kw:
                if len(args) == 1:
                    v = self.ev(args[0])
                    if v == ("n",):
                        return ("idx", "asc", True)
                if len(args) == 3 and N.u(args[1]) == "-1" and N.u(args[2]) == "-1" and isinstance(args[0], ast.BinOp) \
                        and isinstance(args[0].op, ast.Sub) and self.is_n(args[0].left) and N.u(args[0].right) == "1":
                    return ("idx", "desc", True)
                self.err(node, "unsupported range %s" % N.u(node))
            if f == "len" and len(args) == 1 and not kw:
                v = self.ev(args[0])
                if v[0] in ("syms", "names") or (v[0] == "idx" and v[2]):
                    return ("n",)
                self.err(node, "len of %s" % v[0])
            if f in ("np.flip", "numpy.flip", "np.flipud", "numpy.flipud", "reversed") and len(args) == 1 and not kw:
                v = self.ev(args[0])
                if v[0] == "idx" and v[2]:
                    return ("idx", "desc" if v[1] == "asc" else "asc", f != "reversed")
                self.err(node, "%s of %s" % (f, v[0]))
            if f in ("list", "tuple") and len(args) == 1 and not kw:
                v = self.ev(args[0])
                if v[0] in ("idx", "comb"):
                    return (v[0], v[1], True)
                if v[0] == "dups" and f == "list":
                    return v
                self.err(node, "%s of %s" % (f, v[0]))
            if f == "sorted" and len(args) == 1 and set(kw) <= {"reverse"}:
                v = self.ev(args[0])
                rev = kw.get("reverse")
                if v[0] == "idx" and (rev is None or (isinstance(rev, ast.Constant) and isinstance(rev.value, bool))):
                    return ("idx", "desc" if (rev is not None and rev.value) else "asc", True)
                self.err(node, "unsupported sorted")
            if f == "enumerate" and len(args) == 1 and not kw:
                v = self.ev(args[0])
                if v[0] in ("syms",):
                    return ("enum", v)
                self.err(node, "enumerate of %s" % v[0])
            if f == "itertools.combinations" and len(args) == 2 and not kw and N.u(args[1]) == "2":
                v = self.ev(args[0])
                if v[0] == "idx":
                    return ("comb", v[1], False)
                self.err(node, "combinations of %s" % v[0])
            if f == "sympy.symbols" and len(args) == 1 and set(kw) == {"real"} and isinstance(kw["real"], ast.Constant) \
                    and kw["real"].value is True:
                b = N.unify("' '.join(MX_p)", args[0])
                if b is not None and self.ev(b["MX_p"][1]) == ("names",):
                    if not self.guard0:
                        self.err(node, "sympy.symbols reached without the `max_param == 0` guard (raises for 0 parameters)")
                    return ("symsraw",)
                self.err(node, "unsupported sympy.symbols argument")
        self.err(node, "unsupported expression %s" % N.u(node))

    # --- one list comprehension ----------------------------------------------------------------------
    def comp(self, node):
        if len(node.generators) != 1 or node.generators[0].ifs or node.generators[0].is_async:
            self.err(node, "unsupported comprehension")
        gen = node.generators[0]
        it = self.ev(gen.iter)
        tgt = gen.target
        if isinstance(tgt, ast.Name):
            tn = [tgt.id]
        elif isinstance(tgt, ast.Tuple) and all(isinstance(e, ast.Name) for e in tgt.elts):
            tn = [e.id for e in tgt.elts]
        else:
            self.err(node, "unsupported comprehension target")
        if set(tn) & (set(self.env) | {self.n}):
            self.err(node, "comprehension variable shadows a local")
        elt = node.elt
        if it[0] == "idx" and it[1] == "asc" and len(tn) == 1 and N.is_param_name_format(elt, tn[0]):
            return ("names",)
        b = N.unify("str(MX_d)", elt)
        if b is None or not isinstance(b["MX_d"][1], ast.Dict) or None in b["MX_d"][1].keys:
            self.err(node, "element is not str({...})")
        d = b["MX_d"][1]
        src = ast.unparse(node)
        if it[0] in ("syms", "enum") or (it[0] == "idx" and it[1] == "asc"):
            # one entry per parameter, ascending: which expressions denote "the parameter of this iteration"
            if it[0] == "syms" and len(tn) == 1:
                is_x = lambda e: isinstance(e, ast.Name) and e.id == tn[0]
            elif it[0] == "enum" and len(tn) == 2:
                is_x = lambda e: (isinstance(e, ast.Name) and e.id == tn[1]) or self.sym_at(e, tn[0])
            elif it[0] == "idx" and len(tn) == 1:
                is_x = lambda e: self.sym_at(e, tn[0])
            else:
                self.err(node, "unsupported comprehension target")
            if not (len(d.keys) == 1 and is_x(d.keys[0])):
                self.err(d, "one-parameter entry must have the parameter as its single key")
            return ("dups", (".unary %s" % self.uexpr(d.values[0], is_x),), (src,))
        if it[0] == "comb":
            if it[1] != "desc":
                self.err(node, "pairs over ascending indices not modelled")
            if not (len(tn) == 1 or (len(tn) == 2 and tn[0] != tn[1])):
                self.err(node, "unsupported comprehension target")

            def sel(e):
                """which component of the pair the index expression e denotes"""
                if len(tn) == 1:
                    if isinstance(e, ast.Subscript) and isinstance(e.value, ast.Name) and e.value.id == tn[0] \
                            and isinstance(e.slice, ast.Constant) and type(e.slice.value) is int and e.slice.value in (0, 1):
                        return e.slice.value
                elif isinstance(e, ast.Name) and e.id in tn:
                    return tn.index(e.id)
                return None

            def pidx(e):
                if isinstance(e, ast.Subscript) and not isinstance(e.slice, ast.Slice) and self.is_syms(e.value) \
                        and sel(e.slice) is not None:
                    return sel(e.slice)
                self.err(e, "unsupported pair entry %s" % N.u(e))
            items = ["(%d, %d)" % (pidx(k), pidx(v)) for k, v in zip(d.keys, d.values)]
            return ("dups", (".pair %s" % llist(items),), (src,))
        self.err(node, "comprehension over %s not recognised" % it[0])

    def is_syms(self, node):
        try:
            return self.ev(node) == ("syms",)
        except ExtractError:
            return False

    def sym_at(self, e, var):
        return isinstance(e, ast.Subscript) and isinstance(e.slice, ast.Name) and e.slice.id == var and self.is_syms(e.value)

    def uexpr(self, node, is_x):
        if is_x(node):
            return ".x"
        if isinstance(node, ast.Constant) and isinstance(node.value, int) and not isinstance(node.value, bool) and node.value >= 0:
            return "(.nat %d)" % node.value
        if isinstance(node, ast.UnaryOp) and isinstance(node.op, ast.USub):
            return "(.neg %s)" % self.uexpr(node.operand, is_x)
        if isinstance(node, ast.BinOp):
            op = {ast.Mult: "mul", ast.Div: "div", ast.Pow: "pow"}.get(type(node.op))
            if op:
                return "(.%s %s %s)" % (op, self.uexpr(node.left, is_x), self.uexpr(node.right, is_x))
        self.err(node, "unsupported value expression %s" % ast.unparse(node))

    # --- statements ------------------------------------------------------------------------------------
    def bind(self, name, val, node):
        if name == self.n:
            self.err(node, "parameter re-assigned")
        if val[0] in ("idx", "comb") and not val[2]:
            self.err(node, "a one-shot iterator bound to a name is not modelled")
        if val[0] == "comb":
            self.comb_src = ast.unparse(node.value) if isinstance(node, ast.Assign) else self.comb_src
        self.env[name] = val

    def run(self, stmts):
        for k, st in enumerate(stmts):
            if self.result is not None:
                self.err(st, "statement after return")
            u = ast.unparse(st)
            if isinstance(st, ast.If):
                t = st.test
                is0 = N.unify("MV_n == 0", t) or N.unify("0 == MV_n", t)
                if is0 is not None and is0["MV_n"] == self.n and len(st.body) == 1 and isinstance(st.body[0], ast.Return) \
                        and st.body[0].value is not None and N.u(st.body[0].value) in ("[]", "list()"):
                    if self.env:
                        self.err(st, "`max_param == 0` guard is not the first statement")
                    self.guard0 = True
                    if st.orelse:
                        if k != len(stmts) - 1:
                            self.err(st, "unreachable structure after guard")
                        self.run(st.orelse)
                    continue
                is1 = N.unify("MV_n == 1", t) or N.unify("1 == MV_n", t)
                if is1 is not None and is1["MV_n"] == self.n and len(st.body) == 1 and len(st.orelse) <= 1:
                    b = N.unify("MV_a = [MV_a]", st.body[0])
                    if b is not None and st.orelse and N.unify("MV_a = MV_a", st.orelse[0], b) is None:
                        b = None                   # only the no-op `x = x` (from `x = [x] if n == 1 else x`) is accepted
                    if b is not None and self.env.get(b["MV_a"]) == ("symsraw",):
                        self.env[b["MV_a"]] = ("syms",)
                        continue
                self.err(st, "unrecognised statement: %s" % u.splitlines()[0])
            if isinstance(st, ast.Assign) and len(st.targets) == 1 and isinstance(st.targets[0], ast.Name):
                self.bind(st.targets[0].id, self.ev(st.value), st)
                continue
            if isinstance(st, ast.AugAssign) and isinstance(st.target, ast.Name) and isinstance(st.op, ast.Add):
                cur = self.env.get(st.target.id)
                val = self.ev(st.value)
                if cur is not None and cur[0] == "dups" and val[0] == "dups":
                    self.env[st.target.id] = ("dups", cur[1] + val[1], cur[2] + val[2])
                    continue
                self.err(st, "unrecognised statement: %s" % u.splitlines()[0])
            b = N.unify("MV_x.extend(MX_v)", st.value) if isinstance(st, ast.Expr) else None
            if b is not None:
                cur = self.env.get(b["MV_x"])
                val = self.ev(b["MX_v"][1])
                if cur is not None and cur[0] == "dups" and val[0] == "dups":
                    self.env[b["MV_x"]] = ("dups", cur[1] + val[1], cur[2] + val[2])
                    continue
                self.err(st, "unrecognised statement: %s" % u.splitlines()[0])
            if isinstance(st, ast.Return) and st.value is not None:
                val = self.ev(st.value)
                if val[0] != "dups" or not val[1]:
                    self.err(st, "return value is not the constructed list")
                self.result = val
                continue
            self.err(st, "unrecognised statement: %s" % u.splitlines()[0])


def _get_all_dup(tree):
    fn0 = extract.find_def(tree, "get_all_dup")
    fn = N.normalise_function(fn0, tree)
    ev = _DupEval(fn)
    ev.run(fn.body)
    if ev.result is None or not ev.guard0:
        raise ExtractError("get_all_dup: no all_dup construction / return / zero-parameter guard found")
    stmts, srcs = list(ev.result[1]), list(ev.result[2])
    has_pair = any(s.startswith(".pair") for s in stmts)
    return stmts, srcs, (ev.comb_src or ""), ("descending" if has_pair else "-"), (fn0.lineno, fn0.end_lineno)


# ------------------------------------------------------------------------------------------------
# load_subs
# ------------------------------------------------------------------------------------------------

def _const_str(node, what, consts=None):
    if isinstance(node, ast.Constant) and isinstance(node.value, str):
        return node.value
    if isinstance(node, ast.Name) and consts and node.id in consts:
        return consts[node.id]
    raise ExtractError("%s: expected a string literal, got %s (line %d)" % (what, ast.unparse(node), node.lineno))


def _str_consts(tree):
    """module-level names bound exactly once, to a string literal (e.g. a hoisted `DELIM = ';'`)"""
    cnt, val = {}, {}
    for n in ast.walk(tree):
        if isinstance(n, ast.Name) and isinstance(n.ctx, (ast.Store, ast.Del)):
            cnt[n.id] = cnt.get(n.id, 0) + 1
        if isinstance(n, (ast.FunctionDef, ast.Lambda)):
            for a in n.args.args + n.args.kwonlyargs + n.args.posonlyargs:
                cnt[a.arg] = cnt.get(a.arg, 0) + 2
        if isinstance(n, ast.Global):
            for x in n.names:
                cnt[x] = cnt.get(x, 0) + 2
    for st in tree.body:
        if isinstance(st, ast.Assign) and len(st.targets) == 1 and isinstance(st.targets[0], ast.Name) \
                and isinstance(st.value, ast.Constant) and isinstance(st.value.value, str):
            val[st.targets[0].id] = st.value.value
    return {k: v for k, v in val.items() if cnt.get(k) == 1}


def _csv_delims(tree, fname, which, consts=None):
    out = []
    for n in ast.walk(tree):
        if (isinstance(n, ast.Call) and isinstance(n.func, ast.Attribute) and isinstance(n.func.value, ast.Name)
                and n.func.value.id == "csv" and n.func.attr == which):
            kw = {k.arg: k.value for k in n.keywords}
            if set(kw) - {"delimiter"}:
                raise ExtractError("%s: csv.%s with unmodelled options %s (line %d)" % (fname, which, sorted(kw, key=str), n.lineno))
            d = _const_str(kw["delimiter"], "csv.%s delimiter" % which, consts) if "delimiter" in kw else ","
            if len(d) != 1:
                raise ExtractError("%s: csv delimiter %r is not one character" % (fname, d))
            out.append((d, n.lineno))
    return out


def _slice_offsets(node, subs, ii):
    """subs[ii[0] (+a) : ii[-1] (+b)]  ->  (a, b)"""
    def off(e, idx):
        def is_ii(x):
            return (isinstance(x, ast.Subscript) and isinstance(x.value, ast.Name) and x.value.id == ii
                    and ast.unparse(x.slice) == idx)
        if is_ii(e):
            return 0
        if isinstance(e, ast.BinOp) and isinstance(e.op, (ast.Add, ast.Sub)) and is_ii(e.left) \
                and isinstance(e.right, ast.Constant) and type(e.right.value) is int:
            v = e.right.value if isinstance(e.op, ast.Add) else -e.right.value
            if v < 0:
                raise ExtractError("load_subs: negative slice offset (line %d)" % e.lineno)
            return v
        if isinstance(e, ast.BinOp) and isinstance(e.op, ast.Add) and is_ii(e.right) \
                and isinstance(e.left, ast.Constant) and type(e.left.value) is int and e.left.value >= 0:
            return e.left.value
        raise ExtractError("load_subs: slice bound %s not recognised (line %d)" % (ast.unparse(e), e.lineno))
    if not (isinstance(node, ast.Subscript) and isinstance(node.value, ast.Name) and node.value.id == subs
            and isinstance(node.slice, ast.Slice) and node.slice.step is None
            and node.slice.lower is not None and node.slice.upper is not None):
        raise ExtractError("load_subs: block expression %s not recognised" % ast.unparse(node))
    return off(node.slice.lower, "0"), off(node.slice.upper, "-1")


class _CellEval(object):
    """Symbolic evaluation of the per-cell statements of load_subs.

    values:  ("str", ops)  the cell text after the `.replace` calls ops = ((old, new, line), ...)
             ("nan",)  np.nan        ("lit", ops)  ast.literal_eval of such a text
             ("keys", d) / ("values", d)     ("symeach", seq)  [sympy.sympify(x, locals=locs) for x in seq]
             ("dictzip", k, v)  dict(zip(k, v))     ("strof", x)  str(x)
             ("condstr", x)   str(x) if not use_sympy else x
             ("nancase", ops, literal, x)   np.nan if text == literal else x
    """

    def __init__(self, is_cellref, cellname, use_sympy, locs_names):
        self.is_cellref = is_cellref
        self.env = {}
        if cellname:
            self.env[cellname] = ("str", ())
        self.cell = ("str", ())
        self.use_sympy = use_sympy
        self.locs = locs_names
        self.writes = []          # every IN-PLACE write to the cell (shared by forks): (value kind, #replaces so far, line)

    def err(self, node, msg):
        raise ExtractError("load_subs: %s (line %d)" % (msg, getattr(node, "lineno", 0)))

    def ev(self, node):
        if self.is_cellref(node):
            return self.cell
        if isinstance(node, ast.Name):
            if node.id in self.env:
                return self.env[node.id]
            self.err(node, "unknown name %s in the per-cell statements" % node.id)
        if N.u(node) in ("np.nan", "numpy.nan"):
            return ("nan",)
        if isinstance(node, ast.ListComp):
            b = N.unify("[sympy.sympify(MV_e, locals=MV_l) for MV_e in MX_s]", node)
            if b is not None and b["MV_l"] in self.locs:
                seq = self.ev(b["MX_s"][1])
                if seq[0] in ("keys", "values"):
                    return ("symeach", seq)
            self.err(node, "unsupported comprehension %s" % N.u(node))
        if isinstance(node, ast.Call) and not any(isinstance(a, ast.Starred) for a in node.args):
            f = node.func
            if isinstance(f, ast.Attribute) and f.attr == "replace" and len(node.args) == 2 and not node.keywords:
                v = self.ev(f.value)
                if v[0] != "str":
                    self.err(node, ".replace on %s" % v[0])
                a = _const_str(node.args[0], "replace"); b = _const_str(node.args[1], "replace")
                if a == "":
                    self.err(node, "empty replace pattern")
                return ("str", v[1] + ((a, b, node.lineno),))
            if isinstance(f, ast.Attribute) and f.attr in ("keys", "values") and not node.args and not node.keywords:
                v = self.ev(f.value)
                if v[0] == "lit":
                    return (f.attr, v)
                self.err(node, ".%s() of %s" % (f.attr, v[0]))
            name = N.call_name(node)
            if name == "ast.literal_eval" and len(node.args) == 1 and not node.keywords:
                v = self.ev(node.args[0])
                if v[0] == "str":
                    return ("lit", v[1])
                self.err(node, "literal_eval of %s" % v[0])
            if name == "list" and len(node.args) == 1 and not node.keywords:
                v = self.ev(node.args[0])
                if v[0] in ("keys", "values"):
                    return v
                if v[0] == "lit":
                    return ("keys", v)
                self.err(node, "list of %s" % v[0])
            if name == "str" and len(node.args) == 1 and not node.keywords:
                return ("strof", self.ev(node.args[0]))
            b = N.unify("dict(zip(MX_k, MX_v))", node)
            if b is not None:
                return ("dictzip", self.ev(b["MX_k"][1]), self.ev(b["MX_v"][1]))
        self.err(node, "unsupported per-cell expression %s" % N.u(node))

    def fork(self):
        c = _CellEval(self.is_cellref, None, self.use_sympy, self.locs)
        c.env = dict(self.env)
        c.cell = self.cell
        c.writes = self.writes
        return c

    def run(self, stmts):
        for k, st in enumerate(stmts):
            if self.cell[0] == "nancase":
                self.err(st, "statements after the nan test")
            if isinstance(st, ast.Assign) and len(st.targets) == 1:
                t = st.targets[0]
                val = self.ev(st.value)
                if self.is_cellref(t):
                    self.cell = val
                    self.writes.append((val[0], len(val[1]) if val[0] == "str" else None, st.lineno))
                elif isinstance(t, ast.Name):
                    self.env[t.id] = val
                else:
                    self.err(st, "unrecognised per-cell statement: %s" % N.u(st).splitlines()[0])
                continue
            if isinstance(st, ast.If):
                t = st.test
                # use_sympy switch
                if isinstance(t, ast.Name) and t.id == self.use_sympy:
                    yes, no = st.body, st.orelse
                elif isinstance(t, ast.UnaryOp) and isinstance(t.op, ast.Not) and isinstance(t.operand, ast.Name) \
                        and t.operand.id == self.use_sympy:
                    yes, no = st.orelse, st.body
                else:
                    yes = None
                if yes is not None:
                    a, b = self.fork(), self.fork()
                    a.run(yes); b.run(no)
                    if b.cell != ("strof", a.cell):
                        self.err(st, "use_sympy switch is not `cell = str(cell)`")
                    self.cell = ("condstr", a.cell)
                    self.env = {n: v for n, v in a.env.items() if b.env.get(n) == v}
                    continue
                # the nan test
                if isinstance(t, ast.Compare) and len(t.ops) == 1 and isinstance(t.ops[0], (ast.Eq, ast.NotEq)):
                    l, r = t.left, t.comparators[0]
                    if isinstance(l, ast.Constant):
                        l, r = r, l                       # str == str is symmetric
                    if isinstance(r, ast.Constant) and isinstance(r.value, str):
                        v = self.ev(l)
                        if v[0] != "str":
                            self.err(st, "nan test on %s" % v[0])
                        isnan, other = (st.body, st.orelse) if isinstance(t.ops[0], ast.Eq) else (st.orelse, st.body)
                        a, b = self.fork(), self.fork()
                        a.run(isnan); b.run(other)
                        if a.cell != ("nan",):
                            self.err(st, "nan branch not recognised")
                        self.cell = ("nancase", v[1], r.value, b.cell)
                        self.env = {}
                        continue
            self.err(st, "unrecognised per-cell statement: %s" % N.u(st).splitlines()[0])


def _load_subs(tree):
    fn0 = extract.find_def(tree, "load_subs")
    a = fn0.args
    # further trailing parameters are read only if they have a constant default (callers keep calling with the four known ones)
    extra = a.args[4:]
    if [x.arg for x in a.args[:4]] != ["fname", "max_param", "use_sympy", "bcast_res"] or a.vararg or a.kwarg or a.kwonlyargs \
            or len(a.defaults) != 2 + len(extra) or [N.u(d) for d in a.defaults[:2]] != ["True", "True"] \
            or not all(isinstance(d, ast.Constant) for d in a.defaults[2:]):
        raise ExtractError("load_subs: signature is not (fname, max_param, use_sympy=True, bcast_res=True[, name=<constant>...])")
    fn = N.normalise_function(fn0, tree)
    W = "load_subs"
    # rank 0 reads every row, splits the row indices into `size` blocks, scatters; ...; gather, chain, bcast
    _, b = N.find_stmt(fn, ["MV_subs = [MV_r for MV_r in MV_reader]", "MV_subs = list(MV_reader)",
                            "MV_subs = [MV_r for MV_r in csv.reader(MV_f, delimiter=MX_d)]",
                            "MV_subs = list(csv.reader(MV_f, delimiter=MX_d))"], {}, W)
    if "MV_reader" in b:
        _, b = N.find_stmt(fn, ["MV_reader = csv.reader(MV_f, delimiter=MX_d)", "MV_reader = csv.reader(MV_f)"], b, W)
    _, b = N.find_stmt(fn, ["MV_i = np.array_split(np.arange(len(MV_subs)), size)"], b, W)
    st_ii, b = N.find_stmt(fn, ["MV_ii = np.atleast_1d(MV_i[MV_rr])"], b, W)
    loops = [n for n in ast.walk(fn) if isinstance(n, ast.For) and N.unify("range(size)", n.iter) is not None
             and isinstance(n.target, ast.Name) and n.target.id == b["MV_rr"] and any(x is st_ii for x in ast.walk(n))]
    if len(loops) != 1:
        raise ExtractError("load_subs: loop over the ranks `for %s in range(size)` not found" % b["MV_rr"])
    block = None
    for n in ast.walk(loops[0]):
        if isinstance(n, ast.Assign) and len(n.targets) == 1 and isinstance(n.value, ast.Subscript):
            bb = N.unify("MV_A[MV_rr]", n.targets[0], b)
            if bb is None:
                continue
            if block is not None:
                raise ExtractError("load_subs: two block assignments")
            b = bb
            block = (_slice_offsets(n.value, b["MV_subs"], b["MV_ii"]), ast.unparse(n.value), n.lineno)
    if block is None:
        raise ExtractError("load_subs: block assignment all_subs[r] = subs[...] not found")
    _, b = N.find_stmt(fn, ["MV_B = comm.scatter(MV_A, root=0)"], b, W)
    _, b = N.find_stmt(fn, ["MV_C = comm.gather(MV_B, root=0)"], b, W)
    _, b = N.find_stmt(fn, ["MV_D = list(itertools.chain(*MV_C))", "MV_D = list(itertools.chain.from_iterable(MV_C))"], b, W)
    _, b = N.find_stmt(fn, ["MV_E = comm.bcast(MV_D, root=0)"], b, W)
    B = b["MV_B"]
    # the loop over the rows of this rank's block
    outer = []
    for n in ast.walk(fn):
        if isinstance(n, ast.For):
            for src in ("for MV_i2 in range(len(%s)):\n pass", "for MV_row in %s:\n pass", "for MV_i2, MV_row in enumerate(%s):\n pass"):
                pat = N.pattern(src % B)
                bb = {}
                if N._unify(pat.target, n.target, bb) and N._unify(pat.iter, n.iter, bb):
                    outer.append((n, bb))
    if len(outer) != 1:
        raise ExtractError("load_subs: expected exactly one loop over the rows of the scattered block, found %d" % len(outer))
    outer, ob = outer[0]
    rowrefs = set()
    if "MV_i2" in ob:
        rowrefs.add("%s[%s]" % (B, ob["MV_i2"]))
    if "MV_row" in ob:
        rowrefs.add(ob["MV_row"])
    if outer.orelse:
        raise ExtractError("load_subs: for/else on the row loop")

    def is_row(e):
        return N.u(e) in rowrefs

    def guard_ok(t):
        for src in ("len(MX_r) != 0", "len(MX_r) > 0", "0 != len(MX_r)", "0 < len(MX_r)", "len(MX_r) >= 1", "len(MX_r)"):
            bb = N.unify(src, t)
            if bb is not None and is_row(bb["MX_r"][1]):
                return True
        return is_row(t)               # a csv row is a list: truthiness == non-emptiness

    def copy_of_row(e):
        """a fresh list holding the row's items: list(r), r[:], r.copy(), copy.copy(r), copy.deepcopy(r), [x for x in r]"""
        for src in ("list(MX_r)", "MX_r[:]", "MX_r.copy()", "copy.copy(MX_r)", "copy.deepcopy(MX_r)", "[MV_x for MV_x in MX_r]"):
            bb = N.unify(src, e)
            if bb is not None and is_row(bb["MX_r"][1]):
                return True
        return False

    inner = None
    saves = {}          # name -> ("alias" | "snapshot", line): what a handler could restore the row from
    time_limited = None
    handler = None
    todo = list(outer.body)
    while todo:
        st = todo.pop(0)
        bb = N.unify("MV_alias = MX_r", st)
        if bb is not None and is_row(bb["MX_r"][1]) and inner is None:
            rowrefs.add(bb["MV_alias"])
            saves[bb["MV_alias"]] = ("alias", st.lineno)
            continue
        if bb is not None and copy_of_row(bb["MX_r"][1]) and inner is None and time_limited is None and handler is None:
            # taken before the time-limited region is entered, i.e. before the first in-place write
            saves[bb["MV_alias"]] = ("snapshot", st.lineno)
            continue
        if isinstance(st, ast.Try) and inner is None and not todo and handler is None:
            if st.orelse or st.finalbody or len(st.handlers) != 1 or not (isinstance(st.handlers[0].type, ast.Name)
                                                                          and st.handlers[0].type.id == "TimeoutException"):
                raise ExtractError("load_subs: try statement in the row loop is not `try: ... except TimeoutException: ...` (line %d)" % st.lineno)
            handler = st.handlers[0]
            todo = list(st.body)
            continue
        if isinstance(st, ast.With) and inner is None and not todo and time_limited is None:
            it = st.items
            if len(it) != 1 or it[0].optional_vars is not None or not isinstance(it[0].context_expr, ast.Call) \
                    or N.call_name(it[0].context_expr) != "time_limit" or len(it[0].context_expr.args) != 1 or it[0].context_expr.keywords:
                raise ExtractError("load_subs: with statement in the row loop is not `with time_limit(<seconds>):` (line %d)" % st.lineno)
            time_limited = st.lineno
            todo = list(st.body)
            continue
        if isinstance(st, ast.If) and not st.orelse and guard_ok(st.test) and not todo and inner is None:
            todo = list(st.body)
            continue
        if isinstance(st, ast.For) and inner is None and not st.orelse and not todo:
            inner = st
            continue
        raise ExtractError("load_subs: unrecognised statement in the row loop at line %d: %s" % (st.lineno, N.u(st).splitlines()[0]))
    if inner is None:
        raise ExtractError("load_subs: per-cell loop not found")
    ib = None
    for src in ("for MV_j in range(len(MX_r)):\n pass", "for MV_j, MV_cell in enumerate(MX_r):\n pass"):
        pat = N.pattern(src)
        bb = {}
        if N._unify(pat.target, inner.target, bb) and N._unify(pat.iter, inner.iter, bb) and is_row(bb["MX_r"][1]):
            ib = bb
    if ib is None:
        raise ExtractError("load_subs: per-cell loop header not recognised (line %d)" % inner.lineno)
    cellrefs = {"%s[%s]" % (r, ib["MV_j"]) for r in rowrefs}
    locs = {"sympy_locs"}
    for n in ast.walk(fn):
        bb = N.unify("MV_l = sympy_locs", n) if isinstance(n, ast.Assign) else None
        if bb is not None:
            locs.add(bb["MV_l"])
    ce = _CellEval(lambda e: isinstance(e, ast.Subscript) and N.u(e) in cellrefs, ib.get("MV_cell"), "use_sympy", locs)
    ce.run(inner.body)
    c = ce.cell
    # ---- exception structure of the per-row conversion ------------------------------------------------------------
    # in-place statement sequence: every write to the cell, in source order
    inplace, nrep, kinds = [], 0, []
    for kind, n, ln in ce.writes:
        if kind == "str":
            if kinds:
                raise ExtractError("load_subs: a text write to the cell after its conversion (line %d)" % ln)
            inplace.append((".replace %d" % (n - nrep), ln)); nrep = n
        else:
            kinds.append((kind, ln))
    ks = sorted(k for k, _ in kinds)
    if ks == ["dictzip", "nan", "strof"]:
        conv = [(".convert", min(ln for k, ln in kinds if k != "strof")), (".stringify", [ln for k, ln in kinds if k == "strof"][0])]
    elif ks in (["condstr", "nan"], ["nan", "nancase"], ["nancase"]):
        conv = [(".convert", min(ln for k, ln in kinds))]
    else:
        raise ExtractError("load_subs: in-place writes of the converted cell not recognised: %r" % (ks,))
    inplace += conv
    restores = ("none", None)
    for nm, (kd, ln) in saves.items():
        if kd == "snapshot" and nm in N.names_stored(inner):
            raise ExtractError("load_subs: the saved copy %s (line %d) is written inside the per-cell loop" % (nm, ln))
    if handler is not None:
        found = None
        for st in handler.body:
            if isinstance(st, ast.Expr) and isinstance(st.value, ast.Call) and N.call_name(st.value) == "print":
                continue
            if isinstance(st, ast.Pass) or (isinstance(st, ast.Continue) and st is handler.body[-1]):
                continue
            ok = False
            if isinstance(st, ast.Assign) and len(st.targets) == 1 and found is None:
                t = st.targets[0]
                rebinding = "MV_i2" in ob and N.u(t) == "%s[%s]" % (B, ob["MV_i2"])
                slicecopy = isinstance(t, ast.Subscript) and N.u(t.slice) == ":" and is_row(t.value)
                v = st.value
                for src in ("list(MX_r)", "MX_r[:]", "MX_r.copy()", "copy.copy(MX_r)", "copy.deepcopy(MX_r)"):
                    bb = N.unify(src, v)
                    if bb is not None and isinstance(bb["MX_r"][1], ast.Name):
                        v = bb["MX_r"][1]               # a copy of an alias is as mixed as the alias
                if (rebinding or slicecopy) and isinstance(v, ast.Name) and v.id in saves:
                    found = (saves[v.id][0], "%s = %s at line %d; %s bound at line %d" % (N.u(t), N.u(st.value), st.lineno, v.id, saves[v.id][1]))
                    ok = True
                elif (rebinding or slicecopy) and is_row(v):
                    found = ("alias", "%s = %s at line %d" % (N.u(t), N.u(st.value), st.lineno))
                    ok = True
            if not ok:
                raise ExtractError("load_subs: statement of the TimeoutException handler not recognised (line %d): %s" % (st.lineno, N.u(st).splitlines()[0]))
        if found is None:
            raise ExtractError("load_subs: the TimeoutException handler (line %d) does not put the row back" % handler.lineno)
        restores = found
    rowconv = dict(time_limited=time_limited, restores=restores, inplace=inplace,
                   handler_line=None if handler is None else handler.lineno, saves=saves, extra_params=[x.arg for x in extra])
    if c[0] != "nancase":
        raise ExtractError("load_subs: replace sequence / nan test not found")
    ops, nan_lit, val = c[1], c[2], c[3]
    want = ("condstr", ("dictzip", ("symeach", ("keys", ("lit", ops))), ("symeach", ("values", ("lit", ops)))))
    if val != want:
        raise ExtractError("load_subs: the non-nan branch is not dict(zip(sympify(keys), sympify(values))) of literal_eval of the "
                           "same quoted text, followed by the use_sympy switch")
    if not ops:
        raise ExtractError("load_subs: replace sequence / nan test not found")
    return list(ops), nan_lit, block, (fn0.lineno, fn0.end_lineno), rowconv


# ------------------------------------------------------------------------------------------------
# sympy_simplify: what can be recorded
# ------------------------------------------------------------------------------------------------

def _templates(tree):
    fn = extract.find_def(tree, "sympy_simplify")
    out = []

    def inv_of(lst, dom):
        if not (isinstance(lst, ast.List) and len(lst.elts) == 4):
            raise ExtractError("sympy_simplify: template is not a 4-element list (line %d)" % lst.lineno)
        e = lst.elts[3]
        if not (isinstance(e, ast.Call) and isinstance(e.func, ast.Name) and e.func.id == "str" and len(e.args) == 1
                and isinstance(e.args[0], ast.Dict) and len(e.args[0].keys) == 1 and ast.unparse(e.args[0].keys[0]) == "all_a[j]"):
            raise ExtractError("sympy_simplify: inverse is not str({all_a[j]: ...}) (line %d)" % e.lineno)
        flag = lst.elts[2]
        if not (isinstance(flag, ast.Constant) and flag.value in (0, 1)):
            raise ExtractError("sympy_simplify: template flag not 0/1 (line %d)" % lst.lineno)
        inv = ast.unparse(e.args[0].values[0])
        out.append((FAMILIES.get(inv, "unknown"), dom, inv, ast.unparse(lst.elts[0]), ast.unparse(lst.elts[1]), flag.value, lst.lineno))

    def from_value(v):
        if isinstance(v, ast.ListComp):
            g = v.generators
            if not (len(g) == 1 and isinstance(g[0].target, ast.Name) and g[0].target.id == "n" and isinstance(g[0].iter, ast.Name)
                    and g[0].iter.id in ("numbers", "even", "odd") and not g[0].ifs):
                raise ExtractError("sympy_simplify: template comprehension not recognised (line %d)" % v.lineno)
            inv_of(v.elt, g[0].iter.id)
        elif isinstance(v, ast.List):
            for e in v.elts:
                inv_of(e, "-")
        else:
            raise ExtractError("sympy_simplify: all_expr value not recognised (line %d)" % v.lineno)

    found = False
    for n in ast.walk(fn):
        if isinstance(n, ast.For) and isinstance(n.target, ast.Name) and n.target.id == "j" and ast.unparse(n.iter) == "range(len(param_list))":
            body = n.body[0].body if (len(n.body) == 1 and isinstance(n.body[0], ast.If)) else n.body
            for st in body:
                if isinstance(st, ast.Assign) and ast.unparse(st.targets[0]) == "all_expr":
                    from_value(st.value); found = True
                elif isinstance(st, ast.AugAssign) and ast.unparse(st.target) == "all_expr":
                    from_value(st.value)
    if not found:
        raise ExtractError("sympy_simplify: template table (all_expr) not found")
    # the domains of n
    src = ast.unparse(fn)
    for s in ["numbers = [atom for atom in sym_fun[i].atoms() if atom.is_number and atom.is_finite]",
              "even = [n for n in numbers if n.is_Integer and n.is_even]",
              "odd = [n for n in numbers if n.is_Integer and n.is_odd]",
              "if 'zoo' in str(expr[3]):"]:
        if s not in src:
            raise ExtractError("sympy_simplify: expected statement not found: %s" % s)
    # every other recorded expression
    sites = []
    for n in ast.walk(fn):
        x = None
        if isinstance(n, ast.Call) and isinstance(n.func, ast.Attribute) and n.func.attr == "append" and len(n.args) == 1 \
                and ast.unparse(n.func.value) in ("inv_subs_fun[i]", "new_inv_subs"):
            x = n.args[0]
        elif isinstance(n, ast.Assign) and ast.unparse(n.targets[0]) == "inv_subs_fun[i]" and isinstance(n.value, ast.List) \
                and len(n.value.elts) == 1:
            x = n.value.elts[0]
        if x is not None:
            sites.append(ast.unparse(x))
    kinds = []
    for s in sorted(set(sites)):
        k = {"expr[3]": "template", "str(np.nan)": "nan", "str({all_a[j]: -all_a[j]})": "neg",
             "str(try_subs[p])": "perm", "str(s)": "rename",
             "str({expr[0]: all_a[c[v]]})": "pair-keep", "str({expr[0]: sympy.Abs(all_a[c[v]])})": "pair-keep"}.get(s, "unknown")
        kinds.append((k, s))
    return out, kinds, (fn.lineno, fn.end_lineno)


@extract.extractor("Subs")
def gen(stage):
    tree = extract._parse(stage, SIMP)
    dtree = extract._parse(stage, DUPC)
    stmts, srcs, comb_src, comb_order, span1 = _get_all_dup(tree)
    seq, nan_lit, block, span2, rowconv = _load_subs(tree)
    tmpl, kinds, span3 = _templates(tree)
    rd = [d for d, ln in _csv_delims(extract.find_def(tree, "load_subs"), SIMP, "reader", _str_consts(tree))]
    wr = _csv_delims(tree, SIMP, "writer", _str_consts(tree)) + _csv_delims(dtree, DUPC, "writer", _str_consts(dtree))
    if len(rd) != 1:
        raise ExtractError("load_subs: expected exactly one csv.reader")
    if not wr:
        raise ExtractError("no csv.writer of inv_subs files found")
    t = extract.header("Subs", ["%s:%d-%d (get_all_dup)" % ((SIMP,) + span1), "%s:%d-%d (load_subs)" % ((SIMP,) + span2),
                                "%s:%d-%d (sympy_simplify)" % ((SIMP,) + span3), DUPC])
    t += "/-- value of a one-parameter `all_dup` entry `{a: e}`; `x` is the comprehension variable -/\n"
    t += "inductive UExpr\n  | x\n  | nat (n : Nat)\n  | neg (e : UExpr)\n  | mul (a b : UExpr)\n  | div (a b : UExpr)\n  | pow (a b : UExpr)\n  deriving DecidableEq, Repr\n\n"
    t += "/-- one `all_dup = / +=` statement of get_all_dup -/\n"
    t += "inductive DupStmt\n  | unary (e : UExpr)                 -- [str({a: e}) for a in all_a]\n"
    t += "  | pair (items : List (Nat × Nat))    -- [str({all_a[c[i]]: all_a[c[j]], …}) for c in comb], as (i, j)\n  deriving DecidableEq, Repr\n\n"
    for s in srcs:
        t += "-- %s\n" % s
    t += "def allDupStmts : List DupStmt := %s\n\n" % llist(stmts)
    t += "-- comb = %s\n" % comb_src.replace("\n", " ")
    t += "/-- order of the parameter indices whose 2-combinations `comb` lists (\"-\" = no pair statement) -/\n"
    t += "def combOrder : String := %s\n\n" % lstr(comb_order)
    t += "-- load_subs: %s\n" % "; ".join("line %d .replace(%r, %r)" % (ln, a, b) for a, b, ln in seq)
    t += "def replaceSeq : List (List Char × List Char) :=\n  %s\n\n" % llist(["(%s, %s)" % (lchars(a), lchars(b)) for a, b, ln in seq])
    t += "def nanLiteral : List Char := %s\n\n" % lchars(nan_lit)
    t += "/-- what the TimeoutException handler of load_subs' per-row conversion puts the row back from -/\n"
    t += "inductive Restore\n  | none      -- no handler around the conversion\n  | snapshot  -- a copy of the row taken before the first in-place write\n"
    t += "  | alias     -- another name of the very list the loop rewrites in place\n  deriving DecidableEq, Repr\n\n"
    t += "/-- one in-place write `row[j] = …` of the per-cell statements -/\n"
    t += "inductive RowStmt\n  | replace (n : Nat)   -- the next n `.replace` calls of `replaceSeq` applied to the cell text\n"
    t += "  | convert             -- np.nan / dict(zip(sympified keys, sympified values))\n"
    t += "  | stringify           -- `if not use_sympy: row[j] = str(row[j])`\n  deriving DecidableEq, Repr\n\n"
    t += "structure RowConversion where\n  timeLimited : Bool\n  restoresFrom : Restore\n  inPlace : List RowStmt\n  deriving DecidableEq, Repr\n\n"
    t += "-- load_subs per-row conversion: %s; %s\n" % (
        ("`with time_limit(..)` at line %d" % rowconv["time_limited"]) if rowconv["time_limited"] else "no time-limited region",
        ("`except TimeoutException` at line %d restores the row from %s (%s)" % (rowconv["handler_line"], rowconv["restores"][0], rowconv["restores"][1]))
        if rowconv["handler_line"] else "no TimeoutException handler")
    t += "-- in-place writes at lines %s%s\n" % (", ".join(str(ln) for _, ln in rowconv["inplace"]),
                                                ("; extra parameters: " + ", ".join(rowconv["extra_params"])) if rowconv["extra_params"] else "")
    t += "def loadSubsRows : RowConversion :=\n  ⟨%s, .%s, %s⟩\n\n" % (
        "true" if rowconv["time_limited"] else "false", rowconv["restores"][0], llist([k for k, _ in rowconv["inplace"]]))
    t += "-- line %d: all_subs[r] = %s\n" % (block[2], block[1])
    t += "def sliceLo : Nat := %d\ndef sliceHi : Nat := %d\n\n" % block[0]
    t += "def readerDelimiter : Char := %s\n" % lchars(rd[0])[1:-1]
    t += "-- csv.writer calls at lines %s\n" % ", ".join(str(ln) for d, ln in wr)
    t += "def writerDelimiters : List Char := %s\n\n" % lchars("".join(d for d, ln in wr))
    t += "/-- (model family, domain of n, inverse expression) per entry of `all_expr` in sympy_simplify -/\n"
    t += "def templates : List (String × String × String) :=\n  %s\n\n" % ("[" + ",\n   ".join(
        "(%s, %s, %s)" % (lstr(f), lstr(dom), lstr(inv)) for f, dom, inv, pat, rep, flag, ln in tmpl) + "]")
    t += "/-- every expression sympy_simplify appends to a chain: (kind, source) -/\n"
    t += "def recordSites : List (String × String) :=\n  %s\n" % ("[" + ",\n   ".join("(%s, %s)" % (lstr(k), lstr(s)) for k, s in kinds) + "]")
    t += extract.footer("Subs")
    return t


def template_sources(stage):
    """For the harness: the template table with the source text of pattern / replacement / inverse."""
    tmpl, kinds, _ = _templates(extract._parse(stage, SIMP))
    return [dict(family=f, domain=dom, inverse=inv, pattern=pat, replacement=rep, flag=flag, line=ln)
            for f, dom, inv, pat, rep, flag, ln in tmpl], kinds


def baseline_templates():
    """the template table of the committed baseline (harness/baseline_generated/Subs.lean), in template_sources' format;
    used by the harness only to keep exploring when today's sympy_simplify cannot be read (that stays a broken obligation)"""
    import os, re
    txt = open(os.path.join(extract.HERE, "baseline_generated", "Subs.lean")).read()
    def block(name):
        m = re.search(r"def %s .*?:=\n(.*?)\n\n|def %s .*?:=\n(.*)\Z" % (name, name), txt, flags=re.S)
        return (m.group(1) or m.group(2)) if m else ""
    unq = lambda x: x.replace('\\"', '"').replace("\\\\", "\\")
    tm = re.findall(r'\("((?:[^"\\]|\\.)*)", "((?:[^"\\]|\\.)*)", "((?:[^"\\]|\\.)*)"\)', block("templates"))
    ks = re.findall(r'\("((?:[^"\\]|\\.)*)", "((?:[^"\\]|\\.)*)"\)', block("recordSites"))
    return ([dict(family=unq(f), domain=unq(d), inverse=unq(i), pattern="?", replacement="?", flag=None, line=0) for f, d, i in tm],
            [(unq(k), unq(v)) for k, v in ks])
