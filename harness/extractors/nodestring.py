"""Generated/NodeString.lean: the list of binary labels node_to_string renders infix."""
import ast
import extract
from extract import ExtractError, lstr

extract.MODELLED += [("esr/generation/generator.py", None, "node_to_string")]


@extract.extractor("NodeString")
def gen(stage):
    fn = extract.find_def(extract._parse(stage, "esr/generation/generator.py"), "node_to_string")
    ops = None
    for n in ast.walk(fn):
        if isinstance(n, ast.Compare) and len(n.ops) == 1 and isinstance(n.ops[0], ast.In) and ast.unparse(n.left) == "labels[idx]":
            try:
                ops = ast.literal_eval(n.comparators[0])
            except Exception:
                raise ExtractError("node_to_string: infix operator list is not a literal")
    if not (isinstance(ops, list) and all(isinstance(o, str) for o in ops)):
        raise ExtractError("node_to_string: `labels[idx] in [...]` test not found")
    # the shape of the three returns: label + '(' + child + ')', '(' L ')' op '(' R ')', label '(' L ',' R ')'
    src = ast.unparse(fn)
    for frag in ("labels[idx] + '(' + node_to_string(tree[idx].left, tree, labels) + ')'",
                 "'(' + node_to_string(tree[idx].left, tree, labels) + ')' + labels[idx] + '(' + node_to_string(tree[idx].right, tree, labels) + ')'",
                 "labels[idx] + '(' + node_to_string(tree[idx].left, tree, labels) + ',' + node_to_string(tree[idx].right, tree, labels) + ')'"):
        if frag not in src:
            raise ExtractError("node_to_string: rendering expression changed shape: %s" % frag[:50])
    t = extract.header("NodeString", ["esr/generation/generator.py:node_to_string"])
    t += "def infixOps : List String := [%s]\n" % ", ".join(lstr(o) for o in ops)
    return t + extract.footer("NodeString")
