"""Self-test of the C08 translator (aifeyn.py + _norm_c08.py) on textual rewrites of /repo's sources:
    /venv/bin/python harness/extractors/_norm_c08_selftest.py [repo]        (exit 0 = every shape read as expected)
Part A rewrites the body of `aifeyn_complexity` (generator.py): expected is "same" (the regenerated definitions are
identical to those of the unchanged source), "differs" (read, but another table) or "error" (ExtractError: fail closed).
Part B rewrites `single_function` / `tree_to_aifeyn` (fit_single.py): expected is the parameter rule or "error"."""
import ast, os, re, sys
HERE = os.path.dirname(os.path.abspath(__file__))
sys.path.insert(0, os.path.dirname(HERE))
import extract
from extract import ExtractError
from extractors import aifeyn as AX

OPS = '    t = [tt for tt in tree if (tt not in param_list) and (not tt.lstrip("-").isdigit())]'
INTS = '    n = np.array([int(tt) for tt in tree if tt.lstrip("-").isdigit()])'
RET = '    return len(tree) * np.log(nop) + np.sum(np.log(np.abs(n)))\n'
NEST = '    def is_integer(lab):\n        return lab.lstrip("-").isdigit()\n'
USE = [(OPS, NEST + '    t = [tt for tt in tree if (tt not in param_list) and (not is_integer(tt))]'),
       (INTS, '    n = np.array([int(tt) for tt in tree if is_integer(tt)])')]

A_CASES = [
    ("unchanged", [], "same"),
    ("nested def of the predicate (C20r2b)", USE, "same"),
    ("nested def + result variable", USE + [(RET, '    aifeyn = len(tree) * np.log(nop) + np.sum(np.log(np.abs(n)))\n    return aifeyn\n')], "same"),
    ("predicate as a lambda", [(OPS, '    is_integer = lambda lab: lab.lstrip("-").isdigit()\n' + USE[0][1][len(NEST):]), USE[1]], "same"),
    ("predicate as a module-level private helper", [("def aifeyn_complexity(", 'def _is_integer(lab):\n    return lab.lstrip("-").isdigit()\n\n\ndef aifeyn_complexity('),
                                                    (OPS, USE[0][1][len(NEST):].replace("is_integer", "_is_integer")), (INTS, USE[1][1].replace("is_integer", "_is_integer"))], "same"),
    ("nested predicate strips another character", [(a, b.replace('lstrip("-")', 'lstrip("+")')) for a, b in USE], "differs"),
    ("nested predicate without lstrip", [(a, b.replace('lab.lstrip("-").isdigit()', 'lab.isdigit()')) for a, b in USE], "differs"),
    ("nested predicate reads a caller local bound by the comprehension", [(OPS, '    def is_integer(lab):\n        return tt.lstrip("-").isdigit()\n' + USE[0][1][len(NEST):]), USE[1]], "error"),
    ("nested def with two statements", [(OPS, '    def is_integer(lab):\n        lab = lab.lstrip("-")\n        return lab.isdigit()\n' + USE[0][1][len(NEST):]), USE[1]], "error"),
    ("nested def redefined later", USE + [(RET, '    def is_integer(lab):\n        return False\n' + RET)], "error"),
    ("nested def passed as a value", USE + [(RET, '    list(map(is_integer, tree))\n' + RET)], "error"),
    ("nested def called with a non-atom", [(OPS, NEST + '    t = [tt for tt in tree if (tt not in param_list) and (not is_integer(tt[0:]))]'), USE[1]], "error"),
    ("nested def with a default argument", [(a, b.replace("def is_integer(lab):", "def is_integer(lab, strip='-'):")) for a, b in USE], "error"),
    ("nested def with walrus", [(a, b.replace('return lab.lstrip("-").isdigit()', 'return (z := lab.lstrip("-")).isdigit()')) for a, b in USE], "error"),
]

PL_S = "        param_list = ['a%i'%j for j in range(max_param)]\n"
PL_T = "    param_list = [l for l in labels if l.startswith('a') and l[1:].isdigit()]\n"
HELP = ("def _labels_to_fstr(labels, basis_functions):\n    shape = generator.labels_to_shape(labels, basis_functions)\n"
        "    _, _, tree = generator.check_tree(shape)\n    return generator.node_to_string(0, tree, labels)\n\n\ndef single_function(")
THREE = ("    s = generator.labels_to_shape(labels, basis_functions)\n    success, _, tree = generator.check_tree(s)\n"
         "    fstr = generator.node_to_string(0, tree, labels)\n")
B_CASES = [
    ("unchanged", [], ("maxParamOfPrinted", "paramLikeLabels")),
    ("f-string names", [(PL_S, "        param_list = [f'a{j}' for j in range(max_param)]\n")], ("maxParamOfPrinted", "paramLikeLabels")),
    ("concatenated names", [(PL_S, "        param_list = ['a' + str(k) for k in range(max_param)]\n")], ("maxParamOfPrinted", "paramLikeLabels")),
    ("str.format names", [(PL_S, "        param_list = ['a{}'.format(k) for k in range(max_param)]\n")], ("maxParamOfPrinted", "paramLikeLabels")),
    ("other prefix", [(PL_S, "        param_list = [f'b{j}' for j in range(max_param)]\n")], ("error", "paramLikeLabels")),
    ("format with spec", [(PL_S, "        param_list = ['a{:d}'.format(k) for k in range(max_param)]\n")], ("error", "paramLikeLabels")),
    ("string from a private straight-line helper (C20r2b)", [("def single_function(", HELP), (THREE, "    fstr = _labels_to_fstr(labels, basis_functions)\n", "all")],
     ("maxParamOfPrinted", "paramLikeLabels")),
    ("helper that prints another tree", [("def single_function(", HELP.replace("node_to_string(0, tree, labels)", "node_to_string(0, tree, labels[::-1])")),
                                         (THREE, "    fstr = _labels_to_fstr(labels, basis_functions)\n", "all")], ("error", "paramLikeLabels")),
    ("helper with swapped arguments at the call", [("def single_function(", HELP), (THREE, "    fstr = _labels_to_fstr(basis_functions, labels)\n", "all")], ("error", "paramLikeLabels")),
    ("helper with a branch", [("def single_function(", HELP.replace("    return generator.node", "    if not shape:\n        return ''\n    return generator.node")),
                              (THREE, "    fstr = _labels_to_fstr(labels, basis_functions)\n", "all")], ("error", "paramLikeLabels")),
    ("C08c: tree_to_aifeyn names from range(max_param)", [(PL_T, "    param_list = ['a%i'%j for j in range(max_param)]\n")], ("maxParamOfPrinted", "maxParamOfPrinted")),
    ("C08c through helper and f-string", [("def single_function(", HELP), (THREE, "    fstr = _labels_to_fstr(labels, basis_functions)\n", "all"),
                                          (PL_T, "    param_list = [f'a{j}' for j in range(max_param)]\n")], ("maxParamOfPrinted", "maxParamOfPrinted")),
]


def _apply(src, reps):
    for r in reps:
        a, b = r[0], r[1]
        if a not in src:
            return None
        src = src.replace(a, b) if len(r) > 2 else src.replace(a, b, 1)
    return src


def _defs(table):
    """the regenerated definitions without the header (line spans / local names in doc comments move)"""
    return re.sub(r"/--.*?-/", "", "\n".join(l for l in table.splitlines() if not l.startswith("--")), flags=re.S)


def main(repo):
    bad = 0
    gsrc = open(os.path.join(repo, AX.GEN)).read()
    base = None
    for what, reps, want in A_CASES:
        s = _apply(gsrc, reps)
        if s is None:
            print("SKIP (source text not found): %s" % what); bad += 1; continue
        tree = ast.parse(s)
        try:
            a = AX._Aifeyn(extract.find_def(tree, "aifeyn_complexity"), tree)
            sig = (a.op_filter, a.int_filter, tuple(a.fixups), a.ret)
            if base is None:
                base = sig
            got, why = ("same" if sig == base else "differs"), ""
        except ExtractError as e:
            got, why = "error", "   <- " + str(e)[:110]
        flag = "ok " if got == want else "BAD"
        bad += got != want
        print("%s A got=%-7s expected=%-7s %s%s" % (flag, got, want, what, why))
    fsrc = open(os.path.join(repo, AX.FIT)).read()
    for what, reps, want in B_CASES:
        s = _apply(fsrc, reps)
        if s is None:
            print("SKIP (source text not found): %s" % what); bad += 1; continue
        tree = ast.parse(s)
        got, why = [], ""
        for name in ("single_function", "tree_to_aifeyn"):
            try:
                got.append(AX._call_site(extract.find_def(tree, name), tree))
            except ExtractError as e:
                got.append("error"); why += "   <- " + str(e)[:90]
        flag = "ok " if tuple(got) == want else "BAD"
        bad += tuple(got) != want
        print("%s B got=%s expected=%s %s%s" % (flag, "/".join(got), "/".join(want), what, why))
    print("%d case(s), %d wrong" % (len(A_CASES) + len(B_CASES), bad))
    return 1 if bad else 0


if __name__ == "__main__":
    sys.exit(main(sys.argv[1] if len(sys.argv) > 1 else "/repo"))
