"""Extractor for C06: the shape of the data logic of esr/fitting/combine_DL.py:main, as token lists.

Generated/Rank.lean defines `ESR.Gen.Rank.shape : List (String × List String)`; Props/C06.lean proves it equal to
`ESR.Rank.modelledShape` (what the hand model Model/Rank.lean assumes).  A change such as nanargmin -> argmin,
sorted -> np.argsort, reverse=True, or normalising before zeroing changes a token list and breaks that theorem.
Fail closed: an unrecognised statement shape raises ExtractError.
"""
import ast
import extract
from extract import ExtractError

REL = "esr/fitting/combine_DL.py"
extract.MODELLED.append((REL, None, "main"))

_BIN = {ast.Add: "+", ast.Sub: "-", ast.Mult: "*", ast.Div: "/", ast.BitOr: "|", ast.BitAnd: "&", ast.Pow: "**"}
_CMP = {ast.Eq: "==", ast.NotEq: "!=", ast.Lt: "<", ast.LtE: "<=", ast.Gt: ">", ast.GtE: ">=", ast.In: "in", ast.NotIn: "not in"}
_UN = {ast.Invert: "invert", ast.USub: "neg", ast.Not: "not"}


def toks(e):
    """expression -> flat token list (names, numpy function names, operators, constants)"""
    if isinstance(e, ast.Name):
        return [e.id]
    if isinstance(e, ast.Constant):
        return [repr(e.value)]
    if isinstance(e, ast.Attribute):
        return [e.attr] if isinstance(e.value, ast.Name) and e.value.id in ("np", "numpy") else toks(e.value) + ["." + e.attr]
    if isinstance(e, ast.Call):
        out = toks(e.func)
        for a in e.args:
            out += toks(a)
        for k in e.keywords:
            out += [str(k.arg) + "="] + toks(k.value)
        return out
    if isinstance(e, ast.UnaryOp):
        return [_UN.get(type(e.op), type(e.op).__name__)] + toks(e.operand)
    if isinstance(e, ast.BinOp):
        return toks(e.left) + [_BIN.get(type(e.op), type(e.op).__name__)] + toks(e.right)
    if isinstance(e, ast.Compare):
        out = toks(e.left)
        for o, c in zip(e.ops, e.comparators):
            out += [_CMP.get(type(o), type(o).__name__)] + toks(c)
        return out
    if isinstance(e, ast.Subscript):
        return toks(e.value) + toks(e.slice)
    if isinstance(e, ast.Tuple) or isinstance(e, ast.List):
        out = []
        for x in e.elts:
            out += toks(x)
        return out
    if isinstance(e, ast.Slice):
        return [":"]
    if isinstance(e, ast.Lambda):
        return ["lambda"] + toks(e.body)
    if isinstance(e, ast.ListComp):
        out = ["["] + toks(e.elt)
        for g in e.generators:
            out += ["for"] + toks(g.target) + ["in"] + toks(g.iter)
        return out + ["]"]
    raise ExtractError("unrecognised expression %s at line %d" % (type(e).__name__, getattr(e, "lineno", 0)))


def _base(t):
    while isinstance(t, ast.Subscript):
        t = t.value
    return t.id if isinstance(t, ast.Name) else None


def _is_rank0(test):
    return isinstance(test, ast.Compare) and isinstance(test.left, ast.Name) and test.left.id == "rank" and \
        len(test.ops) == 1 and isinstance(test.ops[0], ast.Eq) and isinstance(test.comparators[0], ast.Constant) and test.comparators[0].value == 0


@extract.extractor("Rank")
def rank(stage):
    tree = extract._parse(stage, REL)
    fn = extract.find_def(tree, "main")
    shape = []
    # ---- the per-unique loop: the For whose body assigns DL
    loop = None
    for n in fn.body:
        if isinstance(n, ast.For) and any(isinstance(s, ast.Assign) and _base(s.targets[0]) == "DL" for s in n.body):
            loop = n
    if loop is None:
        raise ExtractError("per-unique loop (assignment to DL) not found in combine_DL.main")
    seen_dl = False
    mins, args = [], []
    for s in loop.body:
        if isinstance(s, ast.Assign) and _base(s.targets[0]) == "DL" and isinstance(s.targets[0], ast.Name):
            shape.append(("dl", toks(s.value)))
            seen_dl = True
            continue
        if not seen_dl:
            continue
        if isinstance(s, ast.If):
            body = []
            for b in s.body:
                if isinstance(b, ast.Assign):
                    body += [_base(b.targets[0])] + toks(b.value)
                elif isinstance(b, ast.Continue):
                    body.append("continue")
                else:
                    raise ExtractError("unrecognised statement in the all-NaN guard, line %d" % b.lineno)
            if s.orelse:
                raise ExtractError("all-NaN guard has an else branch, line %d" % s.lineno)
            shape.append(("guard", toks(s.test) + ["then"] + body))
        elif isinstance(s, ast.Assign):
            tgt = _base(s.targets[0])
            if tgt == "DL_min":
                mins.append(":".join([tgt] + toks(s.value)))
            elif tgt is not None and tgt.endswith("_min"):
                args.append(":".join([tgt] + toks(s.value)))
            else:
                raise ExtractError("unrecognised assignment to %s in the per-unique loop, line %d" % (tgt, s.lineno))
        elif isinstance(s, ast.Expr) and isinstance(s.value, ast.Call):
            continue                                          # print
        else:
            raise ExtractError("unrecognised statement in the per-unique loop, line %d" % s.lineno)
    shape.append(("min", mins))
    shape.append(("argmin", args))
    # ---- rank-0 part: every statement of `if rank == 0:` blocks, flattened
    stmts = []
    for n in fn.body:
        if isinstance(n, ast.If) and _is_rank0(n.test):
            stmts += n.body
    mask, srt, gather, prel, dup = [], [], [], [], []
    def visit(ss):
        for s in ss:
            if isinstance(s, ast.Assign):
                tgt = _base(s.targets[0])
                names = {x.id for x in ast.walk(s.value) if isinstance(x, ast.Name)}
                if tgt == "mask":
                    mask.append(":".join(["mask"] + toks(s.value)))
                elif "mask" in names:
                    mask.append(":".join([tgt] + toks(s.value)))
                elif any(isinstance(x, ast.Call) and isinstance(x.func, ast.Name) and x.func.id == "sorted" for x in ast.walk(s.value)) \
                        or any(isinstance(x, ast.Attribute) and x.attr in ("sort", "argsort", "lexsort") for x in ast.walk(s.value)):
                    for x in ast.walk(s.value):
                        if isinstance(x, ast.Call) and ((isinstance(x.func, ast.Name) and x.func.id == "sorted") or
                                                        (isinstance(x.func, ast.Attribute) and x.func.attr in ("sort", "argsort", "lexsort"))):
                            first = toks(x.args[0]) if x.args else []
                            kw = []
                            for k in x.keywords:
                                kw += [str(k.arg) + "="] + toks(k.value)
                            srt.append(":".join(toks(x.func) + ["("] + first + [")"] + kw))
                elif "indices_sort" in names or "arr_sort" in names:
                    gather.append(":".join([tgt] + toks(s.value)))
                elif tgt in ("Prel", "Prel_DL"):
                    prel.append(":".join([tgt] + (toks(s.targets[0].slice) if isinstance(s.targets[0], ast.Subscript) else []) + ["="] + toks(s.value)))
            elif isinstance(s, ast.AugAssign):
                tgt = _base(s.target)
                if tgt in ("Prel", "Prel_DL"):
                    prel.append(":".join([tgt, _BIN.get(type(s.op), type(s.op).__name__) + "="] + toks(s.value)))
                elif tgt == "negloglike_list":
                    dup.append(":".join([tgt, _BIN.get(type(s.op), type(s.op).__name__) + "="] + toks(s.value)))
            elif isinstance(s, ast.If):
                if any(isinstance(b, ast.Continue) for b in s.body):
                    dup.append(":".join(["if"] + toks(s.test) + ["continue"]))
                guards_prel = any(isinstance(b, (ast.Assign, ast.AugAssign)) and
                                  _base(b.targets[0] if isinstance(b, ast.Assign) else b.target) in ("Prel", "Prel_DL")
                                  for b in s.body + s.orelse)
                if guards_prel:
                    prel.append(":".join(["if"] + toks(s.test)))
                visit(s.body)
                if guards_prel and s.orelse:
                    prel.append("else")
                visit(s.orelse)
                if guards_prel:
                    prel.append("endif")
            elif isinstance(s, ast.For):
                if any(isinstance(x, ast.Name) and x.id in ("Prel_DL", "negloglike_list") for b in s.body for x in ast.walk(b)):
                    prel.append(":".join(["for"] + toks(s.target) + ["in"] + toks(s.iter)))
                    visit(s.body)
                    prel.append("endfor")
            elif isinstance(s, ast.With):
                pass
    visit(stmts)
    shape += [("mask", mask), ("sort", srt), ("gather", gather), ("dup", dup), ("prel", prel)]
    out = extract.header("Rank", [REL + ":main (lines %d-%d)" % (fn.lineno, fn.end_lineno)])
    out += "/-- token lists of the statements of combine_DL.main that carry the ranking logic -/\n"
    out += "def shape : List (String × List String) :=\n  [ " + ",\n    ".join(
        "(%s, %s)" % (extract.lstr(k), extract.llist([extract.lstr(x) for x in v])) for k, v in shape) + " ]\n"
    out += extract.footer("Rank")
    return out
