"""Generated/Effects.lean: persistent-state effects of the generation stage, in execution order.

Walks duplicate_checker.main and inlines every function of generator/simplifier/duplicate_checker/utils it calls, in
source order; collects open()/np.loadtxt/np.savetxt/np.genfromtxt/os.remove and os.system (cat, sed, mv, rm, touch)
effects with the file name pattern (directory dropped, every formatted value replaced by '#').  Loops over literal
lists of strings are unrolled.  Fails closed on a shell command or open mode it does not know.
Also: np.random.shuffle calls not preceded by np.random.seed in the same function, and sympify(..., locals=locs) uses
in functions that do not (re)write the a<i> keys of the shared table first.
"""
import ast, re
import extract
from extract import ExtractError, lstr

FILES = ["esr/generation/duplicate_checker.py", "esr/generation/generator.py", "esr/generation/simplifier.py", "esr/generation/utils.py"]
READERS = {"np.loadtxt", "np.genfromtxt", "numpy.loadtxt"}
WRITERS = {"np.savetxt", "numpy.savetxt"}


def _fmt(e, env):
    """symbolic rendering of a str-valued expression; unknown values become {name}"""
    if isinstance(e, ast.Constant):
        return str(e.value)
    if isinstance(e, ast.Name):
        if e.id in env:
            return env[e.id] if isinstance(env[e.id], str) else _fmt(env[e.id], env)
        return "{%s}" % e.id
    if isinstance(e, ast.BinOp) and isinstance(e.op, ast.Add):
        return _fmt(e.left, env) + _fmt(e.right, env)
    if isinstance(e, ast.BinOp) and isinstance(e.op, ast.Mod):
        f = _fmt(e.left, env)
        args = e.right.elts if isinstance(e.right, ast.Tuple) else [e.right]
        vals = [_fmt(a, env) for a in args]
        out, k = "", 0
        i = 0
        while i < len(f):
            if f[i] == "%" and i + 1 < len(f) and f[i + 1] in "sid":
                out += vals[k] if k < len(vals) else "{?}"
                k += 1; i += 2
            else:
                out += f[i]; i += 1
        return out
    if isinstance(e, ast.Call) and isinstance(e.func, ast.Name) and e.func.id == "str" and e.args:
        return "{%s}" % ast.unparse(e.args[0])
    if isinstance(e, ast.JoinedStr):
        return "".join(_fmt(v.value, env) if isinstance(v, ast.FormattedValue) else str(v.value) for v in e.values)
    return "{%s}" % ast.unparse(e)[:30]


def _key(path):
    base = path.split("/")[-1]
    return re.sub(r"#+", "#", re.sub(r"\{[^}]*\}", "#", base))


def _shell(cmd, fn, ln):
    """effects of one shell command string (already symbolic)"""
    c = cmd.strip()
    out = []
    if c.startswith("cat ") and ">" in c:
        src, dst = c[4:].rsplit(">", 1)
        for s in src.split():
            if "find" in src:
                m = re.search(r'-name\s+"([^"]+)"', src)
                if not m:
                    raise ExtractError("shell at %s:%d: find without -name" % (fn, ln))
                out.append((_key(m.group(1)), "r")); break
            out.append((_key(s), "r"))
        out.append((_key(dst.strip()), "w"))
    elif c.startswith("sed ") and ">" in c:
        src, dst = c.rsplit(">", 1)
        out.append((_key(src.split()[-1]), "r")); out.append((_key(dst.strip()), "w"))
    elif c.startswith("mv "):
        a, b = c.split()[1:3]
        out.append((_key(a), "r")); out.append((_key(b), "w")); out.append((_key(a), "rm"))
    elif c.startswith("rm "):
        out.append((_key(c.split()[-1]), "rm"))
    elif c.startswith("touch "):
        out.append((_key(c.split()[-1]), "a"))
    else:
        raise ExtractError("shell command not modelled at %s:%d: %s" % (fn, ln, c[:60]))
    return out


FIT_FILES = ["esr/fitting/test_all.py", "esr/fitting/test_all_Fisher.py", "esr/fitting/match.py", "esr/fitting/combine_DL.py",
             "esr/generation/simplifier.py"]
FIT_STAGES = [("fit", "esr/fitting/test_all.py"), ("fisher", "esr/fitting/test_all_Fisher.py"), ("match", "esr/fitting/match.py"),
              ("combine", "esr/fitting/combine_DL.py")]


def analyse(stage, files=None, entry_file=None):
    files = files or FILES
    entry_file = entry_file or FILES[0]
    funcs = {}
    for rel in files:
        for n in extract._parse(stage, rel).body:
            if isinstance(n, ast.FunctionDef):
                funcs[n.name] = n
    effs = []
    visited = set()

    def callee(c):
        f = c.func
        nm = f.id if isinstance(f, ast.Name) else (f.attr if isinstance(f, ast.Attribute) else None)
        return nm if nm in funcs else None

    def walk_fn(name, env, depth, stack):
        fn = funcs[name]
        visited.add(name)
        walk(fn.body, dict(env), name, depth, stack + [name])

    def handle_call(c, env, fname, depth, stack):
        full = ast.unparse(c.func)
        if full == "open" and c.args:
            mode = c.args[1].value if len(c.args) > 1 and isinstance(c.args[1], ast.Constant) else "r"
            if mode not in ("r", "w", "a"):
                raise ExtractError("open mode %r at %s:%d not modelled" % (mode, fname, c.lineno))
            effs.append((fname, c.lineno, _key(_fmt(c.args[0], env)), mode))
        elif full in READERS and c.args:
            effs.append((fname, c.lineno, _key(_fmt(c.args[0], env)), "r"))
        elif full in WRITERS and c.args:
            effs.append((fname, c.lineno, _key(_fmt(c.args[0], env)), "w"))
        elif full == "os.remove" and c.args:
            effs.append((fname, c.lineno, _key(_fmt(c.args[0], env)), "rm"))
        elif full == "os.system" and c.args:
            for k, a in _shell(_fmt(c.args[0], env), fname, c.lineno):
                effs.append((fname, c.lineno, k, a))
        else:
            nm = callee(c)
            if nm and nm not in stack and depth < 6:
                sub = {}
                params = [a.arg for a in funcs[nm].args.args]
                for p, a in zip(params, c.args):
                    sub[p] = _fmt(a, env)
                for kw in c.keywords:
                    if kw.arg:
                        sub[kw.arg] = _fmt(kw.value, env)
                walk_fn(nm, sub, depth + 1, stack)

    def visit_expr(e, env, fname, depth, stack):
        for c in [n for n in ast.walk(e) if isinstance(n, ast.Call)]:
            handle_call(c, env, fname, depth, stack)

    def walk(body, env, fname, depth, stack):
        for st in body:
            if isinstance(st, ast.For):
                lit = None
                try:
                    lit = ast.literal_eval(st.iter)
                except Exception:
                    if isinstance(st.iter, ast.Name) and isinstance(env.get(st.iter.id), list):
                        lit = env[st.iter.id]
                if isinstance(lit, list) and all(isinstance(x, str) for x in lit) and isinstance(st.target, ast.Name):
                    for x in lit:
                        e2 = dict(env); e2[st.target.id] = x
                        walk(st.body, e2, fname, depth, stack)
                else:
                    visit_expr(st.iter, env, fname, depth, stack)
                    walk(st.body, env, fname, depth, stack)
            elif isinstance(st, (ast.If, ast.While)):
                visit_expr(st.test, env, fname, depth, stack)
                walk(st.body, env, fname, depth, stack)
                walk(st.orelse, env, fname, depth, stack)
            elif isinstance(st, ast.With):
                for it in st.items:
                    visit_expr(it.context_expr, env, fname, depth, stack)
                walk(st.body, env, fname, depth, stack)
            elif isinstance(st, ast.Try):
                walk(st.body, env, fname, depth, stack)
                for h in st.handlers:
                    walk(h.body, env, fname, depth, stack)
                walk(st.orelse, env, fname, depth, stack); walk(st.finalbody, env, fname, depth, stack)
            elif isinstance(st, (ast.FunctionDef, ast.ClassDef)):
                continue
            else:
                if isinstance(st, ast.Assign) and len(st.targets) == 1 and isinstance(st.targets[0], ast.Name):
                    try:
                        v = ast.literal_eval(st.value)
                        if isinstance(v, list) and all(isinstance(x, str) for x in v):
                            env[st.targets[0].id] = v
                    except Exception:
                        if isinstance(st.value, (ast.BinOp, ast.Constant, ast.JoinedStr)):
                            s = _fmt(st.value, env)
                            env[st.targets[0].id] = s
                visit_expr(st, env, fname, depth, stack)

    if "main" not in funcs:
        raise ExtractError("duplicate_checker.main not found")
    # `main` of duplicate_checker (the dict holds the last `main` seen: make sure it is that one)
    dc = extract._parse(stage, entry_file)
    funcs["main"] = extract.find_def(dc, "main")
    # same-named helpers of the entry module win over those of other modules
    for n in dc.body:
        if isinstance(n, ast.FunctionDef):
            funcs[n.name] = n
    walk_fn("main", {}, 0, [])
    if not effs:
        raise ExtractError("no file effect found in the generation stage")

    unseeded, locs_bad = [], []
    for name, fn in funcs.items():
        if name not in visited:
            continue                    # only what the generation stage can reach
        calls = sorted([c for c in ast.walk(fn) if isinstance(c, ast.Call)], key=lambda c: (c.lineno, c.col_offset))
        seeded = False
        # generators created inside the function body from a literal seed
        local_rngs = set()
        for n in ast.walk(fn):
            if isinstance(n, ast.Assign) and isinstance(n.value, ast.Call) and ast.unparse(n.value.func) in (
                    "np.random.RandomState", "np.random.default_rng", "numpy.random.RandomState", "numpy.random.default_rng", "random.Random") \
                    and n.value.args and isinstance(n.value.args[0], ast.Constant):
                for t in n.targets:
                    if isinstance(t, ast.Name):
                        local_rngs.add(t.id)
        for c in calls:
            f = ast.unparse(c.func)
            if f == "np.random.seed":
                seeded = True
            elif f in ("np.random.shuffle", "np.random.permutation", "random.shuffle"):
                if not seeded:
                    unseeded.append("%s:%d" % (name, c.lineno))
                seeded = False          # one seed per draw
            elif isinstance(c.func, ast.Attribute) and c.func.attr in ("shuffle", "permutation", "choice", "permuted") and isinstance(c.func.value, ast.Name):
                # a draw from some generator object: it must be created in this call from a literal seed
                # (a module-level or default-argument generator carries state from earlier calls)
                if c.func.value.id not in local_rngs:
                    unseeded.append("%s:%d" % (name, c.lineno))
        uses = [c for c in calls if ast.unparse(c.func).endswith("sympify") and any(kw.arg == "locals" and ast.unparse(kw.value) == "locs" for kw in c.keywords)]
        if uses:
            writes = [n for n in ast.walk(fn) if isinstance(n, ast.Assign) and any(isinstance(t, ast.Subscript) and ast.unparse(t.value) == "locs" for t in n.targets)]
            if not writes or min(w.lineno for w in writes) > min(u.lineno for u in uses):
                locs_bad.append("%s:%d" % (name, min(u.lineno for u in uses)))
    return effs, unseeded, locs_bad


@extract.extractor("Effects")
def gen(stage):
    effs, unseeded, locs_bad = analyse(stage)
    t = extract.header("Effects", FILES)
    t += "open ESR.Effects in\n/-- file effects of duplicate_checker.main and its callees, in execution order -/\ndef generation : List ESR.Effects.Eff := [\n"
    t += ",\n".join("  ⟨%s, %d, %s, .%s⟩" % (lstr(f), ln, lstr(k), a) for f, ln, k, a in effs)
    t += "\n  ]\n\n"
    for name, rel in FIT_STAGES:
        fe, _, _ = analyse(stage, FIT_FILES, rel)
        t += "/-- file effects of the `%s` fitting stage (%s main and its callees), in execution order -/\ndef %sStage : List ESR.Effects.Eff := [\n" % (name, rel, name)
        t += ",\n".join("  ⟨%s, %d, %s, .%s⟩" % (lstr(f), ln, lstr(k.replace("*", "#")), a) for f, ln, k, a in fe)
        t += "\n  ]\n\n"
    t += "def unseededShuffles : List String := [%s]\n" % ", ".join(lstr(x) for x in unseeded)
    t += "def locsReadBeforeWrite : List String := [%s]\n" % ", ".join(lstr(x) for x in locs_bad)
    t = t.replace("namespace ESR.Gen.Effects\n", "namespace ESR.Gen.Effects\n", 1)
    return "import ESRVerif.Model.Effects\n" + t + extract.footer("Effects")
