"""Generated/Effects.lean: persistent-state effects of the generation stage, in execution order.

Walks duplicate_checker.main and inlines every function of generator/simplifier/duplicate_checker/utils it calls, in
source order; collects open()/np.loadtxt/np.savetxt/np.genfromtxt/os.remove/os.unlink/os.rename/os.replace/shutil.move/
shutil.copy* and os.system (cat, sed, mv, rm, touch) effects with the file name pattern (directory dropped, every formatted
value replaced by '#').  Fails closed on a shell command, an open mode or a file operation (pathlib, tempfile, other
shutil/os calls) it does not know.
Also: np.random.shuffle calls not preceded by np.random.seed in the same function, and sympify(..., locals=<the shared
symbol table>) uses in functions that do not (re)write the a<i> keys of the shared table first.

Source shapes read as the same thing (each keeps the Python meaning; the list is part of the trusted translator):
  * file names: `%` formatting, f-strings, concatenation with str(), "...{}".format(...), os.path.join(d, name) (only the last
    path component names the file), a name hoisted into a local (`path = ...; open(path)`), a module-level constant;
  * file names, continued: a name handed back by a called function of the stage whose body is straight-line `name = <expr>` statements
    and one final `return <string-building expr>` (`open(_previous_eqns_file(likelihood, comp))`, also hoisted: `p = _name_of(d, n)`) --
    the arguments are substituted for the parameters; `sep.join(L)` for a list L of names (a display, a hoisted local, or
    `[<string-building expr> for v in <literal/hoisted list>]` with one generator and no condition); a piece chosen by a conditional
    of strings, in place or hoisted (`prefix = "unique" if unique else "all"`): the operation is listed once per possible name, first
    arm first -- for a READ/APPEND that is every file it may touch; an open that TRUNCATES one of several names is listed `conditional`
    with alternative `r` for each (none of them is known to be fresh afterwards); np.savetxt/os.remove/rename/copy target or a shell
    command chosen that way: fail closed.  When the test of the conditional is a parameter that THIS call binds to the constant
    True/False (as an argument or through its constant default, parameter never re-bound) only that arm is listed;
  * a parameter a call leaves to its constant default (True/False/a string, never re-bound in the callee) has that value in the callee;
    lists of names and conditional names are handed on to callees as they are;
  * loops over a literal list OR tuple of names (also hoisted into a local or a module-level constant) are unrolled, so they
    equal the duplicated statements; `with open(p, 'w'): pass` = `open(p, 'w').close()` (any open call counts);
  * open mode given positionally, as `mode=`, or through a local bound to a literal; 'b'/'t' dropped;
  * an open mode chosen at run time -- `'w' if <test> else 'a'` in place, or a local name bound to different literals /
    conditional expressions anywhere in the function (branches of an `if`, re-bound inside a loop) -- is read flow-
    insensitively as "any of the bound values": in the flat summary it is the WEAKEST of them (an append / a read unless every
    value truncates), in the structured summary (`generationProg`) it carries the condition: `firstIteration` when the only
    binding is `X if v == 0 else Y` (also `!=`, `v > 0`, `v >= 1`, `not v`, `v`) on the variable `v` of the innermost enclosing
    loop of the same function, bound inside that loop and `v` not re-bound in it; `conditional` otherwise.  More than two
    different modes, or a binding that is not a literal / conditional of literals: fail closed;
  * loops: a `for` over a literal list/tuple of names is unrolled; every other `for`/`while` is a LOOP BLOCK of the structured
    summary: its body may run any number of times including zero; `for v in range(e)` / `range(0, e)` visits the indices
    0, 1, 2, ... in order (`skips = false`), every other loop may skip any index (`skips = true`).  Loops nested in a loop block
    (directly or through a called function) are flattened into the body of the outermost one; a truncation inside such a nested
    loop may not happen in a given outer iteration and is listed `conditional` with alternative `r` (see `blocks`);
  * os.system('mv a b') = os.rename/os.replace/shutil.move(a, b); os.system('rm a') = os.remove/os.unlink(a);
  * one level of helper inlining and source-order (not line-number) comparisons: extractors/_norm_c16.py (A, B);
  * the seeded-shuffle rule reads `numpy.` as `np.`; a generator object may be seeded by a literal, by a local only ever
    bound to literals (`shuffle_seed = 1234`) or by a parameter of the function (an input of the call);
  * the shared symbol table is recognised by what it IS (a module-level dict of esr/fitting/sympy_symbols.py, under any
    local alias, import alias or module attribute, through `x if c else y` and through a called function all of whose
    returns hand it back), not by the local name `locs`; a store into its a<i> keys is recognised in every spelling of
    _norm_c16 (C): subscript store in an index/zip/enumerate loop, f-string/format/concatenated key, `.update(zip(names,
    symbols))`, `.update({...})`, or a call of a function that does one of these.
"""
import ast, re
import extract
from extract import ExtractError, lstr
from extractors import _norm_c16 as norm

FILES = ["esr/generation/duplicate_checker.py", "esr/generation/generator.py", "esr/generation/simplifier.py", "esr/generation/utils.py"]
READERS = {"np.loadtxt", "np.genfromtxt", "numpy.loadtxt"}
WRITERS = {"np.savetxt", "numpy.savetxt"}


class Alts(tuple):
    """the values a name bound to `X if c else Y` (string-valued arms) can take, first arm first"""


_CHOICE = "<choice>"            # env key: {id(IfExp node) | name bound to Alts: index of the arm taken} (see _fmt_all)
_CUR = dict(funcs=None)         # the functions of the stage being analysed (for path-helper calls in _fmt)


def _stringy(e):
    """the expression builds a string from at least one string literal (%, +, f-string, .format, join, conditional of those)"""
    if isinstance(e, ast.Constant):
        return isinstance(e.value, str)
    if isinstance(e, ast.JoinedStr):
        return True
    if isinstance(e, ast.BinOp) and isinstance(e.op, (ast.Add, ast.Mod)):
        return _stringy(e.left) or (isinstance(e.op, ast.Add) and _stringy(e.right))
    if isinstance(e, ast.IfExp):
        return _stringy(e.body) and _stringy(e.orelse)
    if isinstance(e, ast.Call) and isinstance(e.func, ast.Attribute) and e.func.attr in ("format", "join") and isinstance(e.func.value, ast.Constant) \
            and isinstance(e.func.value.value, str):
        return True
    if isinstance(e, ast.Call) and ast.unparse(e.func) in ("os.path.join", "path.join"):
        return True
    return False


def _fmt_list(e, env):
    """the strings of a list-valued expression, in order, or None: a display of string-building expressions, a name bound to such a
    list (literal or hoisted), `[<string-building expr> for v in <such a list>]` (one generator, no condition), tuple()/list() of one"""
    if isinstance(e, ast.Name):
        v = env.get(e.id)
        return list(v) if isinstance(v, list) else None
    if isinstance(e, (ast.List, ast.Tuple)):
        if not e.elts or not all(_stringy(x) or (isinstance(x, ast.Name) and isinstance(env.get(x.id), str)) for x in e.elts):
            return None
        return [_fmt(x, env) for x in e.elts]
    if isinstance(e, (ast.ListComp, ast.GeneratorExp)) and len(e.generators) == 1:
        g = e.generators[0]
        src = _fmt_list(g.iter, env)
        if src is None or g.ifs or g.is_async or not isinstance(g.target, ast.Name) or not _stringy(e.elt):
            return None
        out = []
        for x in src:
            e2 = dict(env); e2[g.target.id] = x
            out.append(_fmt(e.elt, e2))
        return out
    if isinstance(e, ast.Call) and isinstance(e.func, ast.Name) and e.func.id in ("list", "tuple") and len(e.args) == 1 and not e.keywords:
        return _fmt_list(e.args[0], env)
    return None


def _helper_value(c, env, depth=0):
    """`h(args)` for a function of the stage whose body is straight-line `name = <expr>` statements and one final `return <expr>`
    (no other statement): the symbolic value of the returned string, else None.  (The EFFECTS of the call are collected where every
    call is, by handle_call; this only reads what name the helper hands back.)"""
    funcs = _CUR["funcs"] or {}
    f = c.func
    nm = f.id if isinstance(f, ast.Name) else (f.attr if isinstance(f, ast.Attribute) and isinstance(f.value, ast.Name) else None)
    h = funcs.get(nm)
    if h is None or depth > 2 or h.decorator_list or h.args.vararg or h.args.kwarg:
        return None
    order = norm._bind(h, c)
    if order is None:
        return None
    body = norm._strip_doc(h.body)
    if not body or not isinstance(body[-1], ast.Return) or body[-1].value is None:
        return None
    e2 = dict(getattr(h, "_consts", {}))
    e2["<depth>"] = depth + 1
    if _CHOICE in env:
        e2[_CHOICE] = env[_CHOICE]
    for p, v, isdef in order:
        e2[p] = _fmt(v, {} if isdef else env)
    for st in body[:-1]:
        if not (isinstance(st, ast.Assign) and len(st.targets) == 1 and isinstance(st.targets[0], ast.Name)):
            return None
        lst = _fmt_list(st.value, e2)
        e2[st.targets[0].id] = lst if lst is not None else _fmt(st.value, e2)
    r = body[-1].value
    if not (_stringy(r) or isinstance(r, ast.Name)):
        return None
    return _fmt(r, e2)


def _static_test(t, env):
    """True / False when the test is a parameter that this call binds to the constant True / False (also `not p`), else None"""
    if isinstance(t, ast.Name) and type(env.get(t.id)) is bool:
        return env[t.id]
    if isinstance(t, ast.UnaryOp) and isinstance(t.op, ast.Not):
        v = _static_test(t.operand, env)
        return None if v is None else (not v)
    return None


def _fmt_all(e, env):
    """every string the expression can evaluate to, over the arms of the conditional expressions in it and the values of the names
    bound to a conditional of strings (`Alts`), first arms first; duplicates dropped"""
    points = []
    for n in ast.walk(e):
        if isinstance(n, ast.IfExp):
            if _static_test(n.test, env) is None:
                points.append((id(n), 2))
        elif isinstance(n, ast.Name) and isinstance(env.get(n.id), Alts) and (n.id, len(env[n.id])) not in points:
            points.append((n.id, len(env[n.id])))
    if not points:
        return [_fmt(e, env)]
    if len(points) > 4:
        raise ExtractError("file name %s depends on more than four run-time choices" % ast.unparse(e)[:40])
    out = []
    import itertools
    for pick in itertools.product(*[range(k) for _, k in points]):
        e2 = dict(env)
        e2[_CHOICE] = dict(env.get(_CHOICE, {}))
        e2[_CHOICE].update({p[0]: i for p, i in zip(points, pick)})
        s = _fmt(e, e2)
        if s not in out:
            out.append(s)
    return out


def _fmt(e, env):
    """symbolic rendering of a str-valued expression; unknown values become {name}"""
    if isinstance(e, ast.Constant):
        return str(e.value)
    if isinstance(e, ast.Name):
        if e.id in env:
            v = env[e.id]
            if isinstance(v, Alts):
                k = env.get(_CHOICE, {}).get(e.id)
                return v[k] if k is not None else "{%s}" % e.id
            if isinstance(v, list):
                return "{%s}" % e.id
            if type(v) is bool:
                return str(v)
            return v if isinstance(v, str) else _fmt(v, env)
        return "{%s}" % e.id
    if isinstance(e, ast.IfExp) and _static_test(e.test, env) is not None:
        return _fmt(e.body if _static_test(e.test, env) else e.orelse, env)
    if isinstance(e, ast.IfExp) and id(e) in env.get(_CHOICE, {}):
        return _fmt(e.orelse if env[_CHOICE][id(e)] else e.body, env)
    if isinstance(e, ast.Call) and isinstance(e.func, ast.Attribute) and e.func.attr == "join" and isinstance(e.func.value, ast.Constant) \
            and isinstance(e.func.value.value, str) and len(e.args) == 1 and not e.keywords:
        parts = _fmt_list(e.args[0], env)
        if parts is not None:
            return e.func.value.value.join(parts)
    if isinstance(e, ast.Call) and not (isinstance(e.func, ast.Name) and e.func.id == "str"):
        hv = _helper_value(e, env, env.get("<depth>", 0))
        if hv is not None:
            return hv
    if isinstance(e, ast.BinOp) and isinstance(e.op, ast.Add):
        return _fmt(e.left, env) + _fmt(e.right, env)
    if isinstance(e, ast.BinOp) and isinstance(e.op, ast.Mod):
        f = _fmt(e.left, env)
        args = e.right.elts if isinstance(e.right, ast.Tuple) else [e.right]
        vals = [_fmt(a, env) for a in args]
        out, k = "", 0
        i = 0
        while i < len(f):
            if f[i] == "%" and i + 1 < len(f) and f[i + 1] in "sid":
                out += vals[k] if k < len(vals) else "{?}"
                k += 1; i += 2
            else:
                out += f[i]; i += 1
        return out
    if isinstance(e, ast.Call) and isinstance(e.func, ast.Name) and e.func.id == "str" and e.args:
        return "{%s}" % ast.unparse(e.args[0])
    if isinstance(e, ast.Call) and ast.unparse(e.func) in ("os.path.join", "path.join") and e.args and not e.keywords \
            and not any(isinstance(a, ast.Starred) for a in e.args):
        # only the last component names the file (_key drops the directory)
        return "/".join(_fmt(a, env) for a in e.args)
    if isinstance(e, ast.Call) and isinstance(e.func, ast.Attribute) and e.func.attr == "format" and isinstance(e.func.value, ast.Constant) \
            and isinstance(e.func.value.value, str) and not any(isinstance(a, ast.Starred) for a in e.args):
        vals = [_fmt(a, env) for a in e.args]
        kw = {k.arg: _fmt(k.value, env) for k in e.keywords if k.arg}
        cnt = [0]

        def field(mo):
            nm = mo.group(1)
            if nm == "":
                i = cnt[0]; cnt[0] += 1
                return vals[i] if i < len(vals) else "{?}"
            if nm.isdigit():
                return vals[int(nm)] if int(nm) < len(vals) else "{?}"
            return kw.get(nm, "{?}")
        return re.sub(r"\{(\w*)(?:[:!][^}]*)?\}", field, e.func.value.value)
    if isinstance(e, ast.JoinedStr):
        return "".join(_fmt(v.value, env) if isinstance(v, ast.FormattedValue) else str(v.value) for v in e.values)
    return "{%s}" % ast.unparse(e)[:30]


def _key(path):
    base = path.split("/")[-1]
    return re.sub(r"#+", "#", re.sub(r"\{[^}]*\}", "#", base))


def _shell(cmd, fn, ln):
    """effects of one shell command string (already symbolic)"""
    c = cmd.strip()
    out = []
    if c.startswith("cat ") and ">" in c:
        src, dst = c[4:].rsplit(">", 1)
        for s in src.split():
            if "find" in src:
                m = re.search(r'-name\s+"([^"]+)"', src)
                if not m:
                    raise ExtractError("shell at %s:%d: find without -name" % (fn, ln))
                out.append((_key(m.group(1)), "r")); break
            out.append((_key(s), "r"))
        out.append((_key(dst.strip()), "w"))
    elif c.startswith("sed ") and ">" in c:
        src, dst = c.rsplit(">", 1)
        out.append((_key(src.split()[-1]), "r")); out.append((_key(dst.strip()), "w"))
    elif c.startswith("mv "):
        a, b = c.split()[1:3]
        out.append((_key(a), "r")); out.append((_key(b), "w")); out.append((_key(a), "rm"))
    elif c.startswith("rm "):
        out.append((_key(c.split()[-1]), "rm"))
    elif c.startswith("touch "):
        out.append((_key(c.split()[-1]), "a"))
    else:
        raise ExtractError("shell command not modelled at %s:%d: %s" % (fn, ln, c[:60]))
    return out


FIT_FILES = ["esr/fitting/test_all.py", "esr/fitting/test_all_Fisher.py", "esr/fitting/match.py", "esr/fitting/combine_DL.py",
             "esr/generation/simplifier.py"]
FIT_STAGES = [("fit", "esr/fitting/test_all.py"), ("fisher", "esr/fitting/test_all_Fisher.py"), ("match", "esr/fitting/match.py"),
              ("combine", "esr/fitting/combine_DL.py")]


TABLE_FILE = "esr/fitting/sympy_symbols.py"
TABLE_MODULE = "esr.fitting.sympy_symbols"
RNG_CTORS = ("np.random.RandomState", "np.random.default_rng", "random.Random")
_CACHE = {}


def _module(stage, rel):
    """normalised tree of one module (helpers inlined, see _norm_c16), the module-level names that are the shared symbol table, the
    names under which its defining module is imported"""
    src = extract._read(stage, rel)
    k = (stage, rel, hash(src))
    if k not in _CACHE:
        if True:
            tree, inl = norm.inline_helpers(ast.parse(src))
            tabs = _table_names(stage)
            g, mods = set(), set()
            if rel == TABLE_FILE:
                g |= tabs
            for n in ast.walk(tree):
                if isinstance(n, ast.ImportFrom) and n.module == TABLE_MODULE and not n.level:
                    for a in n.names:
                        if a.name in tabs:
                            g.add(a.asname or a.name)
                elif isinstance(n, ast.ImportFrom) and n.module == TABLE_MODULE.rsplit(".", 1)[0] and not n.level:
                    for a in n.names:
                        if a.name == TABLE_MODULE.rsplit(".", 1)[1]:
                            mods.add(a.asname or a.name)
                elif isinstance(n, ast.Import):
                    for a in n.names:
                        if a.name == TABLE_MODULE:
                            mods.add(a.asname or a.name)
            # module-level aliases `LOCS = sympy_locs`
            for st in tree.body:
                if isinstance(st, ast.Assign) and isinstance(st.value, ast.Name) and st.value.id in g:
                    g |= {t.id for t in st.targets if isinstance(t, ast.Name)}
            consts = {}
            for st in tree.body:
                if isinstance(st, ast.Assign) and len(st.targets) == 1 and isinstance(st.targets[0], ast.Name):
                    try:
                        v = ast.literal_eval(st.value)
                    except Exception:
                        consts.pop(st.targets[0].id, None)
                        continue
                    if isinstance(v, str):
                        consts[st.targets[0].id] = v
                    elif isinstance(v, (list, tuple)) and v and all(isinstance(x, str) for x in v):
                        consts[st.targets[0].id] = list(v)
                    else:
                        consts.pop(st.targets[0].id, None)
            for n in ast.walk(tree):
                if isinstance(n, ast.FunctionDef):
                    n._tables, n._table_mods, n._table_attrs = g, mods, tabs
                    n._consts = {k_: v_ for k_, v_ in consts.items() if k_ not in norm._bound_names(n)}
            _CACHE[k] = tree
    return _CACHE[k]


def _table_names(stage):
    """module-level dict objects of esr/fitting/sympy_symbols.py (the symbol table every sympify call is given)"""
    try:
        src = extract._read(stage, TABLE_FILE)
        tree = ast.parse(src)
    except Exception as e:
        raise ExtractError("%s not readable (%s): where is the shared symbol table?" % (TABLE_FILE, e))
    k = (stage, "tables", hash(src))
    if k not in _CACHE:
        out = set()
        for st in tree.body:
            if isinstance(st, (ast.Assign, ast.AnnAssign)) and st.value is not None and (
                    isinstance(st.value, (ast.Dict, ast.DictComp)) or (isinstance(st.value, ast.Call) and ast.unparse(st.value.func) in ("dict", "collections.OrderedDict", "OrderedDict"))):
                for t in (st.targets if isinstance(st, ast.Assign) else [st.target]):
                    if isinstance(t, ast.Name):
                        out.add(t.id)
        _CACHE[k] = out
    return _CACHE[k]


def _mode_lit(mode, fname, lineno):
    mode = mode.replace("b", "").replace("t", "") or "r"
    if mode not in ("r", "w", "a"):
        raise ExtractError("open mode %r at %s:%d not modelled" % (mode, fname, lineno))
    return mode


def _mode_arms(e, fname, lineno):
    """literal modes an expression can evaluate to: a string constant, or (nested) `X if t else Y` of string constants"""
    if isinstance(e, ast.Constant) and isinstance(e.value, str):
        return [_mode_lit(e.value, fname, lineno)]
    if isinstance(e, ast.IfExp):
        return _mode_arms(e.body, fname, lineno) + _mode_arms(e.orelse, fname, lineno)
    raise ExtractError("open mode %s at %s:%d is not a literal nor a conditional of literals" % (ast.unparse(e)[:30], fname, lineno))


def _first_iteration_test(t, var):
    """+1: the test holds exactly when the loop variable is 0; -1: exactly when it is not; None: something else"""
    if var is None:
        return None
    isv = lambda x: isinstance(x, ast.Name) and x.id == var
    isc = lambda x, k: isinstance(x, ast.Constant) and type(x.value) is int and x.value == k
    if isv(t):
        return -1
    if isinstance(t, ast.UnaryOp) and isinstance(t.op, ast.Not) and isv(t.operand):
        return +1
    if isinstance(t, ast.Compare) and len(t.ops) == 1:
        a, op, b = t.left, t.ops[0], t.comparators[0]
        if isc(a, 0) and isv(b) and isinstance(op, (ast.Eq, ast.NotEq)):
            a, b = b, a
        if isv(a) and isc(b, 0):
            return {ast.Eq: +1, ast.NotEq: -1, ast.Gt: -1, ast.LtE: +1}.get(type(op))
        if isv(a) and isc(b, 1):
            return {ast.GtE: -1, ast.Lt: +1}.get(type(op))
    return None


_WEAK_ORDER = {"a": 0, "r": 1, "rm": 2, "w": 3}


def _open_mode(c, env, fname, fn=None, loop=None):
    """-> (acc, cond, alt): the open performs `acc` when `cond` holds and `alt` otherwise; cond in always / firstIteration /
    conditional.  For firstIteration `acc` is the mode of the iteration whose loop variable is 0.  For conditional the pair is
    ordered strongest first (a truncating mode, if there is one, is `acc`).
    `loop` = the innermost enclosing loop of the SAME function (dict(var, node)) or None."""
    m = c.args[1] if len(c.args) > 1 else None
    for kw in c.keywords:
        if kw.arg == "mode":
            m = kw.value
        elif kw.arg is None:
            raise ExtractError("open(**...) at %s:%d not modelled" % (fname, c.lineno))
    if m is None:
        return "r", "always", "r"
    site = None                         # the statement that decides the mode (for the firstIteration reading)
    exprs = [m]
    if isinstance(m, ast.Name):
        stores = [n for n in ast.walk(fn) if isinstance(n, ast.Name) and n.id == m.id and isinstance(n.ctx, (ast.Store, ast.Del))] if fn is not None else []
        binds = [n for n in ast.walk(fn) if isinstance(n, ast.Assign) and len(n.targets) == 1 and isinstance(n.targets[0], ast.Name)
                 and n.targets[0].id == m.id] if fn is not None else []
        params = [a.arg for a in (fn.args.posonlyargs + fn.args.args + fn.args.kwonlyargs)] if fn is not None else []
        if stores:
            # flow-insensitive: every value the name is ever bound to in this function (branches of an if, re-binding in a loop)
            if len(stores) != len(binds) or m.id in params or any(isinstance(n, (ast.Global, ast.Nonlocal)) and m.id in n.names for n in ast.walk(fn)):
                raise ExtractError("open mode %s at %s:%d: the name is bound in a way the translator does not read" % (m.id, fname, c.lineno))
            exprs = [b.value for b in binds]
            site = binds[0] if len(binds) == 1 else None
        elif isinstance(env.get(m.id), str) and "{" not in env[m.id]:
            exprs = [ast.Constant(env[m.id])]
        else:
            raise ExtractError("open mode %s at %s:%d is not a literal" % (ast.unparse(m)[:30], fname, c.lineno))
    else:
        site = m
    arms = []
    for e in exprs:
        arms += _mode_arms(e, fname, c.lineno)
    vals = sorted(set(arms), key=lambda a: -_WEAK_ORDER[a])
    if len(vals) == 1:
        return vals[0], "always", vals[0]
    if len(vals) > 2:
        raise ExtractError("open mode %s at %s:%d takes more than two values" % (ast.unparse(m)[:30], fname, c.lineno))
    # two possible modes: is it `X if <loop variable is 0> else Y`, decided inside the loop whose variable it tests?
    e = exprs[0] if len(exprs) == 1 else None
    if e is not None and isinstance(e, ast.IfExp) and isinstance(e.body, ast.Constant) and isinstance(e.orelse, ast.Constant) and loop is not None \
            and loop.get("var") is not None:
        pol = _first_iteration_test(e.test, loop["var"])
        node = loop["node"]
        inside = any(n is (site if site is not None else e) for st in node.body for n in ast.walk(st))
        rebound = any(isinstance(n, ast.Name) and n.id == loop["var"] and isinstance(n.ctx, (ast.Store, ast.Del)) for st in node.body for n in ast.walk(st))
        if pol is not None and inside and not rebound:
            first, later = (e.body, e.orelse) if pol > 0 else (e.orelse, e.body)
            return _mode_lit(first.value, fname, c.lineno), "firstIteration", _mode_lit(later.value, fname, c.lineno)
    return vals[0], "conditional", vals[1]


def weakest(acc, cond, alt):
    """the mode with the least guarantees among the possible ones (what the flat summary lists)"""
    return acc if cond == "always" else min(acc, alt, key=lambda a: _WEAK_ORDER[a])


def _seed_is_input(e, fn, kf):
    """the seed of a generator object: a literal, a local name only ever bound to literals, or a parameter of the function (an input of the call)"""
    if isinstance(e, ast.Constant):
        return True
    if isinstance(e, ast.Name):
        bs = kf.bind.get(e.id, [])
        a = fn.args
        params = {x.arg: None for x in a.posonlyargs + a.args + a.kwonlyargs}
        pos = a.posonlyargs + a.args
        params.update({p.arg: d for p, d in zip(pos[len(pos) - len(a.defaults):], a.defaults)})
        params.update({p.arg: d for p, d in zip(a.kwonlyargs, a.kw_defaults) if d is not None})
        if e.id in params and len(bs) == 1:
            return params[e.id] is None or isinstance(params[e.id], ast.Constant)
        return bool(bs) and all(b[0] == "assign" and isinstance(b[1], ast.Constant) for b in bs)
    return False


def _seed_state_after(c, funcs, bound, stack):
    """True / False when the called esr function ends with numpy's global generator freshly seeded / drawn from, None when it does neither"""
    f = c.func
    nm = f.id if isinstance(f, ast.Name) and f.id not in bound else (
        f.attr if isinstance(f, ast.Attribute) and isinstance(f.value, ast.Name) and f.value.id not in bound else None)
    if nm is None or nm not in funcs or nm in stack or len(stack) > 3:
        return None
    state = None
    b2 = norm._bound_names(funcs[nm])
    for _, c2 in norm.calls_in_order(funcs[nm]):
        g = _npname(ast.unparse(c2.func))
        if g == "np.random.seed":
            state = True
        elif g in ("np.random.shuffle", "np.random.permutation", "random.shuffle"):
            state = False
        else:
            s2 = _seed_state_after(c2, funcs, b2, stack + [nm])
            if s2 is not None:
                state = s2
    return state


def _npname(f):
    return re.sub(r"^numpy\.", "np.", f)


def _table_facts(name, funcs, memo, stack):
    """the shared symbol table in function `name`: which of its names may / must hold the table (local aliases, through
    `x if c else y`, parameter defaults, and the value of a called function that returns the table), whether it returns it,
    the first statement (index in source order) that gives the table to sympify and the first that stores into its a<i> keys
    (directly, by `.update(<key pairs>)`, or by calling a function that does)"""
    if name in memo:
        return memo[name]
    empty = dict(ret_may=False, ret_must=False, writes=False, first_use=None, first_write=None)
    if name in stack or name not in funcs or len(stack) >= 3:
        return empty
    fn = funcs[name]
    kf = norm.KeyFlow(fn)
    stmts = norm.stmts_in_order(fn)
    bound = norm._bound_names(fn) - {x for n in ast.walk(fn) if isinstance(n, ast.Global) for x in n.names}
    g = set(getattr(fn, "_tables", set())) - bound
    mods = set(getattr(fn, "_table_mods", set())) - bound
    attrs = getattr(fn, "_table_attrs", set())
    may, must = set(), set()

    def callee(c):
        f = c.func
        if isinstance(f, ast.Name) and f.id in funcs and f.id not in bound:
            return f.id
        if isinstance(f, ast.Attribute) and isinstance(f.value, ast.Name) and f.value.id not in bound and f.attr in funcs:
            return f.attr
        return None

    def is_table(e, names, sure):
        if isinstance(e, ast.Name):
            return e.id in g or e.id in names
        if isinstance(e, ast.Attribute):
            return e.attr in attrs and isinstance(e.value, (ast.Name, ast.Attribute)) and (ast.unparse(e.value) in mods or ast.unparse(e.value) == TABLE_MODULE)
        if isinstance(e, ast.IfExp):
            both = [is_table(e.body, names, sure), is_table(e.orelse, names, sure)]
            return all(both) if sure else any(both)
        if isinstance(e, ast.Call):
            nm = callee(e)
            if nm is not None:
                return _table_facts(nm, funcs, memo, stack + [name])["ret_must" if sure else "ret_may"]
        return False
    a = fn.args
    pos = a.posonlyargs + a.args
    for p_, d_ in list(zip(pos[len(pos) - len(a.defaults):], a.defaults)) + [(p_, d_) for p_, d_ in zip(a.kwonlyargs, a.kw_defaults) if d_ is not None]:
        if is_table(d_, set(), False):
            may.add(p_.arg)
    grew = True
    while grew:
        grew = False
        for nm, bs in kf.bind.items():
            if nm not in may and any(b[0] == "assign" and is_table(b[1], may, False) for b in bs):
                may.add(nm); grew = True
            if nm not in must and bs and all(b[0] == "assign" and is_table(b[1], must, True) for b in bs):
                must.add(nm); grew = True
    first_use, first_write = None, None
    rets = []
    for i, st in enumerate(stmts):
        if isinstance(st, ast.Return):
            rets.append(st.value)
        for e in norm._own_exprs(st):
            for n in ast.walk(e):
                if isinstance(n, ast.Call):
                    f = ast.unparse(n.func)
                    if f.endswith("sympify") or f.endswith("parse_expr"):
                        given = [kw.value for kw in n.keywords if kw.arg in ("locals", "local_dict")] + list(n.args[1:2])
                        if any(is_table(v, may, False) for v in given) and first_use is None:
                            first_use = (i, n.lineno)
                    recv = kf.update_of_keys(n)
                    if recv is not None and is_table(recv, must, True) and first_write is None:
                        first_write = i
                    nm = callee(n)
                    if nm is not None and first_write is None and _table_facts(nm, funcs, memo, stack + [name])["writes"]:
                        first_write = i
                elif isinstance(n, ast.Subscript) and isinstance(n.ctx, ast.Store) and kf.is_key(n.slice) and is_table(n.value, must, True) \
                        and first_write is None:
                    first_write = i
    out = dict(ret_may=any(v is not None and is_table(v, may, False) for v in rets),
               ret_must=bool(rets) and all(v is not None and is_table(v, must, True) for v in rets),
               writes=first_write is not None, first_use=first_use, first_write=first_write)
    if not stack:
        memo[name] = out
    return out


def _state_checks(name, fn, funcs, memo):
    """-> (shuffles not seeded in this call, first sympify that is given the shared table before this function (re)bound its a<i> keys)"""
    kf = norm.KeyFlow(fn)
    stmts = norm.stmts_in_order(fn)
    calls = norm.calls_in_order(fn)
    unseeded, locs_bad = [], []
    seeded = False
    # generators created inside the function body from a seed that is an input of the call
    local_rngs = set()
    for n in ast.walk(fn):
        if isinstance(n, ast.Assign) and isinstance(n.value, ast.Call) and _npname(ast.unparse(n.value.func)) in RNG_CTORS \
                and n.value.args and _seed_is_input(n.value.args[0], fn, kf):
            for t in n.targets:
                if isinstance(t, ast.Name):
                    local_rngs.add(t.id)
    bound = norm._bound_names(fn)
    for _, c in calls:
        f = _npname(ast.unparse(c.func))
        if f == "np.random.seed":
            seeded = True
        elif f in ("np.random.shuffle", "np.random.permutation", "random.shuffle"):
            if not seeded:
                unseeded.append("%s:%d" % (name, c.lineno))
            seeded = False          # one seed per draw
        elif _seed_state_after(c, funcs, bound, [name]) is not None:
            # a called function that seeds / draws from numpy's global generator leaves it seeded or used (its own draws are judged there)
            seeded = _seed_state_after(c, funcs, bound, [name])
        elif isinstance(c.func, ast.Attribute) and c.func.attr in ("shuffle", "permutation", "choice", "permuted") and isinstance(c.func.value, ast.Name):
            # a draw from some generator object: it must be created in this call from a literal seed
            # (a module-level or default-argument generator carries state from earlier calls)
            if c.func.value.id not in local_rngs:
                unseeded.append("%s:%d" % (name, c.lineno))
    t = _table_facts(name, funcs, memo, [])
    if t["first_use"] is not None and (t["first_write"] is None or t["first_write"] > t["first_use"][0]):
        locs_bad.append("%s:%d" % (name, t["first_use"][1]))
    return unseeded, locs_bad


def analyse(stage, files=None, entry_file=None, structured=False):
    files = files or FILES
    entry_file = entry_file or FILES[0]
    funcs = {}
    for rel in files:
        for n in _module(stage, rel).body:
            if isinstance(n, ast.FunctionDef):
                funcs[n.name] = n
    _CUR["funcs"] = funcs
    effs = []
    effx = []                   # parallel to effs: condition / alternative mode / loop block of each effect
    loops = []                  # enclosing loop blocks, outermost first (across inlined calls)
    nloop = [0]
    visited = set()

    def add(fname, lineno, key, acc, cond="always", alt=None):
        effs.append((fname, lineno, key, weakest(acc, cond, alt if alt is not None else acc)))
        effx.append(dict(acc=acc, cond=cond, alt=alt if alt is not None else acc, loop=loops[0]["id"] if loops else 0,
                         skips=bool(loops) and loops[0]["skips"], depth=len(loops)))

    class _Effs(object):        # effects of calls other than open(): unconditional
        @staticmethod
        def append(t):
            add(*t)

        @staticmethod
        def extend(ts):
            for t in ts:
                add(*t)

    def callee(c):
        f = c.func
        nm = f.id if isinstance(f, ast.Name) else (f.attr if isinstance(f, ast.Attribute) else None)
        return nm if nm in funcs else None

    def keys(e, env, fname, lineno, single=False):
        """the file-name patterns the path expression can stand for (more than one: a name chosen at run time by a conditional of strings).
        `single`: the operation truncates/removes -- with a run-time choice of the name no single file is known to be fresh after it: fail closed"""
        ks = []
        for s in _fmt_all(e, env):
            k = _key(s)
            if k not in ks:
                ks.append(k)
        if single and len(ks) > 1:
            raise ExtractError("the file written/removed at %s:%d is chosen at run time (%s): not modelled" % (fname, lineno, ast.unparse(e)[:40]))
        return ks

    def argval(a, env):
        """what a parameter of a called function stands for: the caller's list / alternatives handed on, else the symbolic string"""
        if isinstance(a, ast.Name) and (isinstance(env.get(a.id), (list, Alts)) or type(env.get(a.id)) is bool):
            return env[a.id]
        if isinstance(a, ast.Constant) and type(a.value) is bool:
            return a.value
        lst = _fmt_list(a, env)
        if lst is not None:
            return lst
        vs = _fmt_all(a, env)
        return vs[0] if len(vs) == 1 else Alts(vs)

    def walk_fn(name, env, depth, stack):
        fn = funcs[name]
        visited.add(name)
        e0 = dict(getattr(fn, "_consts", {}))           # module-level constant names / lists of names
        e0.update(env)
        walk(fn.body, e0, name, depth, stack + [name])

    def handle_call(c, env, fname, depth, stack):
        full = ast.unparse(c.func)
        effs = _Effs
        if full == "open" and c.args:
            inner = loops[-1] if loops and loops[-1]["fn"] == fname and loops[-1]["level"] == len(stack) else None
            acc, cond, alt = _open_mode(c, env, fname, funcs.get(fname), inner)
            ks = keys(c.args[0], env, fname, c.lineno)
            if len(ks) > 1 and acc in ("w", "rm") and cond == "always":
                # which of the names is truncated is decided at run time: each of them only MAY be
                acc, cond, alt = acc, "conditional", "r"
            for k in ks:
                add(fname, c.lineno, k, acc, cond, alt)
        elif full in READERS and c.args:
            effs.extend([(fname, c.lineno, k, "r") for k in keys(c.args[0], env, fname, c.lineno)])
        elif full in WRITERS and c.args:
            effs.extend([(fname, c.lineno, k, "w") for k in keys(c.args[0], env, fname, c.lineno, single=True)])
        elif full in ("os.remove", "os.unlink") and c.args:
            effs.extend([(fname, c.lineno, k, "rm") for k in keys(c.args[0], env, fname, c.lineno, single=True)])
        elif full in ("os.rename", "os.replace", "shutil.move") and len(c.args) == 2:
            (a_,), (b_,) = keys(c.args[0], env, fname, c.lineno, single=True), keys(c.args[1], env, fname, c.lineno, single=True)       # as the shell's mv
            effs.extend([(fname, c.lineno, a_, "r"), (fname, c.lineno, b_, "w"), (fname, c.lineno, a_, "rm")])
        elif full in ("shutil.copy", "shutil.copyfile", "shutil.copy2") and len(c.args) == 2:
            (b_,) = keys(c.args[1], env, fname, c.lineno, single=True)
            effs.extend([(fname, c.lineno, k, "r") for k in keys(c.args[0], env, fname, c.lineno)] + [(fname, c.lineno, b_, "w")])
        elif full.split(".")[0] in ("shutil", "tempfile", "pathlib") or full in ("Path", "os.truncate", "os.open", "os.removedirs", "os.rmdir", "io.open",
                                                                                 "np.save", "np.savez", "np.load", "np.fromfile", "numpy.save", "numpy.load") \
                or (isinstance(c.func, ast.Attribute) and c.func.attr in ("write_text", "write_bytes", "read_text", "read_bytes", "tofile", "touch")):
            raise ExtractError("file operation %s at %s:%d not modelled" % (full[:40], fname, c.lineno))
        elif full == "os.system" and c.args:
            cmds = _fmt_all(c.args[0], env)
            if len(cmds) > 1:
                raise ExtractError("shell command at %s:%d chosen at run time (%s): not modelled" % (fname, c.lineno, ast.unparse(c.args[0])[:40]))
            for k, a in _shell(cmds[0], fname, c.lineno):
                effs.append((fname, c.lineno, k, a))
        else:
            nm = callee(c)
            if nm and nm not in stack and depth < 6:
                sub = {}
                params = [a.arg for a in funcs[nm].args.args]
                for p, a in zip(params, c.args):
                    sub[p] = argval(a, env)
                for kw in c.keywords:
                    if kw.arg:
                        sub[kw.arg] = argval(kw.value, env)
                # a parameter the call leaves to its constant default (True/False/a string) has that value in this call
                a_ = funcs[nm].args
                pos_ = a_.posonlyargs + a_.args
                given = len(c.args) >= len(pos_) or any(isinstance(x, ast.Starred) for x in c.args) or any(kw.arg is None for kw in c.keywords)
                if not given:
                    for p_, d_ in list(zip(pos_[len(pos_) - len(a_.defaults):], a_.defaults)) + [(p_, d_) for p_, d_ in zip(a_.kwonlyargs, a_.kw_defaults) if d_ is not None]:
                        if p_.arg not in sub and isinstance(d_, ast.Constant) and (type(d_.value) is bool or isinstance(d_.value, str)) \
                                and not norm._rebound_in(funcs[nm], p_.arg):
                            sub[p_.arg] = d_.value
                walk_fn(nm, sub, depth + 1, stack)

    def visit_expr(e, env, fname, depth, stack):
        for c in [n for n in ast.walk(e) if isinstance(n, ast.Call)]:
            handle_call(c, env, fname, depth, stack)

    def walk(body, env, fname, depth, stack):
        for st in body:
            if isinstance(st, ast.For):
                lit = None
                try:
                    lit = ast.literal_eval(st.iter)
                except Exception:
                    lit = _fmt_list(st.iter, env)           # a hoisted list, a display / comprehension of string-building expressions
                if isinstance(lit, tuple):
                    lit = list(lit)             # a literal tuple of names is unrolled like a literal list
                if isinstance(lit, list) and lit and all(isinstance(x, str) for x in lit) and isinstance(st.target, ast.Name):
                    for x in lit:
                        e2 = dict(env); e2[st.target.id] = x
                        walk(st.body, e2, fname, depth, stack)
                else:
                    visit_expr(st.iter, env, fname, depth, stack)
                    # a loop block: the body may run any number of times (also zero); only `for v in range(e)` / `range(0, e)`
                    # is known to visit the indices 0, 1, 2, ... in order without skipping any
                    it = st.iter
                    contiguous = isinstance(it, ast.Call) and isinstance(it.func, ast.Name) and it.func.id == "range" and not it.keywords and (
                        len(it.args) == 1 or (len(it.args) == 2 and isinstance(it.args[0], ast.Constant) and it.args[0].value == 0)) \
                        and isinstance(st.target, ast.Name) and "range" not in norm._bound_names(funcs[fname])
                    nloop[0] += 1
                    loops.append(dict(id=nloop[0], skips=not contiguous, var=st.target.id if isinstance(st.target, ast.Name) else None,
                                      node=st, fn=fname, level=len(stack)))
                    try:
                        walk(st.body, env, fname, depth, stack)
                    finally:
                        loops.pop()
                    walk(st.orelse, env, fname, depth, stack)
            elif isinstance(st, ast.While):
                nloop[0] += 1
                loops.append(dict(id=nloop[0], skips=True, var=None, node=st, fn=fname, level=len(stack)))
                try:
                    visit_expr(st.test, env, fname, depth, stack)
                    walk(st.body, env, fname, depth, stack)
                finally:
                    loops.pop()
                walk(st.orelse, env, fname, depth, stack)
            elif isinstance(st, ast.If):
                visit_expr(st.test, env, fname, depth, stack)
                walk(st.body, env, fname, depth, stack)
                walk(st.orelse, env, fname, depth, stack)
            elif isinstance(st, ast.With):
                for it in st.items:
                    visit_expr(it.context_expr, env, fname, depth, stack)
                walk(st.body, env, fname, depth, stack)
            elif isinstance(st, ast.Try):
                walk(st.body, env, fname, depth, stack)
                for h in st.handlers:
                    walk(h.body, env, fname, depth, stack)
                walk(st.orelse, env, fname, depth, stack); walk(st.finalbody, env, fname, depth, stack)
            elif isinstance(st, (ast.FunctionDef, ast.ClassDef)):
                continue
            else:
                if isinstance(st, ast.Assign) and len(st.targets) == 1 and isinstance(st.targets[0], ast.Name):
                    try:
                        v = ast.literal_eval(st.value)
                        if isinstance(v, (list, tuple)) and v and all(isinstance(x, str) for x in v):
                            env[st.targets[0].id] = list(v)
                        elif isinstance(v, str):
                            env[st.targets[0].id] = v
                    except Exception:
                        lst = _fmt_list(st.value, env) if not isinstance(st.value, ast.Name) else None
                        if lst:
                            env[st.targets[0].id] = lst             # `parts = ['%s/%s_..' % (d, k) for k in kinds]`
                        elif isinstance(st.value, ast.IfExp) and _stringy(st.value):
                            vs = _fmt_all(st.value, env)            # `prefix = "unique" if unique else "all"`
                            env[st.targets[0].id] = vs[0] if len(vs) == 1 else Alts(vs)
                        elif isinstance(st.value, ast.Name) and isinstance(env.get(st.value.id), (list, Alts)):
                            env[st.targets[0].id] = env[st.value.id]
                        elif isinstance(st.value, ast.Call) and _helper_value(st.value, env) is not None:
                            env[st.targets[0].id] = _helper_value(st.value, env)     # `path = _name_of(dirname, compl)`
                        elif isinstance(st.value, ast.Call) and isinstance(st.value.func, ast.Attribute) and st.value.func.attr == "join" \
                                and isinstance(st.value.func.value, ast.Constant) and _fmt_list(st.value.args[0] if st.value.args else st.value, env) is not None:
                            env[st.targets[0].id] = _fmt(st.value, env)
                        elif isinstance(st.value, (ast.BinOp, ast.Constant, ast.JoinedStr)) or (isinstance(st.value, ast.Name) and st.value.id in env) \
                                or (isinstance(st.value, ast.Call) and (ast.unparse(st.value.func) in ("os.path.join", "path.join") or (
                                    isinstance(st.value.func, ast.Attribute) and st.value.func.attr == "format" and isinstance(st.value.func.value, ast.Constant)))):
                            # a hoisted file name: `path = dirname + ...`, `path = os.path.join(...)`, `path = "...{}".format(...)`
                            if isinstance(st.value, ast.Name):
                                env[st.targets[0].id] = env[st.value.id]
                            else:
                                vs = _fmt_all(st.value, env)            # more than one: built from a name bound to a conditional of strings
                                env[st.targets[0].id] = vs[0] if len(vs) == 1 else Alts(vs)
                visit_expr(st, env, fname, depth, stack)

    if "main" not in funcs:
        raise ExtractError("duplicate_checker.main not found")
    # `main` of duplicate_checker (the dict holds the last `main` seen: make sure it is that one)
    dc = _module(stage, entry_file)
    funcs["main"] = extract.find_def(dc, "main")
    # same-named helpers of the entry module win over those of other modules
    for n in dc.body:
        if isinstance(n, ast.FunctionDef):
            funcs[n.name] = n
    walk_fn("main", {}, 0, [])
    if not effs:
        raise ExtractError("no file effect found in the generation stage")

    unseeded, locs_bad = [], []
    memo = {}
    for name, fn in funcs.items():
        if name not in visited:
            continue                    # only what the generation stage can reach
        u, l = _state_checks(name, fn, funcs, memo)
        unseeded += u; locs_bad += l
    if structured:
        return effs, unseeded, locs_bad, effx
    return effs, unseeded, locs_bad


def blocks(effs, effx):
    """[(kind, skips, [(fname, line, key, acc, cond, alt)])]: maximal runs of effects of the same loop block (0 = straight-line).
    An effect inside a loop nested in the block's loop may not happen in a given iteration of the outer loop: a truncation
    there is listed as `conditional` with alternative `r` (the weakest reading: no guarantee, the file must already be fresh)."""
    out = []
    for (f, ln, k, _), m in zip(effs, effx):
        acc, cond, alt = m["acc"], m["cond"], m["alt"]
        if m["depth"] >= 2:
            if cond == "firstIteration":
                cond = "conditional"
            if acc in ("w", "rm") or alt in ("w", "rm"):
                acc, cond, alt = (acc if acc in ("w", "rm") else alt), "conditional", ("r" if alt in ("w", "rm") and acc in ("w", "rm") else min(acc, alt, key=lambda a: _WEAK_ORDER[a]))
        if not out or out[-1][0] != m["loop"]:
            out.append((m["loop"], m["skips"], []))
        out[-1][2].append((f, ln, k, acc, cond, alt))
    return out


def _lean_block(b):
    loop, skips, ops = b
    body = ",\n".join("    ⟨⟨%s, %d, %s, .%s⟩, .%s, .%s⟩" % (lstr(f), ln, lstr(k), acc, cond, alt) for f, ln, k, acc, cond, alt in ops)
    return ("  .loop %s [\n%s]" % ("true" if skips else "false", body)) if loop else ("  .straight [\n%s]" % body)


@extract.extractor("Effects")
def gen(stage):
    effs, unseeded, locs_bad, effx = analyse(stage, structured=True)
    t = extract.header("Effects", FILES)
    t += "open ESR.Effects in\n/-- file effects of duplicate_checker.main and its callees, in execution order -/\ndef generation : List ESR.Effects.Eff := [\n"
    t += ",\n".join("  ⟨%s, %d, %s, .%s⟩" % (lstr(f), ln, lstr(k), a) for f, ln, k, a in effs)
    t += "\n  ]\n\n"
    t += ("/-- the same stage with its structure: open modes chosen at run time keep their condition, and the effects inside a\n"
          "`for`/`while` over a run-time collection form a loop block (`false`: `for v in range(e)`, no index skipped) -/\n"
          "def generationProg : ESR.Effects.Prog := [\n")
    t += ",\n".join(_lean_block(b) for b in blocks(effs, effx))
    t += "\n  ]\n\n"
    for name, rel in FIT_STAGES:
        fe, _, _ = analyse(stage, FIT_FILES, rel)
        t += "/-- file effects of the `%s` fitting stage (%s main and its callees), in execution order -/\ndef %sStage : List ESR.Effects.Eff := [\n" % (name, rel, name)
        t += ",\n".join("  ⟨%s, %d, %s, .%s⟩" % (lstr(f), ln, lstr(k.replace("*", "#")), a) for f, ln, k, a in fe)
        t += "\n  ]\n\n"
    t += "def unseededShuffles : List String := [%s]\n" % ", ".join(lstr(x) for x in unseeded)
    t += "def locsReadBeforeWrite : List String := [%s]\n" % ", ".join(lstr(x) for x in locs_bad)
    t = t.replace("namespace ESR.Gen.Effects\n", "namespace ESR.Gen.Effects\n", 1)
    return "import ESRVerif.Model.Effects\n" + t + extract.footer("Effects")
