"""Generated/Rewrite.lean: the four tables at the top of generator.update_tree (pow_set, pow_num, exp_set, exp_ord)."""
import ast, re
import extract
from extract import ExtractError, lstr, llist

extract.MODELLED += [
    ("esr/generation/generator.py", None, "update_tree"),
    ("esr/generation/generator.py", None, "update_sums"),
    ("esr/generation/generator.py", None, "find_additional_trees"),
]

_NUM = re.compile(r"([*/])(-?[0-9]+)\Z")


def tables(stage):
    fn = extract.find_def(extract._parse(stage, "esr/generation/generator.py"), "update_tree")
    got = {}
    for n in fn.body:
        if isinstance(n, ast.Assign) and len(n.targets) == 1 and isinstance(n.targets[0], ast.Name) \
                and n.targets[0].id in ("pow_set", "pow_num", "exp_set", "exp_ord"):
            name = n.targets[0].id
            if name in got:
                raise ExtractError("update_tree: %s assigned twice (line %d)" % (name, n.lineno))
            try:
                got[name] = (ast.literal_eval(n.value), n.lineno)
            except Exception:
                raise ExtractError("update_tree: %s is not a literal (line %d)" % (name, n.lineno))
    # no later re-binding / mutation of the tables anywhere in the function
    for n in ast.walk(fn):
        if isinstance(n, (ast.Assign, ast.AugAssign, ast.AnnAssign)):
            tg = n.targets if isinstance(n, ast.Assign) else [n.target]
            for t in tg:
                base = t
                while isinstance(base, (ast.Subscript, ast.Attribute)):
                    base = base.value
                if isinstance(base, ast.Name) and base.id in got and n.lineno != got[base.id][1]:
                    raise ExtractError("update_tree: %s modified at line %d" % (base.id, n.lineno))
        if isinstance(n, ast.Call) and isinstance(n.func, ast.Attribute) and isinstance(n.func.value, ast.Name) \
                and n.func.value.id in got and n.func.attr in ("append", "update", "pop", "remove", "extend", "insert", "clear", "setdefault"):
            raise ExtractError("update_tree: %s mutated at line %d" % (n.func.value.id, n.lineno))
    for k in ("pow_set", "pow_num", "exp_set", "exp_ord"):
        if k not in got:
            raise ExtractError("update_tree: table %s not found" % k)
    ps, pn, es, eo = (got[k][0] for k in ("pow_set", "pow_num", "exp_set", "exp_ord"))
    if not (isinstance(ps, list) and all(isinstance(x, str) for x in ps)):
        raise ExtractError("pow_set is not a list of strings")
    if not (isinstance(es, list) and all(isinstance(x, str) for x in es)):
        raise ExtractError("exp_set is not a list of strings")
    if not (isinstance(pn, dict) and all(isinstance(k, str) and isinstance(v, str) for k, v in pn.items())):
        raise ExtractError("pow_num is not a dict of strings")
    if not (isinstance(eo, dict) and all(isinstance(k, str) and isinstance(v, int) and not isinstance(v, bool) and v >= 0 for k, v in eo.items())):
        raise ExtractError("exp_ord is not a dict str -> natural")
    pnum = []
    for k, v in pn.items():
        m = _NUM.match(v)
        if not m:
            raise ExtractError("pow_num[%r] = %r is not '*<int>' or '/<int>'" % (k, v))
        pnum.append((k, m.group(1), int(m.group(2))))
    return dict(pow_set=ps, pow_num=pnum, exp_set=es, exp_ord=list(eo.items()),
                lines={k: got[k][1] for k in got})


@extract.extractor("Rewrite")
def gen(stage):
    tb = tables(stage)
    t = extract.header("Rewrite", ["esr/generation/generator.py:update_tree (tables at lines %s)" % ",".join(str(tb["lines"][k]) for k in ("pow_set", "pow_num", "exp_set", "exp_ord"))])
    t += "def pow_set : List String := %s\n\n" % llist(map(lstr, tb["pow_set"]))
    t += ("/-- `pow_num[label] = op ++ str(n)`: the label multiplies (`*`) or divides (`/`) an exponent by `n`. -/\n"
          "structure PowNum where\n  label : String\n  op : String\n  n : Int\n  deriving Repr, DecidableEq\n\n")
    t += "def pow_num : List PowNum := [%s]\n\n" % ", ".join("⟨%s, %s, %d⟩" % (lstr(k), lstr(op), n) for k, op, n in tb["pow_num"])
    t += "def exp_set : List String := %s\n\n" % llist(map(lstr, tb["exp_set"]))
    t += "def exp_ord : List (String × Nat) := [%s]\n" % ", ".join("(%s, %d)" % (lstr(k), v) for k, v in tb["exp_ord"])
    t += extract.footer("Rewrite")
    return t
