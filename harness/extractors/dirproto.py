"""Generated/DirProto.lean: directory-creation steps of the fitting stages' set-up code."""
import ast
import extract
from extract import ExtractError, lstr

extract.MODELLED += [("esr/fitting/likelihood.py", "Likelihood", "__init__")]


def _steps(body, rank0=False, out=None, dirs=None):
    """collect (kind, dir-expression, rank0Only, line) from a statement list"""
    out = [] if out is None else out
    for st in body:
        if isinstance(st, ast.If):
            test = ast.unparse(st.test)
            r0 = rank0 or ("rank == 0" in test or "rank==0" in test)
            if "isdir" in test and "not" in test:
                # if not os.path.isdir(X): ... os.mkdir(X)
                mk = [c for c in ast.walk(ast.Module(body=st.body, type_ignores=[])) if isinstance(c, ast.Call) and ast.unparse(c.func) in ("os.mkdir", "os.makedirs")]
                if len(mk) != 1:
                    raise ExtractError("isdir-guarded block at line %d does not contain exactly one mkdir" % st.lineno)
                c = mk[0]
                exist_ok = any(kw.arg == "exist_ok" and isinstance(kw.value, ast.Constant) and kw.value.value is True for kw in c.keywords)
                out.append(("makedirsExistOk" if exist_ok else "checkMkdir", ast.unparse(c.args[0]), r0, st.lineno))
            else:
                _steps(st.body, r0, out)
                _steps(st.orelse, rank0, out)
        elif isinstance(st, (ast.For, ast.With, ast.While)):
            _steps(st.body, rank0, out)
        elif isinstance(st, ast.Try):
            _steps(st.body, rank0, out)
        else:
            for c in ast.walk(st):
                if isinstance(c, ast.Call) and ast.unparse(c.func) in ("os.mkdir", "os.makedirs"):
                    exist_ok = any(kw.arg == "exist_ok" and isinstance(kw.value, ast.Constant) and kw.value.value is True for kw in c.keywords)
                    if not exist_ok:
                        raise ExtractError("unguarded os.mkdir at line %d" % c.lineno)
                    out.append(("makedirsExistOk", ast.unparse(c.args[0]), rank0, c.lineno))
    return out


def protocols(stage):
    res = []
    lk = extract._parse(stage, "esr/fitting/likelihood.py")
    # every class's __init__ (subclasses call super().__init__)
    for cls in [n for n in lk.body if isinstance(n, ast.ClassDef)]:
        for fn in [n for n in cls.body if isinstance(n, ast.FunctionDef) and n.name == "__init__"]:
            st = _steps(fn.body)
            if st:
                res.append(("likelihood.%s.__init__" % cls.name, st, False))
    ta = extract._parse(stage, "esr/fitting/test_all.py")
    gf = extract.find_def(ta, "get_functions")
    st = _steps(gf.body)
    # barrier directly after the rank-0 block?
    barrier = False
    for k, n in enumerate(gf.body):
        if isinstance(n, ast.If) and "rank" in ast.unparse(n.test) and any("mkdir" in ast.unparse(c) for c in ast.walk(n)):
            nxt = gf.body[k + 1] if k + 1 < len(gf.body) else None
            barrier = nxt is not None and "comm.Barrier()" in ast.unparse(nxt)
    if st:
        res.append(("test_all.get_functions", st, barrier))
    return res


@extract.extractor("DirProto")
def gen(stage):
    ps = protocols(stage)
    if not ps:
        raise ExtractError("no directory-creation step found in likelihood.py / test_all.get_functions")
    t = extract.header("DirProto", ["esr/fitting/likelihood.py", "esr/fitting/test_all.py:get_functions"])
    t += ("inductive Kind where | checkMkdir | makedirsExistOk deriving Repr, DecidableEq\n"
          "structure Step where\n  kind : Kind\n  dir : Nat\n  deriving Repr, DecidableEq\n"
          "structure Protocol where\n  name : String\n  rank0Only : Bool\n  barrierAfter : Bool\n  steps : List Step\n  dirNames : List String\n  deriving Repr, DecidableEq\n\n"
          "def protocols : List Protocol := [\n")
    items = []
    for name, st, barrier in ps:
        r0 = all(s[2] for s in st)
        if not r0 and any(s[2] for s in st):
            raise ExtractError("%s mixes rank-0-only and all-rank directory creation" % name)
        dirs = []
        steps = []
        for kind, d, _, ln in st:
            if d not in dirs:
                dirs.append(d)
            steps.append("⟨.%s, %d⟩" % (kind, dirs.index(d)))
        items.append("  ⟨%s, %s, %s, [%s], [%s]⟩" % (lstr(name), "true" if r0 else "false", "true" if barrier else "false",
                                                  ", ".join(steps), ", ".join(lstr(d) for d in dirs)))
    t += ",\n".join(items) + "\n  ]\n" + extract.footer("DirProto")
    return t
