"""Generated/DirProto.lean: directory-creation steps of the fitting stages' set-up code.

For `Likelihood.__init__` (every class of esr/fitting/likelihood.py) and `test_all.get_functions` the translator
walks the statements in execution order and records every directory creation as one step

    checkMkdir d        `os.mkdir(d)` executed only where `os.path.isdir(d)` / `os.path.exists(d)` was seen false
    makedirsExistOk d   `os.makedirs(d, exist_ok=True)` (guarded or not)

together with whether the step is executed by rank 0 only, and whether a rank-0-only creation is followed by a
barrier that every rank reaches before any other rank does anything that is not inert.  Anything else that creates a
directory (`os.mkdir` not under a recognised existence test of the same directory, `os.makedirs` without
`exist_ok=True`, `Path(..).mkdir`, a helper that cannot be inlined) is an ExtractError: fail closed.

What the walk understands (semantics-preserving normalisations, part of the trusted translator; N1-N5 are in
extractors/_norm_c14.py):

 N1  tests as conjunctions/disjunctions of literals: double negation, De Morgan, `not a == b`; facts known in the
     body, in the `else` part and - guard inversion - after a branch that always jumps (`if isdir(d): continue` /
     `return` followed by the creation; `else` after a jump dropped or present);
 N2  rank-0 tests `rank == 0`, `0 == rank`, `not rank`, `rank < 1`, `rank <= 0` and negations (`if rank != 0: ...
     else: create`), also as one conjunct (`if rank == 0 and not os.path.isdir(d)`); `rank` must be bound by
     `<x>.Get_rank()` / `<x>.rank`;
 N3  hoisted temporaries and named constants (`is_root = rank == 0`, `missing = not os.path.isdir(d)`,
     `dirs = (a, b, c)`, `like_dir = ...; self.like_dir = like_dir`), tuple assignment and chained assignment:
     names bound exactly once in the function to a pure expression are substituted, in statement order; a remembered
     existence test is forgotten as soon as the same rank creates any directory, and a fact about `d` is forgotten
     when a name occurring in `d` is re-bound;
 N4  `(a, b, c)[k]`, `len((a, b, c))` with literal k;
 N5  loops over a literal tuple/list (also via `enumerate`, `zip`, `range(len(lit))`, `range(3)`) are unrolled, so
     that a loop over `(a, b, c)` and three duplicated statements give the same table; other loops are walked once
     with the loop variable symbolic;
 N6  a directory is named by the attribute it is stored in when the created expression is the (resolved) value
     assigned to that attribute (`like_dir = ...; self.like_dir = like_dir; os.makedirs(like_dir)` -> `self.like_dir`);
     names only label the table's `dirNames`, the theorems do not depend on them;
 N7  one level of helper inlining: a module-level function, a method of the same class called as `self.f(..)` /
     `Cls.f(..)`, or a nested closure, whose body (transitively) creates directories, is inlined at the call with
     parameters bound to the resolved arguments (defaults included); a second level, `*args`/`**kwargs`, or a
     decorated helper other than @staticmethod is an ExtractError;
 N8  barrier after a rank-0 creation: the first following statement of the same statement list that is not inert
     must be `<comm>.Barrier()` / `.barrier()`; inert = rank-0-only blocks, `print`, `sys.setrecursionlimit`,
     assignments of pure expressions (merged / reordered adjacent `if rank == 0:` blocks).
"""
import ast
import extract
from extract import ExtractError, lstr
from extractors import _norm_c14 as N

extract.MODELLED += [("esr/fitting/likelihood.py", "Likelihood", "__init__"), ("esr/fitting/test_all.py", None, "main"),
                     ("esr/fitting/test_all_Fisher.py", None, "main"), ("esr/fitting/test_all_Fisher.py", None, "load_loglike")]

CREATORS = ("mkdir", "makedirs")
INERT_CALLS = ("print", "sys.setrecursionlimit", "len", "int", "float", "str", "np.ceil")


def _call_name(c):
    try:
        return ast.unparse(c.func)
    except Exception:                                    # pragma: no cover
        return "?"


def _creates_directly(fn):
    for c in ast.walk(fn):
        if isinstance(c, ast.Call):
            nm = _call_name(c)
            if nm.split(".")[-1] in CREATORS:
                return True
    return False


class _Scope(object):
    """helpers visible from the anchored function: module-level defs, methods of its class, nested defs"""
    def __init__(self, module, cls=None):
        self.module = module
        self.cls = cls
        self.funcs = {n.name: n for n in module.body if isinstance(n, ast.FunctionDef)}
        self.methods = {n.name: n for n in cls.body if isinstance(n, ast.FunctionDef)} if cls is not None else {}
        self.nested = {}
        # module-level names bound to the MPI rank: bound exactly once at module level, by `<x>.Get_rank()` / `<x>.rank`
        top = {}
        for st in module.body:
            for x in ast.walk(st) if not isinstance(st, (ast.FunctionDef, ast.AsyncFunctionDef, ast.ClassDef)) else []:
                if isinstance(x, ast.Name) and isinstance(x.ctx, (ast.Store, ast.Del)):
                    top[x.id] = top.get(x.id, 0) + 1
        self.rank_names = {a for a in N.rank_binding_names(module.body) if top.get(a, 0) == 1}

    def lookup(self, call):
        """(FunctionDef, drop_self) for a call of a helper defined in this module, else None"""
        f = call.func
        if isinstance(f, ast.Name):
            if f.id in self.nested:
                return self.nested[f.id], False
            if f.id in self.funcs:
                return self.funcs[f.id], False
        if isinstance(f, ast.Attribute) and isinstance(f.value, ast.Name) and f.attr in self.methods:
            static = any(isinstance(d, ast.Name) and d.id == "staticmethod" for d in self.methods[f.attr].decorator_list)
            if f.value.id == "self":
                return self.methods[f.attr], not static
            if self.cls is not None and f.value.id == self.cls.name and static:
                return self.methods[f.attr], False
        return None

    def refuse_foreign_method(self, call, line):
        """`self.f(..)` where f is not a method of this class but a directory-creating method of another class of the
        module (inherited helper): not inlined, so fail closed rather than record "no effect" """
        f = call.func
        if isinstance(f, ast.Attribute) and isinstance(f.value, ast.Name) and f.value.id in ("self", "cls") and f.attr not in self.methods:
            for c in [n for n in self.module.body if isinstance(n, ast.ClassDef)]:
                for m in c.body:
                    if isinstance(m, ast.FunctionDef) and m.name == f.attr and _creates_directly(m):
                        raise ExtractError("call of %s.%s (line %d): directory-creating method of another class is not inlined" % (c.name, m.name, line))

    def creates(self, fn, seen=None):
        """does `fn` create a directory, directly or through helpers of this module?"""
        seen = set() if seen is None else seen
        if id(fn) in seen:
            return False
        seen.add(id(fn))
        if _creates_directly(fn):
            return True
        for c in ast.walk(fn):
            if isinstance(c, ast.Call):
                hit = self.lookup(c)
                if hit is not None and self.creates(hit[0], seen):
                    return True
        return False


class _Walk(object):
    def __init__(self, scope, fn):
        self.scope = scope
        self.fn = fn
        self.steps = []                 # dict(kind, dir, rank0, line, barrier)
        self.stores = self._store_counts(fn)
        self.rank_names = self._rank_names(scope, fn, self.stores)
        self.attr_of = {}               # resolved value text -> attribute it is stored in (N6)

    @staticmethod
    def _rank_names(scope, fn, stores):
        """module-level rank names not shadowed in `fn`, plus locals of `fn` bound once by `<x>.Get_rank()`"""
        return {a for a in scope.rank_names if stores.get(a, 0) == 0} | \
               {a for a in N.rank_binding_names(fn.body) if stores.get(a, 0) == 1}

    @staticmethod
    def _store_counts(fn):
        cnt = {}
        for n in ast.walk(fn):
            if isinstance(n, ast.Name) and isinstance(n.ctx, (ast.Store, ast.Del)):
                cnt[n.id] = cnt.get(n.id, 0) + 1
            elif isinstance(n, (ast.Global, ast.Nonlocal)):
                for x in n.names:
                    cnt[x] = cnt.get(x, 0) + 2
            elif isinstance(n, ast.arg):
                cnt[n.arg] = cnt.get(n.arg, 0) + 1       # a parameter is bound on entry: re-binding it makes 2
            elif isinstance(n, ast.ExceptHandler) and n.name:
                cnt[n.name] = cnt.get(n.name, 0) + 2
            elif isinstance(n, ast.alias):
                nm = (n.asname or n.name).split(".")[0]
                cnt[nm] = cnt.get(nm, 0) + 2
            elif isinstance(n, (ast.FunctionDef, ast.AsyncFunctionDef, ast.ClassDef)) and n is not fn:
                cnt[n.name] = cnt.get(n.name, 0) + 2
            elif isinstance(n, (ast.MatchAs, ast.MatchStar)) and n.name:
                cnt[n.name] = cnt.get(n.name, 0) + 2
            elif isinstance(n, ast.MatchMapping) and n.rest:
                cnt[n.rest] = cnt.get(n.rest, 0) + 2
        return cnt

    # ---- facts: dict(rank0=bool, missing={dir text: names mentioned}) -------------------------------------------
    @staticmethod
    def _mentions(d):
        return N.names_in(d) | {ast.unparse(x) for x in ast.walk(d) if isinstance(x, ast.Attribute)}

    def _apply(self, facts, lits):
        f = dict(rank0=facts["rank0"], missing=dict(facts["missing"]))
        for pos, atom in lits:
            r = N.rank0_literal(pos, atom, self.rank_names)
            if r is True:
                f["rank0"] = True
            d = N.exists_literal(atom)
            if d is not None and not pos:
                f["missing"][ast.unparse(d)] = self._mentions(d)
        return f

    def _forget(self, facts, env, names=None, created=False):
        if created:
            # the rank has changed the directory tree: remembered existence tests are stale (N3)
            for k in [k for k, v in env.items() if any(N.exists_literal(c) is not None for c in ast.walk(v))]:
                del env[k]
        if names:
            for k in [k for k, v in facts["missing"].items() if v & names]:
                del facts["missing"][k]

    # ---- statements ----------------------------------------------------------------------------------------------
    @staticmethod
    def _copy(facts):
        return dict(rank0=facts["rank0"], missing=dict(facts["missing"]))

    def walk(self, body, facts, env, depth):
        """walk a statement list in execution order; `env` is updated in place.
        Returns True if the list always ends in a jump (continue/break/return/raise)."""
        for k, st in enumerate(body):
            n0 = len(self.steps)
            outer_r0 = facts["rank0"]
            jumped, facts = self._stmt(st, facts, env, depth)
            if not outer_r0:
                # rank-0-only creation inside `st`: do all ranks meet at a barrier before another rank does anything
                # that is not inert? (N8)  Tried at every nesting level until one succeeds.
                pend = [s for s in self.steps[n0:] if s["rank0"] and s["barrier"] is not True]
                if pend:
                    b = self._inert(st, env) and self._barrier_follows(body[k + 1:], env)
                    for s in pend:
                        s["barrier"] = b
            if jumped:
                return True
        return False

    def _stmt(self, st, facts, env, depth):
        """-> (always jumps, facts holding after the statement)"""
        if isinstance(st, ast.If):
            test = N.subst(st.test, env)
            t_lits, f_lits = N.branch_facts(test)
            self._scan_expr(test, facts, env, depth, st)
            f_true, f_false = self._apply(facts, t_lits), self._apply(facts, f_lits)
            e1, e2 = dict(env), dict(env)
            j1 = self.walk(st.body, f_true, e1, depth)
            j2 = self.walk(st.orelse, f_false, e2, depth)
            # every name of env is bound exactly once in the function, so a binding made in one branch is THE value
            # wherever the name is bound at all; an entry dropped in a branch that falls through is dropped
            start = set(env)
            merged = {}
            for a in set(e1) | set(e2):
                if a in start:
                    if (j1 or a in e1) and (j2 or a in e2):
                        merged[a] = env[a]
                else:
                    merged[a] = e1[a] if a in e1 else e2[a]
            env.clear(); env.update(merged)
            if j1 and j2:
                return True, facts
            if j1:
                return False, f_false
            if j2:
                return False, f_true
            keep = {a: b for a, b in facts["missing"].items() if a in f_true["missing"] and a in f_false["missing"]}
            return False, dict(rank0=facts["rank0"], missing=keep)
        if isinstance(st, ast.For):
            it = N.subst(st.iter, env)
            self._scan_expr(it, facts, env, depth, st)
            binds = N.loop_bindings(st.target, it)
            tnames = {x.id for x in ast.walk(st.target) if isinstance(x, ast.Name)}
            if binds is not None and not st.orelse:                                        # N5: unroll
                for b in binds:
                    e = dict(env); e.update(b)
                    self.walk(st.body, self._copy(facts), e, depth)     # continue/break end the iteration's walk
                    env.clear(); env.update({a: v for a, v in e.items() if a not in tnames})
            else:
                e = {a: v for a, v in env.items() if a not in tnames}
                f = self._copy(facts)
                self._forget(f, e, names=tnames)
                self.walk(st.body, f, e, depth)
                self.walk(st.orelse, dict(rank0=facts["rank0"], missing={}), dict(e), depth)
                for a in [a for a in env if a not in e]:
                    del env[a]
            return False, dict(rank0=facts["rank0"], missing={})
        if isinstance(st, ast.While):
            self._scan_expr(N.subst(st.test, env), facts, env, depth, st)
            e = dict(env)
            self.walk(st.body, dict(rank0=facts["rank0"], missing={}), e, depth)
            self.walk(st.orelse, dict(rank0=facts["rank0"], missing={}), dict(e), depth)
            for a in [a for a in env if a not in e]:
                del env[a]
            return False, dict(rank0=facts["rank0"], missing={})
        if isinstance(st, ast.With):
            for item in st.items:
                self._scan_expr(N.subst(item.context_expr, env), facts, env, depth, st)
            f = self._copy(facts)
            j = self.walk(st.body, f, env, depth)
            return j, f
        if isinstance(st, ast.Try):
            for part in [st.body] + [h.body for h in st.handlers] + [st.orelse, st.finalbody]:
                e = dict(env)
                self.walk(part, dict(rank0=facts["rank0"], missing={}), e, depth)
                for a in [a for a in env if a not in e]:
                    del env[a]
            return False, dict(rank0=facts["rank0"], missing={})
        if isinstance(st, (ast.FunctionDef, ast.AsyncFunctionDef)):
            if isinstance(st, ast.AsyncFunctionDef) and _creates_directly(st):
                raise ExtractError("async helper %s creates directories (line %d)" % (st.name, st.lineno))
            if isinstance(st, ast.FunctionDef):
                self.scope.nested[st.name] = st          # body is walked where it is called (N7)
            return False, facts
        if isinstance(st, ast.ClassDef):
            if _creates_directly(st):
                raise ExtractError("nested class %s creates directories (line %d)" % (st.name, st.lineno))
            return False, facts
        if isinstance(st, (ast.Continue, ast.Break)):
            return True, facts
        if isinstance(st, (ast.Return, ast.Raise)):
            for v in [x for x in (getattr(st, "value", None), getattr(st, "exc", None)) if x is not None]:
                self._scan_expr(N.subst(v, env), facts, env, depth, st)
            return True, facts
        # simple statements -----------------------------------------------------------------------------------------
        if isinstance(st, ast.Assign):
            val = N.subst(st.value, env)
            self._scan_expr(val, facts, env, depth, st)
            pairs = []
            for t in st.targets:                                  # chained assignment a = b = v
                if isinstance(t, ast.Tuple) and isinstance(val, ast.Tuple) and len(t.elts) == len(val.elts) \
                        and all(isinstance(x, (ast.Name, ast.Attribute)) for x in t.elts):
                    pairs += list(zip(t.elts, val.elts))           # tuple assignment
                else:
                    pairs.append((t, val))
            bound = set()
            for t, v in pairs:
                for x in ast.walk(t):
                    if isinstance(x, ast.Name) and isinstance(x.ctx, ast.Store):
                        bound.add(x.id)
                if isinstance(t, ast.Attribute):
                    bound.add(ast.unparse(t))
            self._rebind(facts, env, bound)
            # a tuple assignment evaluates the whole right-hand side first: only record values that do not mention a
            # name bound by this very statement; and only values all of whose names are never re-bound
            for t, v in pairs:
                ok = N.is_pure(v) and not (N.names_in(v) & bound) and all(self.stores.get(x, 0) <= 1 for x in N.names_in(v))
                if isinstance(t, ast.Name) and self.stores.get(t.id, 0) == 1 and ok:
                    env[t.id] = v
                if isinstance(t, ast.Attribute) and ok and N.is_pure(t) and not isinstance(v, (ast.Name, ast.Attribute, ast.Constant)):
                    self.attr_of[ast.unparse(v)] = ast.unparse(t)  # N6: the directory is named by the attribute holding it
            return False, facts
        if isinstance(st, (ast.AugAssign, ast.AnnAssign)):
            if st.value is not None:
                self._scan_expr(N.subst(st.value, env), facts, env, depth, st)
            self._rebind(facts, env, {x.id for x in ast.walk(st.target) if isinstance(x, ast.Name)})
            return False, facts
        if isinstance(st, ast.Delete):
            self._rebind(facts, env, {x.id for t in st.targets for x in ast.walk(t) if isinstance(x, ast.Name)})
            return False, facts
        if isinstance(st, ast.Expr):
            self._scan_expr(N.subst(st.value, env), facts, env, depth, st)
            return False, facts
        if isinstance(st, ast.Assert):
            self._scan_expr(N.subst(st.test, env), facts, env, depth, st)
            return False, facts
        if isinstance(st, (ast.Pass, ast.Import, ast.ImportFrom, ast.Global, ast.Nonlocal)):
            return False, facts
        # anything else (match, async with, ...) must not hide a creation
        if _creates_directly(st) or any(self.scope.lookup(c) is not None and self.scope.creates(self.scope.lookup(c)[0])
                                        for c in ast.walk(st) if isinstance(c, ast.Call)):
            raise ExtractError("directory creation inside an unsupported statement (%s, line %d)" % (type(st).__name__, st.lineno))
        return False, facts

    def _rebind(self, facts, env, bound):
        self._forget(facts, env, names=bound)
        for a in bound:
            env.pop(a, None)

    # ---- expressions: creations and helper calls, in evaluation order -------------------------------------------
    def _scan_expr(self, e, facts, env, depth, st):
        for c in self._calls_in_order(e):
            nm = _call_name(c)
            if nm.split(".")[-1] in CREATORS:
                self._creation(c, nm, facts, env, st)
                continue
            hit = self.scope.lookup(c)
            if hit is None:
                self.scope.refuse_foreign_method(c, getattr(st, "lineno", 0))
            if hit is not None and self.scope.creates(hit[0]):
                if depth >= 1:
                    raise ExtractError("helper %s creates directories two call levels below the anchored function (line %d)" % (nm, st.lineno))
                self._inline(c, hit[0], hit[1], facts, env, st)

    def _calls_in_order(self, e):
        out = []

        def rec(n):
            if isinstance(n, (ast.Lambda, ast.GeneratorExp, ast.ListComp, ast.SetComp, ast.DictComp)):
                hidden = [c for c in ast.walk(n) if isinstance(c, ast.Call) and self.scope.lookup(c) is not None
                          and self.scope.creates(self.scope.lookup(c)[0])]
                if _creates_directly(n) or hidden:
                    raise ExtractError("directory creation inside a lambda/comprehension (line %d)" % getattr(n, "lineno", 0))
                return
            for ch in ast.iter_child_nodes(n):
                rec(ch)
            if isinstance(n, ast.Call):
                out.append(n)
        rec(e)
        return out

    def _dir_name(self, d):
        t = ast.unparse(d)
        return self.attr_of.get(t, t)

    def _creation(self, c, nm, facts, env, st):
        line = getattr(st, "lineno", 0)
        if nm not in ("os.mkdir", "os.makedirs"):
            raise ExtractError("directory creation by %s at line %d is not modelled" % (nm, line))
        args = list(c.args)
        kw = {k.arg: k.value for k in c.keywords}
        if None in kw or any(isinstance(a, ast.Starred) for a in args):
            raise ExtractError("%s called with * / ** arguments at line %d" % (nm, line))
        first = "path" if nm == "os.mkdir" else "name"
        d = args[0] if args else kw.get(first)
        if d is None:
            raise ExtractError("%s without a directory argument at line %d" % (nm, line))
        eo = kw.get("exist_ok", args[2] if len(args) > 2 and nm == "os.makedirs" else None)
        exist_ok = isinstance(eo, ast.Constant) and eo.value is True
        key = ast.unparse(d)
        if nm == "os.makedirs" and exist_ok:
            kind = "makedirsExistOk"
        elif key in facts["missing"]:
            kind = "checkMkdir"
            del facts["missing"][key]                    # one creation per existence test
        else:
            raise ExtractError("unguarded %s at line %d" % (nm, line))
        self.steps.append(dict(kind=kind, dir=self._dir_name(d), rank0=bool(facts["rank0"]), line=line, barrier=None))
        self._forget(facts, env, created=True)

    def _inline(self, call, fn, drop_self, facts, env, st):                                   # N7
        line = getattr(st, "lineno", 0)
        a = fn.args
        deco = [d for d in fn.decorator_list if not (isinstance(d, ast.Name) and d.id == "staticmethod")]
        if a.vararg or a.kwarg or deco or any(isinstance(x, (ast.Yield, ast.YieldFrom, ast.Await)) for x in ast.walk(fn)):
            raise ExtractError("helper %s (called at line %d) cannot be inlined (varargs, decorator or generator)" % (fn.name, line))
        params = [x.arg for x in a.posonlyargs + a.args]
        if drop_self:
            if not params:
                raise ExtractError("method %s has no self parameter" % fn.name)
            self_name, params = params[0], params[1:]
        if any(isinstance(x, ast.Starred) for x in call.args) or any(k.arg is None for k in call.keywords) or len(call.args) > len(params):
            raise ExtractError("call of helper %s at line %d uses * / ** or too many arguments" % (fn.name, line))
        bind = {}
        for p, v in zip(params, call.args):
            bind[p] = v
        for k in call.keywords:
            if k.arg in bind or k.arg not in params + [x.arg for x in a.kwonlyargs]:
                raise ExtractError("call of helper %s at line %d: bad keyword %s" % (fn.name, line, k.arg))
            bind[k.arg] = k.value
        defaults = dict(zip([x.arg for x in (a.posonlyargs + a.args)][len(a.posonlyargs + a.args) - len(a.defaults):], a.defaults))
        defaults.update({x.arg: d for x, d in zip(a.kwonlyargs, a.kw_defaults) if d is not None})
        stores = self._store_counts(fn)
        e = {}
        for p in params + [x.arg for x in a.kwonlyargs]:
            if p not in bind:
                if p not in defaults:
                    raise ExtractError("call of helper %s at line %d does not bind parameter %s" % (fn.name, line, p))
                bind[p] = defaults[p]
            # arguments are already resolved in the caller's environment (the call expression was substituted)
            if N.is_pure(bind[p]) and stores.get(p, 0) == 1 and all(self.stores.get(x, 0) <= 1 for x in N.names_in(bind[p])):
                e[p] = bind[p]
        if drop_self and self_name != "self":
            e[self_name] = ast.Name(id="self", ctx=ast.Load())
        # names of the caller that the helper's own locals would shadow must not leak in: helper locals are never in e
        sub = _Walk.__new__(_Walk)
        sub.scope, sub.fn, sub.steps = self.scope, fn, self.steps
        sub.rank_names = self._rank_names(self.scope, fn, stores)
        sub.stores = dict(stores)
        for x in {n for v in e.values() for n in N.names_in(v)}:
            # caller's names inside argument values: bound at most once in the caller (checked above); if the helper
            # binds the same name locally the value would be captured wrongly, so such a parameter stays symbolic
            if stores.get(x, 0) > 0:
                for p_ in [p_ for p_, v in e.items() if x in N.names_in(v)]:
                    del e[p_]
        sub.attr_of = self.attr_of
        n0 = len(self.steps)
        sub.walk(fn.body, dict(rank0=facts["rank0"], missing={}), e, 1)
        if len(self.steps) > n0:
            self._forget(facts, env, created=True)

    # ---- N8 -------------------------------------------------------------------------------------------------------
    def _inert(self, st, env, nested=False):
        if isinstance(st, ast.If):
            t_lits, f_lits = N.branch_facts(N.subst(st.test, env))
            r_true = any(N.rank0_literal(p, a, self.rank_names) is True for p, a in t_lits)
            r_false = any(N.rank0_literal(p, a, self.rank_names) is True for p, a in f_lits)
            test_ok = all(_call_name(c) in INERT_CALLS + N.PURE_CALLS for c in ast.walk(st.test) if isinstance(c, ast.Call))
            return test_ok and (r_true or all(self._inert(s, env, nested) for s in st.body)) \
                and (r_false or all(self._inert(s, env, nested) for s in st.orelse))
        if isinstance(st, ast.For):
            it = N.subst(st.iter, env)
            return not st.orelse and (N.is_pure(it) or N.loop_bindings(st.target, it) is not None) \
                and all(self._inert(s, env, nested) for s in st.body)
        if isinstance(st, (ast.Assign, ast.AugAssign, ast.AnnAssign, ast.Expr, ast.Pass)):
            return all(self._inert_call(c, env, nested) for c in ast.walk(st) if isinstance(c, ast.Call)) \
                and not any(isinstance(x, (ast.Yield, ast.YieldFrom, ast.Await, ast.NamedExpr)) for x in ast.walk(st))
        if isinstance(st, ast.Return) and nested:
            return st.value is None or N.is_pure(st.value)
        return False

    def _inert_call(self, c, env, nested):
        if _call_name(c) in INERT_CALLS + N.PURE_CALLS:
            return True
        hit = self.scope.lookup(c)                        # a helper of this module all of whose statements are inert
        if hit is not None and not nested:
            fn = hit[0]
            rn, self.rank_names = self.rank_names, self._rank_names(self.scope, fn, self._store_counts(fn))
            try:
                return not fn.decorator_list[1:] and self._inert_body(fn.body)
            finally:
                self.rank_names = rn
        return False

    def _inert_body(self, body):
        """is a helper's body inert for every rank but rank 0?"""
        for st in body:
            if isinstance(st, ast.Expr) and isinstance(st.value, ast.Constant):
                continue                                   # docstring
            if not self._inert(st, {}, nested=True):
                return False
            if isinstance(st, ast.If) and not st.orelse and st.body and isinstance(st.body[-1], ast.Return):
                f_lits = N.branch_facts(st.test)[1]
                if any(N.rank0_literal(p_, a_, self.rank_names) is True for p_, a_ in f_lits):
                    return True                            # `if rank != 0: return` - the rest runs on rank 0 only
        return True

    def _barrier_follows(self, rest, env):
        for st in rest:
            if isinstance(st, ast.Expr) and isinstance(st.value, ast.Call) and isinstance(st.value.func, ast.Attribute) \
                    and st.value.func.attr in ("Barrier", "barrier") and not st.value.args and not st.value.keywords:
                return True
            if not self._inert(st, env):
                return False
        return False


def _protocol(module, fn, cls=None):
    w = _Walk(_Scope(module, cls), fn)
    w.walk(fn.body, dict(rank0=False, missing={}), {}, 0)
    return w.steps


def protocols(stage):
    """[(name, [(kind, dir, rank0Only, line)], barrierAfter)]"""
    res = []
    lk = extract._parse(stage, "esr/fitting/likelihood.py")
    # every class's __init__ (subclasses call super().__init__)
    for cls in [n for n in lk.body if isinstance(n, ast.ClassDef)]:
        for fn in [n for n in cls.body if isinstance(n, ast.FunctionDef) and n.name == "__init__"]:
            st = _protocol(lk, fn, cls)
            if st:
                res.append(("likelihood.%s.__init__" % cls.name, st))
    ta = extract._parse(stage, "esr/fitting/test_all.py")
    st = _protocol(ta, extract.find_def(ta, "get_functions"))
    if st:
        res.append(("test_all.get_functions", st))
    out = []
    for name, st in res:
        r0 = [s for s in st if s["rank0"]]
        barrier = bool(r0) and all(s["barrier"] is True for s in r0)
        out.append((name, [(s["kind"], s["dir"], s["rank0"], s["line"]) for s in st], barrier))
    # the set-up of the fitting stages creates directories in both places; a tree where one of them creates none has
    # moved the creation somewhere this translator does not look: do not emit a table that silently lacks it
    have = [n for n, _, _ in out]
    for need in ("likelihood.Likelihood.__init__", "test_all.get_functions"):
        if need not in have:
            raise ExtractError("no directory-creation step found in %s (creation moved out of the anchored code?)" % need)
    return out


@extract.extractor("DirProto")
def gen(stage):
    ps = protocols(stage)
    if not ps:
        raise ExtractError("no directory-creation step found in likelihood.py / test_all.get_functions")
    t = extract.header("DirProto", ["esr/fitting/likelihood.py", "esr/fitting/test_all.py:get_functions"])
    t += ("inductive Kind where | checkMkdir | makedirsExistOk deriving Repr, DecidableEq\n"
          "structure Step where\n  kind : Kind\n  dir : Nat\n  deriving Repr, DecidableEq\n"
          "structure Protocol where\n  name : String\n  rank0Only : Bool\n  barrierAfter : Bool\n  steps : List Step\n  dirNames : List String\n  deriving Repr, DecidableEq\n\n"
          "def protocols : List Protocol := [\n")
    items = []
    for name, st, barrier in ps:
        r0 = all(s[2] for s in st)
        if not r0 and any(s[2] for s in st):
            raise ExtractError("%s mixes rank-0-only and all-rank directory creation" % name)
        dirs = []
        steps = []
        for kind, d, _, ln in st:
            if d not in dirs:
                dirs.append(d)
            steps.append("⟨.%s, %d⟩" % (kind, dirs.index(d)))
        items.append("  ⟨%s, %s, %s, [%s], [%s]⟩" % (lstr(name), "true" if r0 else "false", "true" if barrier else "false",
                                                  ", ".join(steps), ", ".join(lstr(d) for d in dirs)))
    t += ",\n".join(items) + "\n  ]\n" + extract.footer("DirProto")
    return t
