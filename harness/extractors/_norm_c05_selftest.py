"""Self-test of the alias analysis (_norm_c05.py) on textual mutations of /repo's match.py:  python3 harness/extractors/_norm_c05_selftest.py [repo]
Each case: (description, list of (old, new) replacements, expected: all in-place writes fresh?)."""
import ast, os, sys
HERE = os.path.dirname(os.path.abspath(__file__))
sys.path.insert(0, os.path.dirname(HERE))
import extract
from extractors import _norm_c05

CONV = "            p, fish = simplifier.convert_params(measured, fish_measured, all_inv_subs_proc[i], n=max_param)\n"
CASES = [
    ("unchanged", [], True),
    ("p is a view of params_meas on one path (C05d)", [(CONV, "            p, fish = simplifier.convert_params(measured, fish_measured, all_inv_subs_proc[i], n=max_param)\n"
                                                              "            if len(all_inv_subs_proc[i]) == 0:\n                p = params_meas[index,:nparams]\n")], False),
    ("same with .copy()", [(CONV, CONV + "            if len(all_inv_subs_proc[i]) == 0:\n                p = params_meas[index,:nparams].copy()\n")], True),
    ("np.asarray of a view passes the view through", [(CONV, CONV + "            p = np.asarray(params_meas[index,:nparams])\n")], False),
    ("np.array of a view is a copy", [(CONV, CONV + "            p = np.array(params_meas[index,:nparams])\n")], True),
    ("arithmetic on a view is a new array", [(CONV, CONV + "            p = params_meas[index,:nparams] * 1.0\n")], True),
    ("boolean-mask index of a table is a copy", [(CONV, CONV + "            p = params_meas[index, params_meas[index] != 0]\n")], True),
    ("measured without copy, then written in place", [("measured = params_meas[index,:nparams].copy()", "measured = params_meas[index,:nparams]"),
                                                       (CONV, "            measured[measured < 1e-300] = 0.\n" + CONV)], False),
    ("measured without copy, only read", [("measured = params_meas[index,:nparams].copy()", "measured = params_meas[index,:nparams]")], True),
    ("write into the Fisher table through the row view", [(CONV, CONV + "            fish_measured[0] = 1.\n")], False),
    ("augmented assignment to a view", [(CONV, CONV + "            fish_measured *= 1.\n")], False),
    ("fill() on a view", [(CONV, CONV + "            fish_measured.fill(0.)\n")], False),
    ("out= into a table", [(CONV, CONV + "            np.abs(p, out=params_meas[index,:nparams])\n")], False),
    ("write into another row of an output table", [("        index_arr[i] = index\n", "        index_arr[i] = index\n        params[index,:] = 0.\n")], False),
    ("ptrue aliases p (row-local alias: not this table's business)", [("ptrue=np.copy(p)", "ptrue = np.asarray(p, dtype=float)")], True),
    ("p left over from the previous row on one path", [("            p = np.atleast_1d(p)\n", "            if nparams > 1:\n                p = np.atleast_1d(p)\n")], True),
    ("p bound on no path before the write", [(CONV, "            q, fish = simplifier.convert_params(measured, fish_measured, all_inv_subs_proc[i], n=max_param)\n"),
                                             ("            if isinstance(p, float):\n                p=[p]\n            p = np.atleast_1d(p)\n", "")], False),
]


def main(repo):
    src = open(os.path.join(repo, "esr/fitting/match.py")).read()
    bad = 0
    for what, reps, want in CASES:
        s = src
        for a, b in reps:
            if a not in s:
                print("SKIP (source text not found): %s" % what); s = None; break
            s = s.replace(a, b, 1)
        if s is None:
            bad += 1
            continue
        fn = extract.find_def(ast.parse(s), "main")
        loop = [n for n in fn.body if isinstance(n, ast.For) and ast.unparse(n.iter) == "range(len(fcn_list_proc))"][0]
        rows, own = _norm_c05.analyse(fn, loop)
        got = all(f for _, _, f, _ in rows)
        flag = "ok " if got == want else "BAD"
        if got != want:
            bad += 1
        print("%s all-fresh=%-5s expected=%-5s %s%s" % (flag, got, want, what, "" if got else "   <- " + "; ".join("%s: %s" % (t, d) for t, d, f, _ in rows if not f)[:200]))
    print("%d case(s), %d wrong" % (len(CASES), bad))
    return 1 if bad else 0


if __name__ == "__main__":
    sys.exit(main(sys.argv[1] if len(sys.argv) > 1 else "/repo"))
