"""Generated/Panth.lean: formulas, constants and grid parameters of PanthLikelihood (esr/fitting/likelihood.py).

Regenerated from the staged source on every run, fail closed:
  * the arithmetic of `get_pred` (integrand 1/sqrt(H^2), `dL *= zp1`, `mu = 5*log10(dL) + mu_const`, the analytic branch
    `eq_numpy(zp1) - eq_numpy(1)`) is translated expression by expression into Lean definitions over an abstract carrier;
  * the grid parameters (start literal of the first linspace, `min_nz`, `delta_z`, the three concatenated parts, unique+sort,
    the mask comprehension, `initial=0`) are recognised statement by statement; any statement of `get_pred` that is not one of
    the recognised shapes raises ExtractError (the generated file then has no definitions and the model/theorems do not build);
  * `mu_const` is evaluated with an exact unit algebra (c, km, s, Mpc, pc) to a dimensionless rational;
  * which attributes `clear_data` resets;
  * `run_sympify`'s analytic step: the ONE call `sympy.integrate(<integrand>, x)` — its integrand is translated
    (`1 / sqrt(eq)` -> `sympifyIntegrand`), the integration variable must be `x`, and the value of the call must reach the
    returned `eq` unprocessed (`R = sympy.integrate(..); eq = R`): anything wrapped around the call or applied to its
    arguments first (`.subs(..)`, `posify`, `simplify`, ...) is an unknown shape and raises ExtractError.  What
    `sympy.integrate` itself returns is third-party: that is the hypothesis `ESR.C19.AntiderivativeContract` of
    Props/C19c.lean, checked at run time on the real antiderivative expressions by harness/props/c19.py.
"""
import ast, re
from fractions import Fraction
import extract
from extract import ExtractError

REL = "esr/fitting/likelihood.py"
CLS = "PanthLikelihood"

extract.MODELLED += [
    (REL, CLS, "get_pred"),
    (REL, CLS, "clear_data"),
    (REL, CLS, "run_sympify"),
    (REL, CLS, "negloglike"),
    (REL, CLS, "__init__"),
]


# ---- expression translator (Python arithmetic -> Lean over an abstract carrier `α`) -------------------------------

def _num(v):
    if isinstance(v, bool) or not isinstance(v, (int, float)):
        raise ExtractError("constant %r is not a number" % (v,))
    if isinstance(v, int):
        if v < 0:
            raise ExtractError("negative literal %r" % v)
        return "((%d : Nat) : α)" % v
    f = Fraction(repr(v))
    if f < 0:
        raise ExtractError("negative literal %r" % v)
    if f.denominator == 1:
        return "((%d : Nat) : α)" % f.numerator
    return "(((%d : Nat) : α) / ((%d : Nat) : α))" % (f.numerator, f.denominator)


def tr(node, env):
    """env: unparsed python sub-expression -> lean term"""
    s = ast.unparse(node)
    if s in env:
        return env[s]
    if isinstance(node, ast.Constant):
        return _num(node.value)
    if isinstance(node, ast.BinOp):
        op = {ast.Add: "+", ast.Sub: "-", ast.Mult: "*", ast.Div: "/"}.get(type(node.op))
        if op is None:
            raise ExtractError("operator %s not translated (line %d)" % (type(node.op).__name__, node.lineno))
        return "(%s %s %s)" % (tr(node.left, env), op, tr(node.right, env))
    if isinstance(node, ast.Call):
        f = ast.unparse(node.func)
        if f in ("np.log10", "np.sqrt") and len(node.args) == 1 and not node.keywords:
            return "(%s %s)" % (f[3:], tr(node.args[0], env))
        if f == "eq_numpy" and not node.keywords and 1 <= len(node.args) <= 2:
            if len(node.args) == 2 and ast.unparse(node.args[1]) != "*a":
                raise ExtractError("eq_numpy called with unexpected parameters: %s" % s)
            return "(F %s)" % tr(node.args[0], env)
    raise ExtractError("expression not translated (line %d): %s" % (getattr(node, "lineno", 0), s))


# ---- exact unit algebra for mu_const -------------------------------------------------------------------------------

UNITS = {
    "astropy.constants.c": (Fraction(299792458), {"m": 1, "s": -1}),
    "apu.km": (Fraction(1000), {"m": 1}),
    "apu.m": (Fraction(1), {"m": 1}),
    "apu.s": (Fraction(1), {"s": 1}),
    "apu.Mpc": (Fraction(10 ** 6), {"pc": 1}),
    "apu.kpc": (Fraction(10 ** 3), {"pc": 1}),
    "apu.pc": (Fraction(1), {"pc": 1}),
}


def _umul(a, b, sign):
    d = dict(a[1])
    for k, v in b[1].items():
        d[k] = d.get(k, 0) + sign * v
    d = {k: v for k, v in d.items() if v}
    return (a[0] * b[0] if sign > 0 else a[0] / b[0], d)


def ueval(node, env):
    s = ast.unparse(node)
    if s in env:
        return env[s]
    if s in UNITS:
        return UNITS[s]
    if isinstance(node, ast.Constant) and isinstance(node.value, (int, float)) and not isinstance(node.value, bool):
        return (Fraction(repr(node.value)), {})
    if isinstance(node, ast.BinOp) and isinstance(node.op, (ast.Mult, ast.Div)):
        return _umul(ueval(node.left, env), ueval(node.right, env), 1 if isinstance(node.op, ast.Mult) else -1)
    raise ExtractError("mu_const: quantity not understood (line %d): %s" % (getattr(node, "lineno", 0), s))


def self_assigns(fn):
    """ordered [(attr, value node, lineno)] of top-level `self.attr = value` statements"""
    out = []
    for n in fn.body:
        if isinstance(n, ast.Assign) and len(n.targets) == 1 and isinstance(n.targets[0], ast.Attribute) \
                and isinstance(n.targets[0].value, ast.Name) and n.targets[0].value.id == "self":
            out.append((n.targets[0].attr, n.value, n.lineno))
    return out


def mu_const(init):
    env = {}
    qty = None
    coeff = None
    lines = []
    for attr, val, ln in self_assigns(init):
        if attr == "Hfid":
            env["self.Hfid"] = ueval(val, env); lines.append(ln)
        elif attr == "mu_const":
            lines.append(ln)
            if qty is None:
                qty = ueval(val, env)
            else:
                # 5 * np.log10(self.mu_const.to(''))
                if not (isinstance(val, ast.BinOp) and isinstance(val.op, ast.Mult) and isinstance(val.left, ast.Constant)
                        and isinstance(val.left.value, int) and ast.unparse(val.right) == "np.log10(self.mu_const.to(''))"):
                    raise ExtractError("mu_const: second assignment is not K * np.log10(self.mu_const.to('')) (line %d)" % ln)
                if coeff is not None:
                    raise ExtractError("mu_const assigned more than twice")
                coeff = val.left.value
    if qty is None or coeff is None:
        raise ExtractError("mu_const: the two assignments were not found in __init__")
    if qty[1]:
        raise ExtractError("mu_const: argument of log10 is not dimensionless: %r" % (qty[1],))
    if qty[0] <= 0:
        raise ExtractError("mu_const: argument of log10 is not positive")
    return coeff, qty[0], lines


def simple_attr(init, name, kind):
    hits = [(v, ln) for a, v, ln in self_assigns(init) if a == name]
    if len(hits) != 1 or not isinstance(hits[0][0], ast.Constant):
        raise ExtractError("__init__: self.%s is not assigned one literal" % name)
    v = hits[0][0].value
    if kind == "nat":
        if not (isinstance(v, int) and not isinstance(v, bool) and v >= 0):
            raise ExtractError("self.%s = %r is not a natural literal" % (name, v))
        return v, hits[0][1]
    if isinstance(v, bool) or not isinstance(v, (int, float)) or v < 0:
        raise ExtractError("self.%s = %r is not a non-negative number" % (name, v))
    return Fraction(repr(v)), hits[0][1]


def none_attr(fn, name):
    return any(a == name and isinstance(v, ast.Constant) and v.value is None for a, v, ln in self_assigns(fn))


# ---- get_pred --------------------------------------------------------------------------------------------------------

def _strip_doc(body):
    if body and isinstance(body[0], ast.Expr) and isinstance(body[0].value, ast.Constant) and isinstance(body[0].value.value, str):
        return body[1:]
    return body


def get_pred(fn):
    r = {}
    if [a.arg for a in fn.args.args] != ["self", "zp1", "a", "eq_numpy", "integrated"]:
        raise ExtractError("get_pred: unexpected signature")
    body = _strip_doc(fn.body)
    if not (len(body) == 4 and isinstance(body[0], ast.If) and ast.unparse(body[0].test) == "integrated"):
        raise ExtractError("get_pred: body is not [if integrated / dL *= zp1 / mu = ... / return mu]")
    top, scale, mu, ret = body
    # analytic branch
    if not (len(top.body) == 1 and isinstance(top.body[0], ast.Assign) and ast.unparse(top.body[0].targets[0]) == "dL"):
        raise ExtractError("get_pred: analytic branch is not a single assignment to dL")
    r["analytic"] = (tr(top.body[0].value, {"zp1": "z"}), top.body[0].lineno)
    lits = [n.args[0].value for n in ast.walk(top.body[0].value) if isinstance(n, ast.Call) and ast.unparse(n.func) == "eq_numpy"
            and isinstance(n.args[0], ast.Constant)]
    if len(lits) != 1 or not isinstance(lits[0], int):
        raise ExtractError("get_pred: analytic branch has no single literal lower limit")
    r["intStart"] = lits[0]
    # dL *= zp1
    if not (isinstance(scale, ast.AugAssign) and isinstance(scale.op, ast.Mult) and ast.unparse(scale.target) == "dL"):
        raise ExtractError("get_pred: statement after the branches is not `dL *= ...` (line %d)" % scale.lineno)
    r["scale"] = ("(dL * %s)" % tr(scale.value, {"zp1": "z"}), scale.lineno)
    # mu = ...
    if not (isinstance(mu, ast.Assign) and ast.unparse(mu.targets[0]) == "mu" and isinstance(ret, ast.Return) and ast.unparse(ret.value) == "mu"):
        raise ExtractError("get_pred: does not end with `mu = ...; return mu`")
    r["mu"] = (tr(mu.value, {"dL": "dL", "self.mu_const": "muConst"}), mu.lineno)
    # numerical branch, statement by statement
    seen = set()
    for n in top.orelse:
        s = ast.unparse(n)
        if isinstance(n, ast.If) and ast.unparse(n.test) in ("self.data_x is None or self.data_mask is None",
                                                             "self.data_mask is None or self.data_x is None") and not n.orelse:
            seen.add("cache")
            for m in n.body:
                t = ast.unparse(m)
                if t == "nx = int(np.ceil((zp1.max() - zp1.min()) / self.delta_z))":
                    seen.add("nx")
                    continue
                mm = re.fullmatch(r"self\.data_x = np\.concatenate\(\(np\.linspace\((\d+), zp1\.min\(\), self\.min_nz\), "
                                  r"np\.linspace\(zp1\.min\(\) \+ self\.delta_z, zp1\.max\(\) \+ self\.delta_z, nx\), zp1\)\)", t)
                if mm:
                    seen.add("concat")
                    r["gridStart"] = (int(mm.group(1)), m.lineno)
                    continue
                if t in ("self.data_x = np.sort(np.unique(self.data_x))", "self.data_x = np.unique(self.data_x)",
                         "self.data_x = np.unique(np.sort(self.data_x))"):
                    seen.add("unique")
                    continue
                if t == "self.data_mask = np.squeeze(np.array([np.where(self.data_x == d)[0] for d in zp1]))":
                    seen.add("mask")
                    continue
                raise ExtractError("get_pred: unrecognised statement in the grid construction (line %d): %s" % (m.lineno, t[:90]))
            continue
        if isinstance(n, ast.If) and ast.unparse(n.test) == "len(a) == 0":
            if not (len(n.body) == 1 and len(n.orelse) == 1 and isinstance(n.body[0], ast.Assign) and isinstance(n.orelse[0], ast.Assign)
                    and ast.unparse(n.body[0].targets[0]) == "dL" and ast.unparse(n.orelse[0].targets[0]) == "dL"):
                raise ExtractError("get_pred: the len(a)==0 branches are not single assignments to dL")
            e0 = tr(n.body[0].value, {"self.data_x": "x"})
            e1 = tr(n.orelse[0].value, {"self.data_x": "x"})
            if e0 != e1:
                raise ExtractError("get_pred: integrand differs between the parameter-free and the parametrised call: %s vs %s" % (e0, e1))
            r["integrand"] = (e1, n.orelse[0].lineno)
            seen.add("integrand")
            continue
        if s == "if np.isscalar(dL):\n    dL = np.full(len(self.data_x), dL)":
            seen.add("scalar")
            continue
        if isinstance(n, ast.Assign) and ast.unparse(n.targets[0]) == "dL" and isinstance(n.value, ast.Call) \
                and ast.unparse(n.value.func) == "scipy.integrate.cumulative_trapezoid":
            c = n.value
            kw = {k.arg: ast.unparse(k.value) for k in c.keywords}
            if not (len(c.args) == 1 and ast.unparse(c.args[0]) == "dL" and kw.get("x") == "self.data_x" and set(kw) <= {"x", "initial"}):
                raise ExtractError("get_pred: cumulative_trapezoid called with unexpected arguments: %s" % s)
            if "initial" in kw and kw["initial"] not in ("0", "0.0"):
                raise ExtractError("get_pred: cumulative_trapezoid initial=%s" % kw["initial"])
            r["initial"] = ("initial" in kw, n.lineno)
            seen.add("cumtrapz")
            continue
        if s == "dL = dL[self.data_mask]":
            if "cumtrapz" not in seen:
                raise ExtractError("get_pred: selection at the mask precedes the cumulative sum")
            seen.add("select")
            continue
        raise ExtractError("get_pred: unrecognised statement in the numerical branch (line %d): %s" % (n.lineno, s[:90]))
    need = {"cache", "nx", "concat", "unique", "mask", "integrand", "scalar", "cumtrapz", "select"}
    if seen != need:
        raise ExtractError("get_pred: numerical branch lacks %s" % sorted(need - seen))
    return r


# ---- run_sympify: the analytic step ----------------------------------------------------------------------------------

def _tr_sym(node):
    """the integrand handed to sympy.integrate: arithmetic over `eq` (-> F x), the module's `sqrt` and literals"""
    if isinstance(node, ast.Name) and node.id == "eq":
        return "(F x)"
    if isinstance(node, ast.Constant):
        return _num(node.value)
    if isinstance(node, ast.BinOp):
        op = {ast.Add: "+", ast.Sub: "-", ast.Mult: "*", ast.Div: "/"}.get(type(node.op))
        if op is None:
            raise ExtractError("run_sympify: operator %s in the integrand (line %d)" % (type(node.op).__name__, node.lineno))
        return "(%s %s %s)" % (_tr_sym(node.left), op, _tr_sym(node.right))
    if isinstance(node, ast.Call) and isinstance(node.func, ast.Name) and node.func.id == "sqrt" and len(node.args) == 1 and not node.keywords:
        return "(sqrt %s)" % _tr_sym(node.args[0])
    raise ExtractError("run_sympify: integrand of sympy.integrate not translated (line %d): %s" % (getattr(node, "lineno", 0), ast.unparse(node)[:90]))


def _is_reject_guard(fn, call):
    """`call` is the (possibly negated) whole test of an `if` whose body only raises: a guard that may REJECT the integral
    (the numerical path is then used) but cannot alter the value that reaches `eq`"""
    if not isinstance(call, ast.Call):
        return False
    for m in ast.walk(fn):
        if isinstance(m, ast.If) and not m.orelse and len(m.body) == 1 and isinstance(m.body[0], ast.Raise):
            tests = m.test.values if isinstance(m.test, ast.BoolOp) and isinstance(m.test.op, ast.Or) else [m.test]
            for t in tests:                       # `if A or not B: raise`: every disjunct only rejects
                if isinstance(t, ast.UnaryOp) and isinstance(t.op, ast.Not):
                    t = t.operand
                if t is call:
                    return True
    return False


def run_sympify(fn):
    """-> dict(integrand=(lean, line)).  Fail closed on anything but
           <R> = sympy.integrate(<integrand over eq>, x)   [inside `if try_integration: try: with time_limit(tmax):`]
           if <R>.has(sympy.Integral): raise ValueError
           eq = <R>;  integrated = True
       with `eq` assigned before only by `eq = sympy.sympify(fcn_i, locals=...)` and returned as the second value."""
    calls = [n for n in ast.walk(fn) if isinstance(n, ast.Call) and ast.unparse(n.func) in ("sympy.integrate", "integrate")]
    if len(calls) != 1:
        raise ExtractError("run_sympify: %d calls of sympy.integrate (expected 1)" % len(calls))
    call = calls[0]
    if call.keywords or len(call.args) != 2 or ast.unparse(call.args[1]) != "x":
        raise ExtractError("run_sympify: sympy.integrate is not called as integrate(<integrand>, x) (line %d)" % call.lineno)
    owner = [n for n in ast.walk(fn) if isinstance(n, ast.Assign) and n.value is call]
    if len(owner) != 1 or len(owner[0].targets) != 1 or not isinstance(owner[0].targets[0], ast.Name):
        raise ExtractError("run_sympify: the value of sympy.integrate(...) is post-processed before it is stored (line %d): %s" % (
            call.lineno, next((ast.unparse(n)[:90] for n in ast.walk(fn) if isinstance(n, ast.Assign) and call in list(ast.walk(n.value))), "?")))
    res = owner[0].targets[0].id
    # every assignment to `eq` and every use of the result
    eq_assigns = [n for n in ast.walk(fn) if isinstance(n, ast.Assign) and any(isinstance(t, ast.Name) and t.id == "eq" for t in n.targets)]
    kinds = []
    for n in eq_assigns:
        v = ast.unparse(n.value)
        if isinstance(n.value, ast.Call) and ast.unparse(n.value.func) == "sympy.sympify":
            kinds.append("sympify")
        elif v == res:
            kinds.append("result")
        else:
            raise ExtractError("run_sympify: unrecognised assignment to eq (line %d): %s" % (n.lineno, ast.unparse(n)[:90]))
    if res == "eq":
        raise ExtractError("run_sympify: sympy.integrate result overwrites eq directly")
    if sorted(kinds) != ["result", "sympify"]:
        raise ExtractError("run_sympify: eq is assigned %r (expected once from sympy.sympify, once from the integral)" % kinds)
    for n in ast.walk(fn):
        if isinstance(n, ast.Assign) and any(isinstance(t, ast.Name) and t.id == res for t in n.targets) and n is not owner[0]:
            raise ExtractError("run_sympify: the integral %s is reassigned (line %d)" % (res, n.lineno))
        if isinstance(n, ast.Name) and n.id == res and isinstance(n.ctx, ast.Load):
            par = [m for m in ast.walk(fn) if any(c is n for c in ast.iter_child_nodes(m))][0]
            ok = (isinstance(par, ast.Assign) and par in eq_assigns) or \
                 (isinstance(par, ast.Attribute) and par.attr == "has") or _is_reject_guard(fn, par)
            if not ok:
                raise ExtractError("run_sympify: the integral %s is used in an unrecognised way (line %d)" % (res, n.lineno))
    rets = [n for n in ast.walk(fn) if isinstance(n, ast.Return)]
    if len(rets) != 1 or ast.unparse(rets[0].value) not in ("(fcn_i, eq, integrated)", "fcn_i, eq, integrated"):
        raise ExtractError("run_sympify: does not end with `return fcn_i, eq, integrated`")
    return dict(integrand=(_tr_sym(call.args[0]), call.lineno), src=ast.unparse(call))


@extract.extractor("Panth")
def gen(stage):
    tree = extract._parse(stage, REL)
    init = extract.find_def(tree, "__init__", CLS)
    gp = get_pred(extract.find_def(tree, "get_pred", CLS))
    clear = extract.find_def(tree, "clear_data", CLS)
    rs = run_sympify(extract.find_def(tree, "run_sympify", CLS))
    coeff, arg, mlines = mu_const(init)
    dz, dzl = simple_attr(init, "delta_z", "frac")
    nz, nzl = simple_attr(init, "min_nz", "nat")
    if not (none_attr(init, "data_x") and none_attr(init, "data_mask")):
        raise ExtractError("__init__ does not start with data_x = data_mask = None")
    t = extract.header("Panth", ["%s:%s.get_pred" % (REL, CLS), "%s.__init__" % CLS, "%s.clear_data" % CLS, "%s.run_sympify" % CLS])
    t += "/-- likelihood.py:%d  self.delta_z -/\ndef deltaZNum : Nat := %d\ndef deltaZDen : Nat := %d\n" % (dzl, dz.numerator, dz.denominator)
    t += "def deltaZ {α : Type} [NatCast α] [Div α] : α := ((deltaZNum : Nat) : α) / ((deltaZDen : Nat) : α)\n"
    t += "/-- likelihood.py:%d  self.min_nz -/\ndef minNz : Nat := %d\n" % (nzl, nz)
    t += "/-- likelihood.py:%d  first argument of the first np.linspace in np.concatenate((linspace(K, min, min_nz), " \
         "linspace(min+dz, max+dz, nx), zp1)) -/\ndef gridStart : Nat := %d\n" % (gp["gridStart"][1], gp["gridStart"][0])
    t += "/-- likelihood.py:%d  lower limit of the analytic branch -/\ndef intStart : Nat := %d\n" % (gp["analytic"][1], gp["intStart"])
    t += "/-- likelihood.py:%d  scipy.integrate.cumulative_trapezoid(dL, x=self.data_x, initial=0): is `initial=0` passed -/\n" \
         "def cumInitialZero : Bool := %s\n" % (gp["initial"][1], "true" if gp["initial"][0] else "false")
    t += "/-- clear_data (likelihood.py:%d): attributes reset to None -/\ndef clearsDataX : Bool := %s\ndef clearsDataMask : Bool := %s\n" % (
        clear.lineno, "true" if none_attr(clear, "data_x") else "false", "true" if none_attr(clear, "data_mask") else "false")
    t += "\nsection\nvariable {α : Type} [Add α] [Sub α] [Mul α] [Div α] [NatCast α]\n"
    t += "/-- likelihood.py:%d  dL = %s  (x: one grid point, F: eq_numpy(., *a) pointwise) -/\n" % (gp["integrand"][1], "1 / np.sqrt(eq_numpy(self.data_x, *a))")
    t += "def integrand (sqrt : α → α) (F : α → α) (x : α) : α := %s\n" % gp["integrand"][0]
    t += "/-- likelihood.py:%d  analytic branch: dL = eq_numpy(zp1, *a) - eq_numpy(K, *a) -/\n" % gp["analytic"][1]
    t += "def analytic (F : α → α) (z : α) : α := %s\n" % gp["analytic"][0]
    t += "/-- likelihood.py:%d  dL *= zp1 -/\ndef scale (dL z : α) : α := %s\n" % (gp["scale"][1], gp["scale"][0])
    t += "/-- likelihood.py:%d  mu = 5 * np.log10(dL) + self.mu_const -/\ndef mu (log10 : α → α) (dL muConst : α) : α := %s\n" % (gp["mu"][1], gp["mu"][0])
    t += "/-- likelihood.py:%s  mu_const = K * log10((c / Hfid / (10 pc)).to('')), the quantity evaluated exactly -/\n" % ",".join(map(str, mlines))
    t += "def muConstCoeff : Nat := %d\ndef muConstArgNum : Nat := %d\ndef muConstArgDen : Nat := %d\n" % (coeff, arg.numerator, arg.denominator)
    t += "def muConst (log10 : α → α) : α := ((muConstCoeff : Nat) : α) * log10 (((muConstArgNum : Nat) : α) / ((muConstArgDen : Nat) : α))\n"
    t += "/-- likelihood.py:%d  run_sympify: %s - the integrand handed to sympy.integrate (F: eq as a function of x); the result of the call\n" \
         "reaches the returned eq unprocessed (anything else is rejected by the extractor) -/\n" % (rs["integrand"][1], rs["src"])
    t += "def sympifyIntegrand (sqrt : α → α) (F : α → α) (x : α) : α := %s\n" % rs["integrand"][0]
    t += "end\n"
    t += extract.footer("Panth")
    return t
