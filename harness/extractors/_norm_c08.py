"""Semantics-preserving AST normalisations for harness/extractors/aifeyn.py (C08 / table `Aifeyn`).

Not an extractor (underscore prefix: not auto-loaded).  Everything here is part of the TRUSTED translator: each
rewrite must preserve the Python semantics of the anchored functions for all inputs; whatever is outside the
stated side conditions raises `ExtractError` (fail closed), never "no effect".

Normalisations (AST -> AST unless said otherwise)

N1 `inline_helpers`     one level of helper inlining: a call `name(atom, ...)` of a module-level function defined
                        exactly once, undecorated, positional parameters only, whose body is (docstring +) one
                        `return <expr>`.  Arguments are names/constants (so evaluation order and multiplicity
                        cannot change), the helper's free names must not be locals of the caller and names bound
                        inside the helper expression must not capture an argument.  A helper of another shape is
                        left in place: the strict recogniser then fails on the unknown call.
N1b `inline_helpers`    the same for a helper NESTED in the anchored function: `def p(x): return <expr>` or
                        `p = lambda x: <expr>` as a top-level statement of the body (beta-reduction; the `def` statement
                        is dropped).  Side conditions: `p` bound exactly once in the function, never read before its
                        definition, every read of `p` is the callee of a call with atom arguments of the right arity and
                        no keywords, `<expr>` has no walrus / yield / await, does not mention `p`, binds none of its
                        parameters or of the call's arguments, and its free names are not bound by a comprehension or
                        lambda of the caller (a closure reads the caller's locals at call time, which is where the
                        inlined expression reads them).  Anything else leaves the `def` in place -> recogniser fails.
N1c `inline_helpers(value_level=True)`  (call-site classifier only) a module-level helper whose body is straight-line
                        `x = E` / `a, b, c = E` assignments to fresh names followed by `return <expr>`, every such local
                        read at most once: the call is replaced by the VALUE expression obtained by forward substitution
                        (N7; `a, b, c = E` gives `c = E[2]`).  This is value-level, like N7: the calls that remain in the
                        expression are the modelled, side-effect-free generator / simplifier functions.
N2 `loops_to_comps`     `X = []` immediately followed by `for v in IT: <guards> X.append(E)` (also `X += [E]`)
                        -> `X = [E for v in IT if g1 if g2 ...]`; guards are `if C: continue` before the rest,
                        `if C: <rest>`, `if C: continue/pass else: <rest>` (guard inversion).  Side conditions: `v` is
                        only ever read inside `for` loops / comprehensions that bind it (`stray_uses`), `X` does not occur in IT/E/guards, not inside `try` (a partly
                        filled `X` would be observable in a handler).
N3 `nnf_conjuncts`      Boolean tests (truthiness context only): De Morgan and double negation, `a != b` <->
                        `not a == b`, `x not in y` <-> `not x in y`; `if A if B` <-> `if A and B`.  `and`/`or` keep
                        their operand order, so short-circuit evaluation is unchanged.
N4 `unroll_literal_loops` `for t in [<atoms or tuples of atoms>]: body` -> the body once per element with the loop
                        variables substituted (atoms = names/constants).  Side conditions: no `break`/`continue`/
                        `else`, the loop variables are not assigned in the body and only read inside loops that bind them.
N5 `inline_single_use`  hoisted temporary `x = E` immediately followed by a call statement whose arguments evaluated
                        before `x` are all atoms, `x` used exactly once in the whole function -> `E` in place of `x`.
N6 `Strings`            string building evaluated to a template (literal chunks + holes): `%` formatting (`%s %i %d`),
                        f-strings without format spec, `+` concatenation, `str(x)`, `sep.join([...])`, comprehensions
                        over literal lists, names bound to such values.  Holes are names of DECLARED type (`str` or
                        `int`); for those `%s`, `%i`, `%d`, `{}` and `str()` render identically (`%i` of a `str`
                        hole is refused).
N8 `direct_loop`        `for k in range(len(L)): ..L[k]..` and `for k, t in enumerate(L): ..t / L[k]..` -> `for t in L: ..t..`
                        when `k` occurs only as the subscript of `L` and `L` is not otherwise touched in the body.
N7 `Flow`               forward symbolic evaluation of a function body (names -> the expression that defines them,
                        killed on branches that disagree, in loops, on mutation through subscripts/`append`-like
                        method statements): renamed locals, hoisted temporaries, dropped unused bindings, tuple vs
                        separate assignment all resolve to the same expression.
"""
import ast, copy
from extract import ExtractError

_ATOM = (ast.Name, ast.Constant)


def is_atom(n):
    return isinstance(n, _ATOM)


def strip_doc(body):
    if body and isinstance(body[0], ast.Expr) and isinstance(body[0].value, ast.Constant) and isinstance(body[0].value.value, str):
        return body[1:]
    return body


def names_loaded(node, name):
    return sum(1 for n in ast.walk(node) if isinstance(n, ast.Name) and n.id == name)


def stray_uses(scope, name):
    """occurrences of `name` in `scope` outside (target + body of) the `for` loops that bind it and outside comprehensions
    / lambdas that bind it privately.  0 means: every read of `name` follows a binding by its own loop header, so the
    value a loop leaves behind is never observed."""
    def go(n):
        if isinstance(n, (ast.For, ast.AsyncFor)) and name in set(x.id for x in ast.walk(n.target) if isinstance(x, ast.Name)):
            return go(n.iter) + sum(go(x) for x in n.orelse)
        if isinstance(n, (ast.ListComp, ast.SetComp, ast.GeneratorExp, ast.DictComp)):
            tg = set()
            for g in n.generators:
                tg |= set(x.id for x in ast.walk(g.target) if isinstance(x, ast.Name))
            if name in tg:
                return go(n.generators[0].iter)
        if isinstance(n, ast.Lambda):
            a = n.args
            if name in [x.arg for x in a.posonlyargs + a.args + a.kwonlyargs] + [x.arg for x in (a.vararg, a.kwarg) if x]:
                return 0
        if isinstance(n, (ast.FunctionDef, ast.AsyncFunctionDef, ast.ClassDef)) and n is not scope:
            return 1 if names_loaded(n, name) else 0          # closures: refuse
        c = 1 if isinstance(n, ast.Name) and n.id == name else 0
        return c + sum(go(x) for x in ast.iter_child_nodes(n))
    return go(scope)


def bound_names(node):
    """every name bound anywhere below `node` (assignment, loop, with, comprehension, walrus, def, import, except-as)"""
    out = set()
    for n in ast.walk(node):
        if isinstance(n, ast.Name) and isinstance(n.ctx, (ast.Store, ast.Del)):
            out.add(n.id)
        elif isinstance(n, (ast.FunctionDef, ast.AsyncFunctionDef, ast.ClassDef)):
            out.add(n.name)
            if not isinstance(n, ast.ClassDef):
                a = n.args
                out.update(x.arg for x in a.posonlyargs + a.args + a.kwonlyargs)
                out.update(x.arg for x in (a.vararg, a.kwarg) if x)
        elif isinstance(n, ast.Lambda):
            a = n.args
            out.update(x.arg for x in a.posonlyargs + a.args + a.kwonlyargs)
            out.update(x.arg for x in (a.vararg, a.kwarg) if x)
        elif isinstance(n, ast.ExceptHandler) and n.name:
            out.add(n.name)
        elif isinstance(n, ast.alias):
            out.add((n.asname or n.name).split(".")[0])
        elif isinstance(n, (ast.Global, ast.Nonlocal)):
            out.update(n.names)
    return out


def fn_params(fn):
    a = getattr(fn, "args", None)
    if not isinstance(a, ast.arguments):
        return set()
    return set(x.arg for x in a.posonlyargs + a.args + a.kwonlyargs) | set(x.arg for x in (a.vararg, a.kwarg) if x)


def fn_locals(fn):
    a = fn.args
    out = set(x.arg for x in a.posonlyargs + a.args + a.kwonlyargs)
    out.update(x.arg for x in (a.vararg, a.kwarg) if x)
    for st in fn.body:
        out |= bound_names(st)
    return out


class _Subst(ast.NodeTransformer):
    """replace loads of the given names by (copies of) atoms"""

    def __init__(self, mapping):
        self.mapping = mapping

    def visit_Name(self, node):
        if isinstance(node.ctx, ast.Load) and node.id in self.mapping:
            return ast.copy_location(copy.deepcopy(self.mapping[node.id]), node)
        return node


def subst(node, mapping):
    return ast.fix_missing_locations(_Subst(mapping).visit(copy.deepcopy(node)))


# ---------------------------------------------------------------------------------------
# N1  helper inlining
# ---------------------------------------------------------------------------------------

def _helper_expr(module, name, value_level=False):
    """(params, expr) of an inlinable module-level helper, or None"""
    defs = [n for n in module.body if isinstance(n, (ast.FunctionDef, ast.AsyncFunctionDef, ast.ClassDef)) and n.name == name]
    if len(defs) != 1 or not isinstance(defs[0], ast.FunctionDef):
        return None
    for n in module.body:                                    # rebound at module level some other way
        if not isinstance(n, (ast.FunctionDef, ast.AsyncFunctionDef, ast.ClassDef)) and name in bound_names(n):
            return None
    d = defs[0]
    a = d.args
    if d.decorator_list or a.posonlyargs or a.kwonlyargs or a.vararg or a.kwarg or a.defaults or a.kw_defaults:
        return None
    body = strip_doc(d.body)
    params = [x.arg for x in a.args]
    if value_level and len(body) > 1:
        return _straight_line_value(d, params, body)
    if len(body) != 1 or not isinstance(body[0], ast.Return) or body[0].value is None:
        return None
    if set(params) & bound_names(body[0].value) or len(set(params)) != len(params):
        return None
    return params, body[0].value


def _straight_line_value(d, params, body):
    """N1c: (params, value expression of the return) of `x = E; a, b = F(x); return G(b)`; None when not of that shape"""
    if not isinstance(body[-1], ast.Return) or body[-1].value is None or len(set(params)) != len(params):
        return None
    locs = set()
    for st in body[:-1]:
        if not (isinstance(st, ast.Assign) and len(st.targets) == 1):
            return None
        t = st.targets[0]
        names = [t] if isinstance(t, ast.Name) else list(t.elts) if isinstance(t, ast.Tuple) else None
        if names is None or not all(isinstance(x, ast.Name) for x in names):
            return None
        locs |= set(x.id for x in names)
        if bound_names(st.value):                            # comprehension / lambda / walrus inside: not handled here
            return None
    if locs & set(params) or bound_names(body[-1].value):
        return None
    for nm in locs:                                          # read at most once (no duplicated evaluation)
        if sum(1 for st in body for n in ast.walk(st) if isinstance(n, ast.Name) and n.id == nm and isinstance(n.ctx, ast.Load)) > 1:
            return None
    fl = Flow(d, None)
    if len(fl.returns) != 1 or fl.returns[0] is None:
        return None
    return params, fl.returns[0]


_IMPURE = (ast.NamedExpr, ast.Yield, ast.YieldFrom, ast.Await)


def _bind_count(fn, name):
    c = 0
    for n in ast.walk(fn):
        if isinstance(n, ast.Name) and isinstance(n.ctx, (ast.Store, ast.Del)) and n.id == name:
            c += 1
        elif isinstance(n, (ast.FunctionDef, ast.AsyncFunctionDef, ast.ClassDef)) and n is not fn and n.name == name:
            c += 1
        elif isinstance(n, ast.arg) and n.arg == name:
            c += 1
        elif isinstance(n, ast.ExceptHandler) and n.name == name:
            c += 1
        elif isinstance(n, ast.alias) and (n.asname or n.name).split(".")[0] == name:
            c += 1
        elif isinstance(n, (ast.Global, ast.Nonlocal)) and name in n.names:
            c += 1
    return c


def _nested_helpers(fn):
    """N1b: {name: (statement, params, expr)} of the inlinable one-expression helpers defined in the body of `fn`"""
    out = {}
    body = fn.body
    comp_bound = set()
    for n in ast.walk(fn):
        if isinstance(n, (ast.ListComp, ast.SetComp, ast.GeneratorExp, ast.DictComp)):
            for g in n.generators:
                comp_bound |= bound_names(g.target)
    for k, st in enumerate(body):
        if isinstance(st, ast.FunctionDef) and not st.decorator_list:
            b = strip_doc(st.body)
            if len(b) != 1 or not isinstance(b[0], ast.Return) or b[0].value is None:
                continue
            name, a, expr = st.name, st.args, b[0].value
        elif isinstance(st, ast.Assign) and len(st.targets) == 1 and isinstance(st.targets[0], ast.Name) and isinstance(st.value, ast.Lambda):
            name, a, expr = st.targets[0].id, st.value.args, st.value.body
        else:
            continue
        if a.posonlyargs or a.kwonlyargs or a.vararg or a.kwarg or a.defaults or a.kw_defaults:
            continue
        params = [x.arg for x in a.args]
        if len(set(params)) != len(params) or set(params) & bound_names(expr) or name in params:
            continue
        if any(isinstance(n, _IMPURE) for n in ast.walk(expr)) or names_loaded(expr, name):
            continue
        if _bind_count(fn, name) != 1:
            continue
        if any(names_loaded(x, name) for x in body[:k]):
            continue
        free = set(n.id for n in ast.walk(expr) if isinstance(n, ast.Name)) - set(params) - bound_names(expr)
        lam_bound = set()
        own = st.value if isinstance(st, ast.Assign) else st
        for n in ast.walk(fn):
            if isinstance(n, ast.Lambda) and n is not own:
                lam_bound |= bound_names(n)
            elif isinstance(n, (ast.FunctionDef, ast.AsyncFunctionDef)) and n is not fn and n is not own:
                lam_bound |= bound_names(n)
        if free & (comp_bound | lam_bound):
            continue
        # every read of the name is the callee of a plain call with atom arguments
        callee_ids = set(id(n.func) for n in ast.walk(fn) if isinstance(n, ast.Call) and isinstance(n.func, ast.Name) and n.func.id == name
                         and not n.keywords and len(n.args) == len(params) and all(is_atom(x) for x in n.args))
        reads = [n for n in ast.walk(fn) if isinstance(n, ast.Name) and n.id == name and isinstance(n.ctx, ast.Load)]
        if not all(id(n) in callee_ids for n in reads):
            continue
        out[name] = (st, params, expr)
    return out


class _Inline(ast.NodeTransformer):
    def __init__(self, module, caller_locals, self_name, nested=None, value_level=False):
        self.module, self.locals, self.self_name = module, caller_locals, self_name
        self.nested = nested or {}
        self.value_level = value_level
        self.done = []
        self.skipped = []

    def visit_Call(self, node):
        self.generic_visit(node)
        if isinstance(node.func, ast.Name) and node.func.id in self.nested:
            _, params, expr = self.nested[node.func.id]
            inner_bound = bound_names(expr)
            for x in node.args:
                if isinstance(x, ast.Name) and x.id in inner_bound:
                    raise ExtractError("line %d: inlining %s would capture %s" % (node.lineno, node.func.id, x.id))
            self.done.append(node.func.id)
            new = subst(expr, dict(zip(params, node.args)))
            for n in ast.walk(new):
                ast.copy_location(n, node)
            return new
        if not (isinstance(node.func, ast.Name) and node.func.id not in self.locals and node.func.id != self.self_name):
            return node
        h = _helper_expr(self.module, node.func.id, self.value_level)
        if h is None:
            return node
        params, expr = h
        if node.keywords or len(node.args) != len(params) or not all(is_atom(x) for x in node.args):
            self.skipped.append(node.func.id)            # left in place: the recogniser must know the call or fail
            return node
        inner_bound = bound_names(expr)
        for x in node.args:
            if isinstance(x, ast.Name) and x.id in inner_bound:
                raise ExtractError("line %d: inlining %s would capture %s" % (node.lineno, node.func.id, x.id))
        free = set(n.id for n in ast.walk(expr) if isinstance(n, ast.Name)) - set(params) - inner_bound
        clash = free & self.locals
        if clash:
            raise ExtractError("line %d: helper %s reads global(s) %s shadowed in the caller" % (node.lineno, node.func.id, sorted(clash)))
        for n in ast.walk(expr):                            # one level only
            if isinstance(n, ast.Call) and isinstance(n.func, ast.Name) and _helper_expr(self.module, n.func.id) is not None:
                raise ExtractError("line %d: helper %s calls helper %s (only one level is inlined)" % (node.lineno, node.func.id, n.func.id))
        self.done.append(node.func.id)
        new = subst(expr, dict(zip(params, node.args)))
        for n in ast.walk(new):
            ast.copy_location(n, node)
        return new


def inline_helpers(fn, module, value_level=False):
    """copy of `fn` with one level of simple helpers inlined (N1, N1b; N1c when `value_level`)"""
    fn = copy.deepcopy(fn)
    nested = _nested_helpers(fn)
    drop = set(id(v[0]) for v in nested.values())
    fn.body = [st for st in fn.body if id(st) not in drop]
    tr = _Inline(module, fn_locals(fn) - set(nested), fn.name, nested, value_level)
    fn.body = [tr.visit(st) for st in fn.body]
    return ast.fix_missing_locations(fn)


# ---------------------------------------------------------------------------------------
# N3  Boolean normal form
# ---------------------------------------------------------------------------------------

def nnf(e, neg=False):
    """negation normal form of a test (truthiness only); atoms stay, wrapped in `not` when negated"""
    if isinstance(e, ast.UnaryOp) and isinstance(e.op, ast.Not):
        return nnf(e.operand, not neg)
    if isinstance(e, ast.BoolOp):
        op = e.op
        if neg:
            op = ast.Or() if isinstance(op, ast.And) else ast.And()
        return ast.copy_location(ast.BoolOp(op=op, values=[nnf(v, neg) for v in e.values]), e)
    if isinstance(e, ast.Compare) and len(e.ops) == 1:
        flip = {ast.NotEq: ast.Eq, ast.NotIn: ast.In, ast.IsNot: ast.Is}
        for k, v in flip.items():
            if isinstance(e.ops[0], k):               # a != b  ==  not (a == b)   (same for `not in`, `is not`)
                pos = ast.copy_location(ast.Compare(left=e.left, ops=[v()], comparators=e.comparators), e)
                return pos if neg else ast.copy_location(ast.UnaryOp(op=ast.Not(), operand=pos), e)
    return ast.copy_location(ast.UnaryOp(op=ast.Not(), operand=e), e) if neg else e


def conjuncts(tests):
    """flat list of the top-level conjuncts of `if t1 if t2 ...` in evaluation order, each in NNF"""
    out = []
    for t in tests:
        t = nnf(t)
        if isinstance(t, ast.BoolOp) and isinstance(t.op, ast.And):
            for v in t.values:
                out += conjuncts([v])
        else:
            out.append(t)
    return out


# ---------------------------------------------------------------------------------------
# N2  loop + append  ->  comprehension
# ---------------------------------------------------------------------------------------

def _is_pass_or_continue(b):
    return len(b) == 1 and isinstance(b[0], (ast.Continue, ast.Pass))


def _loop_filter(body, X):
    """([guards], element) of a loop body that only filters and appends to X; None if it has another shape"""
    if not body:
        return None
    st = body[0]
    if isinstance(st, ast.If):
        if len(body) > 1:
            if not (len(st.body) == 1 and isinstance(st.body[0], ast.Continue) and not st.orelse):
                return None
            rest = _loop_filter(body[1:], X)                                   # if C: continue ; rest
            return None if rest is None else ([ast.UnaryOp(op=ast.Not(), operand=st.test)] + rest[0], rest[1])
        if st.orelse:
            if not _is_pass_or_continue(st.body):
                return None
            rest = _loop_filter(st.orelse, X)                                  # if C: continue  else: rest
            return None if rest is None else ([ast.UnaryOp(op=ast.Not(), operand=st.test)] + rest[0], rest[1])
        rest = _loop_filter(st.body, X)                                        # if C: rest
        return None if rest is None else ([st.test] + rest[0], rest[1])
    if len(body) != 1:
        return None
    if isinstance(st, ast.Expr) and isinstance(st.value, ast.Call) and isinstance(st.value.func, ast.Attribute) \
            and st.value.func.attr == "append" and isinstance(st.value.func.value, ast.Name) and st.value.func.value.id == X \
            and len(st.value.args) == 1 and not st.value.keywords and not isinstance(st.value.args[0], ast.Starred):
        return [], st.value.args[0]
    if isinstance(st, ast.AugAssign) and isinstance(st.op, ast.Add) and isinstance(st.target, ast.Name) and st.target.id == X \
            and isinstance(st.value, ast.List) and len(st.value.elts) == 1 and not isinstance(st.value.elts[0], ast.Starred):
        return [], st.value.elts[0]
    return None


def _is_empty_list(v):
    return (isinstance(v, ast.List) and not v.elts) or \
        (isinstance(v, ast.Call) and isinstance(v.func, ast.Name) and v.func.id == "list" and not v.args and not v.keywords)


def loops_to_comps(fn):
    """copy of `fn` with accumulate-by-append loops turned into list comprehensions (all blocks outside `try`)"""
    fn = copy.deepcopy(fn)
    a = fn.args
    params = set(x.arg for x in a.posonlyargs + a.args + a.kwonlyargs) | set(x.arg for x in (a.vararg, a.kwarg) if x)

    def block(stmts, in_try):
        out = []
        k = 0
        while k < len(stmts):
            st = stmts[k]
            nxt = stmts[k + 1] if k + 1 < len(stmts) else None
            if (not in_try and isinstance(st, ast.Assign) and len(st.targets) == 1 and isinstance(st.targets[0], ast.Name)
                    and _is_empty_list(st.value) and isinstance(nxt, ast.For) and not nxt.orelse and isinstance(nxt.target, ast.Name)):
                X, v = st.targets[0].id, nxt.target.id
                lf = _loop_filter(nxt.body, X)
                if lf is not None and X != v:
                    guards, elt = lf
                    clean = names_loaded(nxt.iter, X) == 0 and names_loaded(elt, X) == 0 and all(names_loaded(g, X) == 0 for g in guards) \
                        and names_loaded(nxt.iter, v) == 0 and v not in params
                    if clean and stray_uses(fn, v) == 0:
                        comp = ast.ListComp(elt=elt, generators=[ast.comprehension(target=ast.Name(id=v, ctx=ast.Store()), iter=nxt.iter,
                                                                                   ifs=guards, is_async=0)])
                        new = ast.Assign(targets=[ast.Name(id=X, ctx=ast.Store())], value=comp)
                        ast.copy_location(new, st)
                        new.end_lineno = getattr(nxt, "end_lineno", st.lineno)
                        for n in ast.walk(new):
                            if not hasattr(n, "lineno"):
                                ast.copy_location(n, nxt)
                        out.append(ast.fix_missing_locations(new))
                        k += 2
                        continue
            for fld in ("body", "orelse", "finalbody"):
                if isinstance(getattr(st, fld, None), list) and not isinstance(st, (ast.FunctionDef, ast.AsyncFunctionDef, ast.ClassDef)):
                    setattr(st, fld, block(getattr(st, fld), in_try or isinstance(st, ast.Try)))
            if isinstance(st, ast.Try):
                for h in st.handlers:
                    h.body = block(h.body, True)
            out.append(st)
            k += 1
        return out

    fn.body = block(fn.body, False)
    return fn


# ---------------------------------------------------------------------------------------
# N4  loops over a literal list of atoms / tuples of atoms
# ---------------------------------------------------------------------------------------

def _literal_rows(it, target):
    """rows of substitutions {name: atom} of `for target in it`, or None when `it` is not a literal table"""
    if not isinstance(it, (ast.List, ast.Tuple)) or not it.elts:
        return None
    rows = []
    for e in it.elts:
        if isinstance(target, ast.Name) and is_atom(e):
            rows.append({target.id: e})
        elif isinstance(target, (ast.Tuple, ast.List)) and isinstance(e, (ast.Tuple, ast.List)) and len(e.elts) == len(target.elts) \
                and all(isinstance(t, ast.Name) for t in target.elts) and all(is_atom(x) for x in e.elts):
            rows.append(dict((t.id, x) for t, x in zip(target.elts, e.elts)))
        else:
            return None
    return rows


def unroll_literal_loops(stmts, scope):
    """`stmts` with every `for ... in <literal table>` unrolled (recursively, also inside with/if/for bodies).
    `scope` is the enclosing function (to check that the loop variables are not used outside the loop)."""
    out = []
    for st in stmts:
        if isinstance(st, ast.For):
            rows = _literal_rows(st.iter, st.target)
            if rows is not None:
                names = set(rows[0])
                if st.orelse or any(isinstance(n, (ast.Break, ast.Continue)) for n in ast.walk(st)):
                    raise ExtractError("line %d: loop over a literal table uses break/continue/else" % st.lineno)
                if any(names & bound_names(b) for b in st.body):
                    raise ExtractError("line %d: loop variable of a literal table is assigned in the body" % st.lineno)
                for nm in names:
                    if stray_uses(scope, nm) or nm in fn_params(scope):
                        raise ExtractError("line %d: loop variable %s of a literal table is used outside the loop" % (st.lineno, nm))
                for row in rows:
                    body = [subst(b, row) for b in st.body]
                    out += unroll_literal_loops(body, scope)
                continue
        if not isinstance(st, (ast.FunctionDef, ast.AsyncFunctionDef, ast.ClassDef)):
            st = copy.copy(st)
            for fld in ("body", "orelse", "finalbody"):
                if isinstance(getattr(st, fld, None), list):
                    setattr(st, fld, unroll_literal_loops(getattr(st, fld), scope))
        out.append(st)
    return out


# ---------------------------------------------------------------------------------------
# N8  index loop -> direct iteration
# ---------------------------------------------------------------------------------------

class _Elem(ast.NodeTransformer):
    def __init__(self, L, k, t):
        self.L, self.k, self.t = L, k, t

    def visit_Subscript(self, node):
        if isinstance(node.ctx, ast.Load) and isinstance(node.value, ast.Name) and node.value.id == self.L \
                and isinstance(node.slice, ast.Name) and node.slice.id == self.k:
            return ast.copy_location(ast.Name(id=self.t, ctx=ast.Load()), node)
        return self.generic_visit(node)


def direct_loop(loop):
    """(element name, list name, body) of a loop that visits the elements of a list in order, else None"""
    if not isinstance(loop, ast.For) or loop.orelse:
        return None
    it, tg = loop.iter, loop.target
    if isinstance(it, ast.Name) and isinstance(tg, ast.Name):
        return tg.id, it.id, loop.body
    L = k = t = None
    if isinstance(it, ast.Call) and isinstance(it.func, ast.Name) and not it.keywords and len(it.args) == 1:
        a = it.args[0]
        if it.func.id == "range" and isinstance(tg, ast.Name) and isinstance(a, ast.Call) and isinstance(a.func, ast.Name) \
                and a.func.id == "len" and len(a.args) == 1 and not a.keywords and isinstance(a.args[0], ast.Name):
            L, k, t = a.args[0].id, tg.id, "_elt"
        elif it.func.id == "enumerate" and isinstance(a, ast.Name) and isinstance(tg, ast.Tuple) and len(tg.elts) == 2 \
                and all(isinstance(x, ast.Name) for x in tg.elts):
            L, k, t = a.id, tg.elts[0].id, tg.elts[1].id
    if L is None or len(set([L, k, t])) != 3:
        return None
    wrap = ast.Module(body=loop.body, type_ignores=[])
    if k in bound_names(wrap) or t in bound_names(wrap) or L in bound_names(wrap) or (t == "_elt" and names_loaded(wrap, "_elt")):
        return None
    body = [_Elem(L, k, t).visit(copy.deepcopy(b)) for b in loop.body]
    wrap2 = ast.Module(body=body, type_ignores=[])
    if names_loaded(wrap2, k) or names_loaded(wrap2, L):
        return None
    return t, L, [ast.fix_missing_locations(b) for b in body]


# ---------------------------------------------------------------------------------------
# N5  single-use temporaries in front of a call statement
# ---------------------------------------------------------------------------------------

def inline_single_use(stmts, scope):
    """`x = E ; f(.., x, ..)` -> `f(.., E, ..)` when x is used exactly once in `scope` and nothing is evaluated between"""
    out = []
    k = 0
    while k < len(stmts):
        st = stmts[k]
        nxt = stmts[k + 1] if k + 1 < len(stmts) else None
        if isinstance(st, ast.Assign) and len(st.targets) == 1 and isinstance(st.targets[0], ast.Name) and nxt is not None \
                and isinstance(nxt, ast.Expr) and isinstance(nxt.value, ast.Call):
            x = st.targets[0].id
            call = nxt.value
            f = call.func
            pure_func = isinstance(f, ast.Name) or (isinstance(f, ast.Attribute) and isinstance(f.value, ast.Name))
            args = list(call.args) + [kw.value for kw in call.keywords]
            pos = [i for i, a in enumerate(args) if isinstance(a, ast.Name) and a.id == x]
            if pure_func and len(pos) == 1 and all(is_atom(a) for a in args[:pos[0]]) and names_loaded(scope, x) == 2 \
                    and not any(isinstance(a, ast.Starred) for a in call.args) and all(kw.arg for kw in call.keywords):
                new = copy.deepcopy(nxt)
                nargs = list(new.value.args) + [kw for kw in new.value.keywords]
                if pos[0] < len(new.value.args):
                    new.value.args[pos[0]] = copy.deepcopy(st.value)
                else:
                    new.value.keywords[pos[0] - len(new.value.args)].value = copy.deepcopy(st.value)
                out.append(ast.fix_missing_locations(new))
                k += 2
                continue
        out.append(st)
        k += 1
    return out


# ---------------------------------------------------------------------------------------
# N6  string templates
# ---------------------------------------------------------------------------------------

class Tmpl(object):
    """a string as literal chunks and holes: parts = [("lit", text) | ("hole", name)]"""

    def __init__(self, parts=()):
        self.parts = []
        for p in parts:
            self._add(p)

    def _add(self, p):
        if p[0] == "lit":
            if p[1] == "":
                return
            if self.parts and self.parts[-1][0] == "lit":
                self.parts[-1] = ("lit", self.parts[-1][1] + p[1])
                return
        self.parts.append((p[0], p[1]))

    def __add__(self, other):
        return Tmpl(self.parts + other.parts)

    def __eq__(self, other):
        return isinstance(other, Tmpl) and self.parts == other.parts

    def render(self):
        """`{name}` for holes; literal braces refuse to render (they would be ambiguous)"""
        s = ""
        for k, v in self.parts:
            if k == "lit":
                if "{" in v or "}" in v:
                    raise ExtractError("string template contains a brace: %r" % v)
                s += v
            else:
                s += "{%s}" % v
        return s

    def literal(self):
        if all(k == "lit" for k, _ in self.parts):
            return "".join(v for _, v in self.parts)
        return None


def lit(s):
    return Tmpl([("lit", s)])


class Strings(object):
    """evaluates string-valued expressions to templates.  `types`: name -> 'str' | 'int' for the symbolic holes;
    `env`: name -> Tmpl | list of Tmpl (local bindings met so far)."""

    def __init__(self, types, env=None):
        self.types = dict(types)
        self.env = dict(env or {})

    def child(self, extra_types=None, extra_env=None):
        s = Strings(self.types, self.env)
        s.types.update(extra_types or {})
        s.env.update(extra_env or {})
        return s

    def fail(self, e, why):
        raise ExtractError("line %d: string expression not understood (%s): %s" % (getattr(e, "lineno", 0), why, ast.unparse(e)[:80]))

    def hole(self, e, conv):
        """value of a format argument under conversion conv in 's', 'i'"""
        if isinstance(e, ast.Constant):
            if type(e.value) is str and conv == "s":
                return lit(e.value)
            if type(e.value) is int and conv in ("s", "i"):
                return lit(str(e.value))
            self.fail(e, "constant under %%%s" % conv)
        if isinstance(e, ast.Name):
            if e.id in self.env:
                v = self.env[e.id]
                if isinstance(v, Tmpl) and conv == "s":
                    return v
                self.fail(e, "bound name under %%%s" % conv)
            t = self.types.get(e.id)
            if t == "int" or (t == "str" and conv == "s"):
                return Tmpl([("hole", e.id)])
            self.fail(e, "name of undeclared type under %%%s" % conv)
        if conv == "s":
            return self.str(e)
        self.fail(e, "argument under %%%s" % conv)

    def str(self, e):
        """template of a str-valued expression"""
        if isinstance(e, ast.Constant) and type(e.value) is str:
            return lit(e.value)
        if isinstance(e, ast.Name):
            if e.id in self.env:
                v = self.env[e.id]
                if isinstance(v, Tmpl):
                    return v
                self.fail(e, "not a string")
            if self.types.get(e.id) == "str":
                return Tmpl([("hole", e.id)])
            self.fail(e, "name is not a declared str")
        if isinstance(e, ast.BinOp) and isinstance(e.op, ast.Add):
            return self.str(e.left) + self.str(e.right)
        if isinstance(e, ast.BinOp) and isinstance(e.op, ast.Mod):
            fmt = self.str(e.left).literal()
            if fmt is None:
                self.fail(e, "format string is not a literal")
            args = list(e.right.elts) if isinstance(e.right, ast.Tuple) else [e.right]
            if any(isinstance(a, ast.Starred) for a in args):
                self.fail(e, "starred format argument")
            out, k, i = Tmpl(), 0, 0
            while i < len(fmt):
                c = fmt[i]
                if c != "%":
                    out = out + lit(c)
                    i += 1
                    continue
                if i + 1 >= len(fmt):
                    self.fail(e, "dangling %")
                d = fmt[i + 1]
                if d == "%":
                    out = out + lit("%")
                elif d in "sid":
                    if k >= len(args):
                        self.fail(e, "too few format arguments")
                    out = out + self.hole(args[k], "s" if d == "s" else "i")
                    k += 1
                else:
                    self.fail(e, "format directive %%%s" % d)
                i += 2
            if k != len(args):
                self.fail(e, "too many format arguments")
            return out
        if isinstance(e, ast.JoinedStr):
            out = Tmpl()
            for v in e.values:
                if isinstance(v, ast.Constant):
                    out = out + lit(v.value)
                elif isinstance(v, ast.FormattedValue) and v.format_spec is None and v.conversion in (-1, 115):
                    out = out + self.hole(v.value, "s")
                else:
                    self.fail(e, "format spec / conversion")
            return out
        if isinstance(e, ast.Call) and isinstance(e.func, ast.Name) and e.func.id == "str" and len(e.args) == 1 and not e.keywords \
                and "str" not in self.env:
            return self.hole(e.args[0], "s")
        if isinstance(e, ast.Call) and isinstance(e.func, ast.Attribute) and e.func.attr == "format" and not e.keywords \
                and not any(isinstance(a, ast.Starred) for a in e.args):
            fmt = self.str(e.func.value).literal()
            if fmt is None:
                self.fail(e, "format string is not a literal")
            pieces = fmt.split("{}")
            if any("{" in p or "}" in p for p in pieces) or len(pieces) != len(e.args) + 1:
                self.fail(e, "str.format other than positional `{}`")
            out = lit(pieces[0])
            for a, p in zip(e.args, pieces[1:]):
                out = out + self.hole(a, "s") + lit(p)
            return out
        if isinstance(e, ast.Call) and isinstance(e.func, ast.Attribute) and e.func.attr == "join" and len(e.args) == 1 and not e.keywords:
            sep = self.str(e.func.value)
            items = self.strlist(e.args[0])
            out = Tmpl()
            for j, it in enumerate(items):
                out = out + (sep if j else Tmpl()) + it
            return out
        self.fail(e, "shape")

    def strlist(self, e):
        """list of templates of a list-of-str expression"""
        if isinstance(e, ast.Name) and isinstance(self.env.get(e.id), list):
            return self.env[e.id]
        if isinstance(e, (ast.List, ast.Tuple)):
            if any(isinstance(x, ast.Starred) for x in e.elts):
                self.fail(e, "starred element")
            return [self.str(x) for x in e.elts]
        if isinstance(e, (ast.ListComp, ast.GeneratorExp)) and len(e.generators) == 1:
            g = e.generators[0]
            rows = _literal_rows(g.iter, g.target)
            if rows is None or g.ifs or g.is_async:
                self.fail(e, "comprehension is not over a literal table")
            out = []
            for row in rows:
                out.append(self.str(subst(e.elt, row)))
            return out
        self.fail(e, "not a list of strings")

    def bind(self, name, value_expr):
        """record `name = <string or list of strings>`; returns False when the value is neither"""
        try:
            self.env[name] = self.str(value_expr)
            return True
        except ExtractError:
            pass
        try:
            self.env[name] = self.strlist(value_expr)
            return True
        except ExtractError:
            self.env.pop(name, None)
            return False


# ---------------------------------------------------------------------------------------
# N7  forward symbolic evaluation of a function body
# ---------------------------------------------------------------------------------------

_MUTATORS = ("append", "extend", "insert", "remove", "pop", "clear", "sort", "reverse", "update", "add", "discard",
             "setdefault", "popitem", "__setitem__", "__delitem__", "fill", "resize", "put", "itemset")


class _Resolve(ast.NodeTransformer):
    def __init__(self, env, locals_):
        self.env, self.locals = env, locals_
        self.shadow = []
        self.unknown = []

    def visit_Name(self, node):
        if not isinstance(node.ctx, ast.Load) or any(node.id in s for s in self.shadow):
            return node
        if node.id in self.env:
            v = self.env[node.id]
            if v is None:
                self.unknown.append(node.id)
                return node
            return copy.deepcopy(v)
        if node.id in self.locals:
            self.unknown.append(node.id)
        return node

    def _comp(self, node):
        bound = set()
        for g in node.generators:
            bound |= bound_names(g.target)
        # the first iterable is evaluated outside the comprehension's scope
        node.generators[0].iter = self.visit(node.generators[0].iter)
        self.shadow.append(bound)
        for j, g in enumerate(node.generators):
            if j:
                g.iter = self.visit(g.iter)
            g.ifs = [self.visit(c) for c in g.ifs]
        if isinstance(node, ast.DictComp):
            node.key = self.visit(node.key)
            node.value = self.visit(node.value)
        else:
            node.elt = self.visit(node.elt)
        self.shadow.pop()
        return node

    visit_ListComp = visit_SetComp = visit_GeneratorExp = visit_DictComp = _comp

    def visit_Lambda(self, node):
        self.shadow.append(bound_names(node))
        node.body = self.visit(node.body)
        self.shadow.pop()
        return node


class Flow(object):
    """Walks the body of `fn` forwards; `calls` collects, for every call whose callee is named `watch` (bare or as
    attribute), the argument expressions resolved down to parameters, globals and uninterpreted calls.
    An argument that depends on a name whose value is not known at that point resolves to None."""

    def __init__(self, fn, watch):
        self.fn, self.watch = fn, watch
        self.locals = fn_locals(fn)
        a = fn.args
        self.params = [x.arg for x in a.posonlyargs + a.args + a.kwonlyargs]
        self.calls = []
        self.returns = []                                   # resolved value of every `return <expr>` met (None: unknown)
        env = dict((p, ast.Name(id=p, ctx=ast.Load())) for p in self.params)
        self.block(strip_doc(fn.body), env)

    def resolve(self, e, env):
        r = _Resolve(env, self.locals)
        out = r.visit(copy.deepcopy(e))
        return None if r.unknown else out

    def scan(self, node, env):
        """record watched calls in the expressions of one simple statement / test (not descending into blocks)"""
        for n in ast.walk(node):
            if isinstance(n, ast.Call):
                f = n.func
                nm = f.id if isinstance(f, ast.Name) else f.attr if isinstance(f, ast.Attribute) else None
                if nm == self.watch:
                    self.calls.append(dict(lineno=n.lineno, args=[self.resolve(x, env) for x in n.args],
                                           keywords=[kw.arg for kw in n.keywords]))

    def kill(self, names, env):
        for nm in names:
            env[nm] = None

    def assign(self, target, value, env):
        if isinstance(target, ast.Name):
            env[target.id] = value
        elif isinstance(target, (ast.Tuple, ast.List)):
            for k, t in enumerate(target.elts):
                if isinstance(t, ast.Starred) or value is None:
                    self.kill(bound_names(t), env)
                else:
                    self.assign(t, ast.Subscript(value=copy.deepcopy(value), slice=ast.Constant(value=k), ctx=ast.Load()), env)
        else:                                               # x[i] = .. / x.attr = ..  mutates x
            base = target
            while isinstance(base, (ast.Subscript, ast.Attribute)):
                base = base.value
            if isinstance(base, ast.Name):
                env[base.id] = None

    def block(self, stmts, env):
        for st in stmts:
            if isinstance(st, ast.Assign):
                self.scan(st.value, env)
                v = self.resolve(st.value, env)
                for t in st.targets:
                    self.assign(t, v, env)
            elif isinstance(st, ast.AnnAssign):
                if st.value is not None:
                    self.scan(st.value, env)
                    self.assign(st.target, self.resolve(st.value, env), env)
            elif isinstance(st, ast.AugAssign):
                self.scan(st.value, env)
                if isinstance(st.target, ast.Name):
                    cur, v = env.get(st.target.id), self.resolve(st.value, env)
                    env[st.target.id] = None if cur is None or v is None else ast.BinOp(left=copy.deepcopy(cur), op=st.op, right=v)
                else:
                    self.assign(st.target, None, env)
            elif isinstance(st, ast.Expr):
                self.scan(st.value, env)
                c = st.value
                if isinstance(c, ast.Call) and isinstance(c.func, ast.Attribute) and isinstance(c.func.value, ast.Name) \
                        and c.func.value.id in self.locals and c.func.attr in _MUTATORS:
                    env[c.func.value.id] = None
            elif isinstance(st, ast.If):
                self.scan(st.test, env)
                e1, e2 = dict(env), dict(env)
                self.block(st.body, e1)
                self.block(st.orelse, e2)
                for nm in set(e1) | set(e2):
                    a, b = e1.get(nm, "absent"), e2.get(nm, "absent")
                    same = a is not None and b is not None and a != "absent" and b != "absent" and ast.dump(a) == ast.dump(b)
                    env[nm] = a if same else None
            elif isinstance(st, (ast.For, ast.AsyncFor, ast.While)):
                self.scan(st.iter if not isinstance(st, ast.While) else st.test, env)
                killed = set()
                for b in st.body + st.orelse:
                    killed |= bound_names(b)
                if not isinstance(st, ast.While):
                    killed |= bound_names(st.target)
                for n in ast.walk(st):                       # mutated inside the loop: unknown from its start
                    if isinstance(n, ast.Call) and isinstance(n.func, ast.Attribute) and isinstance(n.func.value, ast.Name) \
                            and n.func.attr in _MUTATORS:
                        killed.add(n.func.value.id)
                    if isinstance(n, (ast.Subscript, ast.Attribute)) and isinstance(n.ctx, (ast.Store, ast.Del)):
                        base = n
                        while isinstance(base, (ast.Subscript, ast.Attribute)):
                            base = base.value
                        if isinstance(base, ast.Name):
                            killed.add(base.id)
                self.kill(killed, env)
                e1 = dict(env)
                self.block(st.body, e1)
                self.block(st.orelse, dict(e1))
                self.kill(killed, env)
            elif isinstance(st, (ast.With, ast.AsyncWith)):
                for it in st.items:
                    self.scan(it.context_expr, env)
                    if it.optional_vars is not None:
                        self.kill(bound_names(it.optional_vars), env)
                self.block(st.body, env)
            elif isinstance(st, ast.Try) or st.__class__.__name__ == "TryStar":
                killed = set()
                for b in ast.walk(st):
                    if b is not st:
                        killed |= bound_names(b)
                self.kill(killed, env)
                self.block(st.body, dict(env))
                for h in st.handlers:
                    self.block(h.body, dict(env))
                self.block(st.orelse, dict(env))
                self.block(st.finalbody, dict(env))
                self.kill(killed, env)
            elif isinstance(st, (ast.FunctionDef, ast.AsyncFunctionDef, ast.ClassDef)):
                env[st.name] = None
            elif isinstance(st, ast.Delete):
                for t in st.targets:
                    self.assign(t, None, env)
            else:                                           # return, raise, assert, pass, import, global, ...
                if isinstance(st, ast.Return):
                    self.returns.append(None if st.value is None else self.resolve(st.value, env))
                for n in ast.iter_child_nodes(st):
                    if isinstance(n, ast.expr):
                        self.scan(n, env)
                self.kill(bound_names(st), env)


def alpha(comp, new="_v"):
    """single-generator comprehension with its loop variable renamed to `new` (None when not of that shape)"""
    if not (isinstance(comp, ast.ListComp) and len(comp.generators) == 1 and isinstance(comp.generators[0].target, ast.Name)):
        return None
    g = comp.generators[0]
    old = g.target.id
    if names_loaded(comp, new) and old != new:
        return None
    m = {old: ast.Name(id=new, ctx=ast.Load())}
    out = ast.ListComp(elt=subst(comp.elt, m),
                       generators=[ast.comprehension(target=ast.Name(id=new, ctx=ast.Store()), iter=copy.deepcopy(g.iter),
                                                     ifs=[subst(c, m) for c in g.ifs], is_async=g.is_async)])
    return ast.fix_missing_locations(out)


def dump(e):
    return ast.dump(e, annotate_fields=False, include_attributes=False)
